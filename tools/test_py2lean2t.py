#!/venv/bin/python
"""tools/test_py2lean2t.py — self-test of harness/py2lean2t.py (Translator2T): try / except with a bare handler around
operations that may fail, tuple targets bound to a value that may fail, `raise` inside a try body, and call
normalisation against the live signature of the callee (positional / keyword / mixed / defaults / swapped positions),
inlining of helper functions at their call sites and expansion of `**options` dictionaries held in a local.
Translates sample functions, type-checks the Lean text and compares `#eval` with Python.  Exit 0 iff all agree."""
import itertools, os, shutil, subprocess, sys, tempfile
ROOT = os.path.dirname(os.path.dirname(os.path.abspath(__file__)))
sys.path.insert(0, ROOT)
from harness import py2lean2t as P


def half(x):
    """fails on odd numbers"""
    if x % 2:
        raise ValueError(x)
    return x // 2


def split(x):
    """fails on negatives"""
    if x < 0:
        raise ValueError(x)
    return x // 10, x % 10


def t_try(x, k):
    y = x + k
    try:
        a = half(y)
        b = half(a)
        return a + b
    except:
        return -1 - y


def t_try_then(x, k):
    r = 0
    try:
        r = half(x)
        if r > k:
            raise ValueError("big")
        r = r + 100
    except Exception:
        r = r + 1000
    return r + half(k)          # outside the try: this failure is NOT caught


def t_tuple(x, k):
    try:
        a, b = split(x - k)
        return a * 100 + b
    except:
        return -7


def callee(a, b, c=3, d=4):
    return ((a * 10 + b) * 10 + c) * 10 + d


def t_call_kw(x, k):
    return callee(x, k, d=1)


def t_call_pos(x, k):
    return callee(x, k, 3, 1)


def t_call_mixed(x, k):
    return callee(b=k, a=x, d=1)


def t_call_swapped(x, k):
    return callee(k, x, 1)      # a=k, b=x, c=1, d=4


def helper_sum(a, b, c=1):
    """a helper a clean-up might have extracted: inlined at its call sites"""
    t = a * 10 + b
    t = t * 10 + c
    return t


def t_inline(x, k):
    r = helper_sum(x, c=k, b=2)
    t = helper_sum(r, 1)          # a second inlining, and a local with the helper's name for its own local
    return t + 1


def t_inline_return(x, k):
    if k > 1:
        return helper_sum(k, x)
    return helper_sum(x, k)


def t_dict(x, k):
    options = dict(c=k, d=1)
    return callee(x, 2, **options)


EXPR = [("half($x)", "half {x}", "bind"), ("split($x)", "splt {x}", "bind"),
        ("callee(a=$a, b=$b, c=$c, d=$d)", "(callee {a} {b} {c} {d})")]
PRELUDE = """
def half (x : Int) : Except Unit Int := if x % 2 != 0 then .error () else .ok (x / 2)
def splt (x : Int) : Except Unit (Int × Int) := if x < 0 then .error () else .ok (x / 10, x % 10)
def callee (a b c d : Int) : Int := ((a * 10 + b) * 10 + c) * 10 + d
def show' (r : Except Unit Int) : String := match r with | .ok v => toString v | .error _ => "raise"
"""


def rules():
    return P.Rules2T(expr=EXPR, ret=".ok ({e})", raise_=".error ()", unwrap=(".error err", ".error err", ".ok {x}"),
                     callees={"callee": (callee, False, "callee")}, helpers={"helper_sum": helper_sum})


CASES = [t_try, t_try_then, t_tuple, t_call_kw, t_call_pos, t_call_mixed, t_call_swapped, t_inline, t_inline_return, t_dict]
XS = [0, 1, 2, 4, 6, 7, 8, 12, 13, 36, -3]
KS = [0, 1, 2, 5]


def main():
    text = ["import MenpoModel.Core.PyLoop", "set_option linter.unusedVariables false", PRELUDE]
    expect = []
    for fn in CASES:
        body = P.Translator2T(rules()).function(fn, {"x": "x", "k": "k"})
        text.append("def %s (x k : Int) : Except Unit Int :=\n%s\n" % (fn.__name__, body))
        for x, k in itertools.product(XS, KS):
            try:
                v = str(fn(x, k))
            except ValueError:
                v = "raise"
            expect.append((fn.__name__, (x, k), v))
            text.append('#eval show\' (%s (%d) (%d))' % (fn.__name__, x, k))
    # what Python rejects must be untranslatable
    refused = 0
    for src in ("callee(x, k, 1, 2, 3)", "callee(x, a=k)", "callee(x, k, e=1)", "callee(x)"):
        ns = {}
        exec("def bad(x, k):\n    return %s\n" % src, {"callee": callee}, ns)
        import ast, textwrap
        node = ast.parse("def bad(x, k):\n    return %s\n" % src).body[0]
        try:
            P.Translator2T(rules()).function_node(node, {"x": "x", "k": "k"})
        except P.Untranslatable:
            refused += 1
    d = tempfile.mkdtemp()
    f = os.path.join(d, "T.lean")
    open(f, "w").write("\n".join(text))
    r = subprocess.run(["lake", "env", "lean", f], cwd=os.path.join(ROOT, "lean"), capture_output=True, text=True)
    out = [l.strip().strip('"') for l in r.stdout.splitlines() if l.strip()]
    if r.returncode != 0:
        print(r.stdout[-3000:], r.stderr[-2000:])
        print(open(f).read()[:6000])
        return 1
    bad = 0
    for (name, c, v), line in zip(expect, out):
        if v != line:
            bad += 1
            print("DISAGREE", name, c, "python", v, "lean", line)
    print("py2lean2t self-test: %d evaluations, %d disagreements, %d lean output lines, %d of 4 ill-formed calls refused" % (
        len(expect), bad, len(out), refused))
    shutil.rmtree(d)
    return 1 if bad or len(out) != len(expect) or refused != 4 else 0


if __name__ == "__main__":
    sys.exit(main())
