#!/usr/bin/env python3
"""tools/set_refactor_outcome.py <refactoring-id> "<outcome text>"  : records what the check said on the refactored tree"""
import json, os, sys
ROOT = os.path.dirname(os.path.dirname(os.path.abspath(__file__)))
p = os.path.join(ROOT, "refactorings", sys.argv[1], "meta.json")
m = json.load(open(p))
m.setdefault("check_history", []).append(sys.argv[2])
m["check_outcome"] = sys.argv[2]
json.dump(m, open(p, "w"), indent=1)
