#!/venv/bin/python
"""tools/test_py2lean2m.py — self-test of the Translator2M / Rules2M additions of harness/py2lean2.py (hoisting of monadic
operands, short-circuit `and` / `or` with operands that may raise, lambda + reduce, `is None`, float constants, in-place
statements in the monad, scope-aware `end`; Translator2N: inlining of same-module helper functions, pure and raising): translates sample functions, type-checks the Lean text and compares `#eval`
of the translation with Python (exceptions included) on a grid of inputs.  Exit 0 iff everything agrees."""
import os, subprocess, sys, tempfile, shutil
from functools import reduce
ROOT = os.path.dirname(os.path.dirname(os.path.abspath(__file__)))
sys.path.insert(0, ROOT)
from harness import py2lean2 as P


def h_first_big(xs, flag):
    if flag and xs[0] > 2:
        return 1
    return 0


def h_or(xs, k):
    if k > 5 or xs[k] == 7:
        return xs[0] + 1
    return -1


def h_chain(xs, k):
    y = half(half(xs[k]))
    return y + 1


def h_reduce(xs, k):
    return reduce(lambda a, b: sub_pos(a, b), [xs[0], k, 1])


def h_none(k, d=None):
    if d is None:
        d = 0.5
    if d is not None and k > 0:
        return d * k
    return d


class Box:
    def __init__(self, v):
        self.v = v

    def bump(self, k):
        if k < 0:
            raise ValueError("negative")
        self.v += k


def h_inplace(self, k):
    self.bump(k)
    if k > 3:
        return
    self.bump(k - 2)


def clamp_small(x, lo=0):
    if x < lo:
        return lo
    return x


def h_helper_pure(xs, k):
    y = clamp_small(k) + clamp_small(k - 3, lo=1)
    return y + xs[0]


def h_helper_raising(xs, k):
    return checked_half(xs[k]) + 1


def checked_half(x):
    if x % 2 != 0:
        raise ValueError("odd")
    y = x // 2
    return y


def half(x):
    if x % 2:
        raise ValueError("odd")
    return x // 2


def sub_pos(a, b):
    if a - b < 0:
        raise ValueError("negative")
    return a - b


PRE = """import MenpoModel.Core.PyLoop
set_option linter.unusedVariables false
inductive E where | index | value deriving Repr
def item (xs : List Int) (k : Int) : Except E Int :=
  if k < 0 then (if (-k).toNat ≤ xs.length then .ok (xs.getD (xs.length - (-k).toNat) 0) else .error .index)
  else if k.toNat < xs.length then .ok (xs.getD k.toNat 0) else .error .index
def half (x : Int) : Except E Int := if x % 2 != 0 then .error .value else .ok (x / 2)
def subPos (a b : Int) : Except E Int := if a - b < 0 then .error .value else .ok (a - b)
def reduceM (f : Int → Int → Except E Int) : List Int → Except E Int
  | [] => .error .value
  | x :: xs => xs.foldlM f x
def bump (v k : Int) : Except E Int := if k < 0 then .error .value else .ok (v + k)
def show1 {α} [Repr α] : Except E α → String
  | .ok v => "ok " ++ toString (repr v)
  | .error .index => "IndexError"
  | .error .value => "ValueError"
"""

R = P.Rules2M(
    expr=[("$x[$i]", "(item {x} {i})", "bind"), ("half($x)", "(half {x})", "bind"),
          ("sub_pos($a, $b)", "(subPos {a} {b})", "bind"), ("reduce($f, $xs)", "(reduceM {f} {xs})", "bind")],
    stmt=[("$s.bump($k)", "s", "(bump {s} {k})", "bind")],
    ret=".ok ({e})", raise_=".error .value", unit="(Except.ok ({e}))",
    float_=lambda n, d: "((%d : Rat) / %d)" % (n, d))
R_INPLACE = P.Rules2M(stmt=[("$s.bump($k)", "s", "(bump {s} {k})", "bind")], ret=".ok {self}", end=".ok {self}",
                      raise_=".error .value")
R_NONE = P.Rules2M(ret="{e}", float_=lambda n, d: "((%d : Rat) / %d)" % (n, d),
                   binop={P.ast.Mult: "({a} * {b})"})

LISTS = [[], [1], [3], [7, 2], [4, 8, 7], [8, 4, 2, 16]]
KS = [-1, 0, 1, 2, 4, 6]


def lean_list(xs):
    return "[" + ", ".join("(%d : Int)" % x for x in xs) + "]"


def main():
    text, expect = [PRE], []

    def add(fn, sig, body_rules, args, calls):
        body = P.Translator2M(body_rules).function(fn, args, ind=1)
        text.append("def %s %s :=\n%s\n" % (fn.__name__, sig, body))
        for lean_args, thunk in calls:
            try:
                v = thunk()
                want = "ok " + (str(v) if not isinstance(v, bool) else str(v).lower())
            except IndexError:
                want = "IndexError"
            except ValueError:
                want = "ValueError"
            expect.append((fn.__name__, lean_args, want))
            text.append("#eval show1 (%s %s)" % (fn.__name__, lean_args))

    add(h_first_big, "(xs : List Int) (flag : Bool) : Except E Int", R, {"xs": "xs", "flag": "flag"},
        [("%s %s" % (lean_list(xs), str(f).lower()), (lambda xs=xs, f=f: h_first_big(xs, f))) for xs in LISTS for f in (True, False)])
    add(h_or, "(xs : List Int) (k : Int) : Except E Int", R, {"xs": "xs", "k": "k"},
        [("%s (%d)" % (lean_list(xs), k), (lambda xs=xs, k=k: h_or(xs, k))) for xs in LISTS for k in KS])
    add(h_chain, "(xs : List Int) (k : Int) : Except E Int", R, {"xs": "xs", "k": "k"},
        [("%s (%d)" % (lean_list(xs), k), (lambda xs=xs, k=k: h_chain(xs, k))) for xs in LISTS for k in KS])
    add(h_reduce, "(xs : List Int) (k : Int) : Except E Int", R, {"xs": "xs", "k": "k"},
        [("%s (%d)" % (lean_list(xs), k), (lambda xs=xs, k=k: h_reduce(xs, k))) for xs in LISTS for k in KS])
    add(h_inplace, "(self : Int) (k : Int) : Except E Int", R_INPLACE, {"self": "self", "k": "k"},
        [("(%d) (%d)" % (v, k), (lambda v=v, k=k: (lambda b: (h_inplace(b, k), b.v)[1])(Box(v)))) for v in (0, 5) for k in KS])
    RN = P.Rules2N(expr=[("$x[$i]", "(item {x} {i})", "bind"), ("$a % $b", "({a} % {b})"), ("$a // 2", "({a} / 2)")],
                   ret="Except.ok ({e})", raise_="Except.error E.value", unit="(Except.ok ({e}))")

    def addN(fn, sig, args, calls):
        tr = P.Translator2N(RN)
        body = tr.function(fn, args, ind=1)
        assert tr.inlined, "no helper was inlined in %s" % fn.__name__
        text.append("def %s %s :=\n%s\n" % (fn.__name__, sig, body))
        for lean_args, thunk in calls:
            try:
                want = "ok " + str(thunk())
            except IndexError:
                want = "IndexError"
            except ValueError:
                want = "ValueError"
            expect.append((fn.__name__, lean_args, want))
            text.append("#eval show1 (%s %s)" % (fn.__name__, lean_args))
    addN(h_helper_pure, "(xs : List Int) (k : Int) : Except E Int", {"xs": "xs", "k": "k"},
         [("%s (%d)" % (lean_list(xs), k), (lambda xs=xs, k=k: h_helper_pure(xs, k))) for xs in LISTS for k in KS])
    addN(h_helper_raising, "(xs : List Int) (k : Int) : Except E Int", {"xs": "xs", "k": "k"},
         [("%s (%d)" % (lean_list(xs), k), (lambda xs=xs, k=k: h_helper_raising(xs, k))) for xs in LISTS for k in KS])
    # `is None` on an Option argument (pure function; values are rationals)
    body = P.Translator2M(R_NONE).function(h_none, {"k": "k", "d": "d"}, ind=1)
    text.append("def h_none (k : Rat) (d : Option Rat) : Option Rat :=\n%s\n" % body.replace("let d0 := ((1 : Rat) / 2)", "let d0 := some ((1 : Rat) / 2)").replace("(d0 * k)", "(d0.map (· * k))").replace("(d * k)", "(d.map (· * k))"))
    d = tempfile.mkdtemp()
    f = os.path.join(d, "T.lean")
    open(f, "w").write("\n".join(text))
    r = subprocess.run(["lake", "env", "lean", f], cwd=os.path.join(ROOT, "lean"), capture_output=True, text=True)
    out = [l.strip().strip('"') for l in r.stdout.splitlines() if l.strip()]
    if r.returncode != 0:
        print(r.stdout[:3000], r.stderr[-2000:])
        print(open(f).read()[:8000])
        return 1
    bad = 0
    for (name, args, want), line in zip(expect, out):
        if want.replace(" ", "") != line.replace(" ", ""):
            bad += 1
            print("DISAGREE", name, args, "python", want, "lean", line)
    print("py2lean2 Translator2M self-test: %d evaluations, %d disagreements, %d lean output lines" % (len(expect), bad, len(out)))
    shutil.rmtree(d)
    return 1 if bad or len(out) != len(expect) else 0


sys.exit(main())
