#!/venv/bin/python
"""tools/test_py2lean2f.py — self-test of harness/py2lean2f.py: translates sample functions that use the constructs the
module adds (nested def as a lambda, the "define the default callback" idiom with an optional variable, python variables
in rule templates, `if` on a literal, skipped statements, a comprehension whose element may raise -> List.mapM, a tuple
bound to a call that may raise, keyword arguments in any order, a decorator's inner function, module-level helpers
inlined at their call sites / used as values, membership in a literal tuple), type-checks the Lean
text and compares `#eval` of the translation with Python on a grid of inputs.  Exit 0 iff everything agrees."""
import itertools, os, subprocess, sys, tempfile
ROOT = os.path.dirname(os.path.dirname(os.path.abspath(__file__)))
sys.path.insert(0, ROOT)
from harness import py2lean2f as F


def log(msg):
    pass


def checked_div(a, b):
    if b == 0:
        raise ValueError("zero")
    return a // b


def pair_of(a, b):
    if a < 0:
        raise ValueError("negative")
    return (a + b, a * b)


def combine(x, scale=1, offset=0):
    return x * scale + offset


def f_default_callback(xs, k, fn=None):
    """`if fn is None: def fn(...)` — an optional callback with a default defined inside"""
    if fn is None:

        def fn(v, extra=0):
            return v + k

    return [fn(x) for x in xs]


def f_nested(xs, k):
    def shift(v):
        return v - k

    ys = [shift(x) for x in xs]
    log("shifted")
    return ys


def f_verbose(xs, verbose=False):
    total = 0
    for x in xs:
        total += x
    if verbose:
        print("total is {}".format(total))
        total = total + 1000
    return total


def f_mapm(xs, k):
    """a comprehension whose element may raise"""
    qs = [checked_div(x, k) for x in xs]
    return qs


def f_tuple_bind(a, b):
    s, p = pair_of(a, b)
    return s - p


def f_kwargs(x, k):
    return combine(x, offset=k, scale=2) + combine(x, scale=3, offset=0)


def deco(wrapped):
    def wrapper(x, *args, **kwargs):
        if x < 0:
            return wrapped(-x, *args, **kwargs)
        else:
            return wrapped(x, *args, **kwargs) + 1

    return wrapper


def _h_default(v, extra=0):
    return v + 7


def _h_split(x, k, mode):
    # a helper with early returns and a raise, as an extracted block
    if mode == 0:
        y = x + k
        return y, y * 2
    if mode == 1:
        return x - k, k
    raise ValueError("mode")


def f_helper(x, k, mode, fn=None):
    if fn is None:
        fn = _h_default
    a, b = _h_split(x, k, mode)
    if mode in (0, 5):
        return fn(a) + b
    return a - b


def f_helper_ret(x, k, mode):
    y = x * 2
    return _h_split(y, k=k, mode=mode)


def R(**kw):
    return F.Rules2F(
        expr=[("checked_div($a, $b)", "(if {b} == 0 then none else some ({a} / {b}))", "bind"),
              ("pair_of($a, $b)", "(if decide ({a} < 0) then none else some (({a} + {b}), ({a} * {b})))", "bind"),
              ("combine($x, offset=$o, scale=$s)", "(({x} * {s}) + {o})"),
              ("fn($x)", "(callOpt {fn} {x})"),
              ("shift($x)", "({shift} {x})"),
              ("wrapped($a, *args, **kwargs)", "(w {a})")],
        skip=["log($m)"], ret="some ({e})", raise_="none", unit="some ({e})",
        bind="({m}).bind fun {x} =>\n{k}", **kw)


PRELUDE = """import MenpoModel.Core.PyLoop
set_option linter.unusedVariables false
def callOpt (f : Option (Int → Int → Int)) (x : Int) : Int := match f with | some g => g x 0 | none => 0
"""

LISTS = [[], [1], [2, 4], [3, 1, 4, 1, 5], [-6, 2, 9, 0, 7]]
KS = [0, 2, -3, 5]


def lean_list(xs):
    return "[" + ", ".join("(%d : Int)" % x for x in xs) + "]"


def fmt(v):
    if v is None:
        return "none"
    if isinstance(v, list):
        return "some [" + ", ".join(str(x) for x in v) + "]"
    if isinstance(v, tuple):
        return "some (" + ", ".join(str(x) for x in v) + ")"
    return "some " + ("(%d)" % v if v < 0 else str(v))


def main():
    text, expect = [PRELUDE], []

    def case(name, sig, body, calls):
        text.append("def %s %s :=\n%s\n" % (name, sig, body))
        for lean_args, thunk in calls:
            try:
                v = thunk()
            except (ValueError, ZeroDivisionError):
                v = None
            expect.append((name, lean_args, v))
            text.append("#eval %s %s" % (name, lean_args))

    T = F.Translator2F
    case("f_default_callback", "(xs : List Int) (k : Int) (fn : Option (Int → Int → Int)) : Option (List Int)",
         T(R(optional={"fn": "Int → Int → Int"})).function(f_default_callback, {"xs": "xs", "k": "k", "fn": "fn"}),
         [("%s (%d) none" % (lean_list(xs), k), (lambda xs=xs, k=k: f_default_callback(xs, k))) for xs in LISTS for k in KS] +
         [("%s (%d) (some (fun v e => v * 2))" % (lean_list(xs), k),
           (lambda xs=xs, k=k: f_default_callback(xs, k, lambda v: v * 2))) for xs in LISTS for k in KS[:2]])
    case("f_nested", "(xs : List Int) (k : Int) : Option (List Int)",
         T(R()).function(f_nested, {"xs": "xs", "k": "k"}),
         [("%s (%d)" % (lean_list(xs), k), (lambda xs=xs, k=k: f_nested(xs, k))) for xs in LISTS for k in KS])
    case("f_verbose", "(xs : List Int) : Option Int",
         T(R(names={"verbose": "false"})).function(f_verbose, {"xs": "xs", "verbose": "false"}),
         [(lean_list(xs), (lambda xs=xs: f_verbose(xs))) for xs in LISTS])
    # Python's // is floor division; Lean's Int `/` (T-division for the literals used here would differ on negatives):
    # keep the operands non-negative
    case("f_mapm", "(xs : List Int) (k : Int) : Option (List Int)",
         T(R()).function(f_mapm, {"xs": "xs", "k": "k"}),
         [("%s (%d)" % (lean_list(xs), k), (lambda xs=xs, k=k: f_mapm(xs, k))) for xs in LISTS[:4] for k in (0, 2, 5)])
    case("f_tuple_bind", "(a b : Int) : Option Int",
         T(R()).function(f_tuple_bind, {"a": "a", "b": "b"}),
         [("(%d) (%d)" % (a, b), (lambda a=a, b=b: f_tuple_bind(a, b))) for a in (-2, 0, 3, 7) for b in (-1, 4)])
    case("f_kwargs", "(x k : Int) : Option Int",
         T(R()).function(f_kwargs, {"x": "x", "k": "k"}),
         [("(%d) (%d)" % (a, b), (lambda a=a, b=b: f_kwargs(a, b))) for a in (-2, 0, 3) for b in (-1, 4)])
    H = {"_h_default": F.source_ast(_h_default)[0], "_h_split": F.source_ast(_h_split)[0]}
    case("f_helper", "(x k mode : Int) (fn : Option (Int → Int → Int)) : Option Int",
         T(R(optional={"fn": "Int → Int → Int"}, helpers=H)).function(f_helper, {"x": "x", "k": "k", "mode": "mode", "fn": "fn"}),
         [("(%d) (%d) (%d) none" % (a, b, m), (lambda a=a, b=b, m=m: f_helper(a, b, m))) for a in (-2, 0, 3) for b in (-1, 4)
          for m in (0, 1, 2)])
    case("f_helper_ret", "(x k mode : Int) : Option (Int × Int)",
         T(R(helpers=H)).function(f_helper_ret, {"x": "x", "k": "k", "mode": "mode"}),
         [("(%d) (%d) (%d)" % (a, b, m), (lambda a=a, b=b, m=m: f_helper_ret(a, b, m))) for a in (-2, 3) for b in (-1, 4)
          for m in (0, 1, 2)])
    inner = F.decorator_shape(deco, "wrapper", [])
    case("f_deco", "(w : Int → Int) (x : Int) : Option Int",
         T(R()).function_node(inner, {"x": "x", "args": "()", "kwargs": "()"}),
         [("(fun v => v * 3) (%d)" % a, (lambda a=a: deco(lambda v: v * 3)(a))) for a in (-4, -1, 0, 2, 9)])
    # things that must be refused
    refused = 0
    for bad in ("def g(x):\n    def h(v):\n        for i in v:\n            return i\n        return 0\n    return h(x)\n",):
        try:
            T(R()).function_node(F.ast.parse(bad).body[0], {"x": "x"})
        except F.Untranslatable:
            refused += 1
    d = tempfile.mkdtemp()
    f = os.path.join(d, "T.lean")
    open(f, "w").write("\n".join(text))
    r = subprocess.run(["lake", "env", "lean", f], cwd=os.path.join(ROOT, "lean"), capture_output=True, text=True)
    out = [l for l in r.stdout.splitlines() if l.strip()]
    if r.returncode != 0:
        print(r.stdout[-3000:], r.stderr[-2000:])
        print(open(f).read()[:8000])
        return 1
    bad = 0
    for (name, c, v), line in zip(expect, out):
        if fmt(v).replace(" ", "") != line.replace(" ", ""):
            bad += 1
            print("DISAGREE", name, c, "python", fmt(v), "lean", line)
    print("py2lean2f self-test: %d evaluations, %d disagreements, %d lean output lines, %d/1 refusals" % (
        len(expect), bad, len(out), refused))
    import shutil
    shutil.rmtree(d)
    return 1 if bad or len(out) != len(expect) or refused != 1 else 0


if __name__ == "__main__":
    sys.exit(main())
