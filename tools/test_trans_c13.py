#!/venv/bin/python
"""tools/test_trans_c13.py — self-test of the generic additions of harness/trans_c13.py (`T13` over py2lean2's
`Translator2M`): nested tuple targets, generator arguments of tuple()/list(), comprehensions with several generators,
alias statements (an in-place statement on one name of an alias group rebinds all of them; groups per `if` arm),
inlined helpers, `a:b` = slice(a, b), isinstance with a tuple of classes, `!=` through the `==` rule, tuple targets of a monadic
value, string constants, the iteration wrapper.  Sample functions are translated, the Lean text is type-checked and
`#eval` of the translation is compared with Python on a grid of inputs.  Exit 0 iff everything agrees."""
import itertools, os, shutil, subprocess, sys, tempfile
ROOT = os.path.dirname(os.path.dirname(os.path.abspath(__file__)))
sys.path.insert(0, ROOT)
from harness import trans_c13 as T


def f_nested(xs, ys):
    t = 0
    for i, (a, b) in enumerate(zip(xs, ys)):
        t += i * a + b
    return t


def f_gen_tuple(xs, k):
    ys = tuple(x + k for x in xs if x > 0)
    return list(y * 2 for y in ys)


def f_two_gens(xs, ys):
    return [x * y for x in xs for y in ys if y > x]


def f_alias(xs, flag):
    res = list(xs)
    cur = res if flag else res
    cur.append(7)
    other = list(xs)
    other.append(9)
    return res


def f_alias_dropped(xs, flag):
    res = list(xs)
    cur = res if flag else res
    cur = list(xs)          # plain re-assignment: `cur` no longer names the object `res` names
    cur.append(7)
    return res


def safe_div(a, b):
    if b == 0:
        raise ZeroDivisionError
    return (a // b, a % b)


def f_monadic_tuple(a, b):
    q, r = safe_div(a, b)
    return q * 10 + r


def f_strings(mode, k):
    if mode == "constant":
        return k
    return -k


def _guard_nonempty(xs):
    """extracted guard helper"""
    if len(xs) == 0:
        raise ZeroDivisionError


def _scaled(xs, k):
    ys = [x * k for x in xs]
    return ys


def f_inlined(xs, k):
    _guard_nonempty(xs)
    zs = _scaled(xs, k + 1)
    return zs


def f_alias_arms(xs, flag):
    res = list(xs)
    if flag:
        cur = res
    else:
        cur = list(xs)
    cur.append(7)
    return res


def f_norms(xs, k):
    if isinstance(k, (bool, int)) and len(xs) != 2:
        ys = xs[1:3]
        return ys
    return xs


def f_unroll(a, b):
    axes = [x * 2 + 1 for x in (a, b)]
    hi, lo = [y + a for y in (b, a)]
    return axes[0] * 10 + axes[1] + hi - lo


R = T.Rules13(
    expr=[("enumerate($x)", "((List.zipIdx {x}).map (fun p => ((p.2 : Int), p.1)))"),
          ("zip($a, $b)", "(List.zip {a} {b})"), ("list($x)", "{x}"),
          ("safe_div($a, $b)", "safeDiv {a} {b}", "bind"), ("len($x) == $n", "(List.length {x} == {n})"),
          ("isinstance($x, bool)", "false"), ("isinstance($x, int)", "true"),
          ("$x[slice($a, $b)]", "(List.take ({b} - {a}) (List.drop {a} {x}))")],
    inline_from=("__main__",),
    stmt=[("$l.append($x)", "l", "({l} ++ [{x}])")],
    alias=[("$x = $y if flag else $y", "x", "y")],
    strings={"constant": "true", "nearest": "false"},
    ret="some ({e})", raise_="none", bind="({m}).bind fun {x} =>\n{k}", unit="some ({e})", iter_="(id {it})")

PRE = """def safeDiv (a b : Int) : Option (Int × Int) := if b = 0 then none else some (a / b, a % b)
"""

CASES = [
    (f_nested, "(xs ys : List Int) : Option Int", {"xs": "xs", "ys": "ys"}),
    (f_gen_tuple, "(xs : List Int) (k : Int) : Option (List Int)", {"xs": "xs", "k": "k"}),
    (f_two_gens, "(xs ys : List Int) : Option (List Int)", {"xs": "xs", "ys": "ys"}),
    (f_alias, "(xs : List Int) (flag : Bool) : Option (List Int)", {"xs": "xs", "flag": "flag"}),
    (f_alias_dropped, "(xs : List Int) (flag : Bool) : Option (List Int)", {"xs": "xs", "flag": "flag"}),
    (f_monadic_tuple, "(a b : Int) : Option Int", {"a": "a", "b": "b"}),
    (f_strings, "(mode : Bool) (k : Int) : Option Int", {"mode": "mode", "k": "k"}),
    (f_inlined, "(xs : List Int) (k : Int) : Option (List Int)", {"xs": "xs", "k": "k"}),
    (f_alias_arms, "(xs : List Int) (flag : Bool) : Option (List Int)", {"xs": "xs", "flag": "flag"}),
    (f_norms, "(xs : List Int) (k : Int) : Option (List Int)", {"xs": "xs", "k": "k"}),
    (f_unroll, "(a b : Int) : Option Int", {"a": "a", "b": "b"}),
]
LISTS = [[], [1], [2, 4], [3, 1, 4, 1, 5], [6, 2, 9, 0, 7], [-1, 3]]
KS = [0, 2, 5]


def lean_list(xs):
    return "[" + ", ".join("(%d : Int)" % x for x in xs) + "]"


def args_of(fn):
    n = fn.__name__
    if n in ("f_nested", "f_two_gens"):
        return [(a, b) for a in LISTS for b in LISTS[:4]]
    if n in ("f_inlined", "f_norms"):
        return [(a, k) for a in LISTS for k in KS]
    if n == "f_alias_arms":
        return [(a, f) for a in LISTS for f in (True, False)]
    if n == "f_gen_tuple":
        return [(a, k) for a in LISTS for k in KS]
    if n in ("f_alias", "f_alias_dropped"):
        return [(a, f) for a in LISTS for f in (True, False)]
    if n == "f_unroll":
        return [(a, b) for a in (0, 3, -2) for b in (1, 5)]
    if n == "f_monadic_tuple":
        return [(a, b) for a in (0, 7, 23) for b in (0, 1, 4)]
    return [(m, k) for m in ("constant", "nearest") for k in KS]


def lean_arg(x):
    if isinstance(x, list):
        return lean_list(x)
    if isinstance(x, bool):
        return "true" if x else "false"
    if isinstance(x, str):
        return "true" if x == "constant" else "false"
    return "(%d)" % x


def fmt(v):
    if v is None:
        return "none"
    if isinstance(v, list):
        return "some [" + ", ".join(str(x) for x in v) + "]"
    return "some " + ("(%d)" % v if v < 0 else str(v))


def main():
    text = ["import MenpoModel.Core.PyLoop", "set_option linter.unusedVariables false", PRE]
    expect = []
    for fn, sig, args in CASES:
        body = T.T13(R).function(fn, args)
        text.append("def %s %s :=\n%s\n" % (fn.__name__, sig, body))
        for c in args_of(fn):
            try:
                v = fn(*c)
            except ZeroDivisionError:
                v = None
            expect.append((fn.__name__, c, v))
            text.append("#eval %s %s" % (fn.__name__, " ".join(lean_arg(x) for x in c)))
    d = tempfile.mkdtemp()
    f = os.path.join(d, "T.lean")
    open(f, "w").write("\n".join(text))
    r = subprocess.run(["lake", "env", "lean", f], cwd=os.path.join(ROOT, "lean"), capture_output=True, text=True)
    out = [l for l in r.stdout.splitlines() if l.strip()]
    if r.returncode != 0:
        print(r.stdout[-3000:], r.stderr[-2000:])
        print(open(f).read()[:6000])
        return 1
    bad = 0
    for (name, c, v), line in zip(expect, out):
        if fmt(v).replace(" ", "") != line.replace(" ", ""):
            bad += 1
            print("DISAGREE", name, c, "python", fmt(v), "lean", line)
    print("trans_c13 (T13) self-test: %d evaluations, %d disagreements, %d lean output lines" % (len(expect), bad, len(out)))
    shutil.rmtree(d)
    return 1 if bad or len(out) != len(expect) else 0


sys.exit(main())
