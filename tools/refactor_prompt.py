#!/usr/bin/env python3
"""tools/refactor_prompt.py Cxx <n>  -> prints the filled prompt for a behaviour-preserving-refactoring agent (used to measure
how robust the translator ties / correspondences are against harmless rewrites)"""
import json, os, sys
ROOT = os.path.dirname(os.path.dirname(os.path.abspath(__file__)))
pid, n = sys.argv[1], sys.argv[2]
for l in open(os.path.join(ROOT, "properties.jsonl")):
    p = json.loads(l)
    if p["id"] == pid:
        break
t = open(os.path.join(ROOT, "notes", "REFACTOR_PROMPT.txt")).read()
rep = {"{WT}": "/tmp/ref-%s-%s-wt" % (pid, n), "{OUT}": "/tmp/ref-%s-%s" % (pid, n), "{TITLE}": p["title"],
       "{STATEMENT}": p["statement"], "{QUANT}": p["quantifier"]["text"], "{FILES}": ", ".join(p["anchors"]["files"]),
       "{PID}": pid}
for k, v in rep.items():
    t = t.replace(k, v)
print(t)
