#!/venv/bin/python
"""tools/test_py2lean2x.py — self-test of harness/py2lean2x.py: translates sample functions that use the constructs the
module adds (monadic blocks with hoisted operands, monadic for loops, write-back loops, nested def, try / except,
reduce, short-circuit `and` with an operand that may raise, in-place calls whose value is kept), type-checks the Lean
text and compares `#eval` of the translation with Python on a grid of inputs.  Exit 0 iff everything agrees."""
import os, subprocess, sys, tempfile, shutil
from functools import reduce
ROOT = os.path.dirname(os.path.dirname(os.path.abspath(__file__)))
sys.path.insert(0, ROOT)
from harness import py2lean2x as X


def half(y):
    if y % 2:
        raise AttributeError()
    return y // 2


class Box:
    def __init__(self, items):
        self.items = list(items)

    def values(self):
        return self.items


def f_loop(xs, k):
    out = []
    for x in xs:
        if x == k:
            raise ValueError()
        out.append(half(x + x) + k)
    return out


def f_try(xs, k):
    def inner(y):
        z = half(y)
        return z + 1

    try:
        return inner(k)
    except AttributeError:
        return -1


def f_reduce(xs, k):
    return reduce(lambda a, b: half(b + b) * k + a, xs, 0)


def f_and(xs, k):
    return k > 0 and half(k) > 1


def f_nested_try(xs, k):
    total = 0
    for x in xs:
        total += half(x * 2)
        if total > 9:
            continue
        total += k
    return total


def f_comp(xs, k):
    ys = [half(x + x) * k for x in xs if x != 4]
    return ys + [k]


R = X.Rules2X(
    expr=[("half($y)", "halfE {y}", "bind"), ("[]", "([] : List Int)"), ("$ys + [$k]", "({ys} ++ [{k}])")],
    stmt=[("$l.append($v)", "l", "({l} ++ [{v}])")],
    monad={}, raise_by={"ValueError": ".error Err.value", "AttributeError": ".error Err.attr"}, raise_=None,
    catch={"AttributeError": "(· == Err.attr)"}, retx=".ok ({e})")

CASES = [
    (f_loop, "(xs : List Int) (k : Int) : Except Err (List Int)"),
    (f_try, "(xs : List Int) (k : Int) : Except Err Int"),
    (f_reduce, "(xs : List Int) (k : Int) : Except Err Int"),
    (f_and, "(xs : List Int) (k : Int) : Except Err Bool"),
    (f_nested_try, "(xs : List Int) (k : Int) : Except Err Int"),
    (f_comp, "(xs : List Int) (k : Int) : Except Err (List Int)"),
]
LISTS = [[], [1], [2, 4], [3, 1, 4, 1, 5], [6, 2, 9, 0, 7]]
KS = [0, 1, 2, 4, 9]

# write-back loop: the items of a box are bumped in place
def f_writeback(box, k):
    for item in box.values():
        item = item + k
        if item > 5:
            continue
        item = item * 2
    return box.items


RW = X.Rules2X(expr=[("$b.items", "{b}")],
               iters=[("$b.values()", "b", "{b}", "(List.set {recv} {i} {x})")],
               monad={}, raise_=None, retx=".ok ({e})")


def lean_list(xs):
    return "[" + ", ".join("(%d : Int)" % x for x in xs) + "]"


def fmt(v):
    if isinstance(v, bool):
        return "true" if v else "false"
    if isinstance(v, list):
        return "[" + ", ".join(str(x) for x in v) + "]"
    return str(v)


def main():
    text = ["import MenpoModel.Core.C02Src", "set_option linter.unusedVariables false", "open MenpoModel.C02",
            "def halfE (y : Int) : Except Err Int := if y % 2 != 0 then .error Err.attr else .ok (y / 2)",
            "def show' {α} [ToString α] : Except Err α → String | .ok a => \"ok \" ++ toString a | .error e => \"err \" ++ reprStr e"]
    expect = []
    for fn, sig in CASES:
        body = X.Translator2X(R).function(fn, {"xs": "xs", "k": "k"}, ind=1)
        text.append("def %s %s :=\n%s\n" % (fn.__name__, sig, body))
        for xs in LISTS:
            for k in KS:
                try:
                    v = "ok " + fmt(fn(list(xs), k))
                except ValueError:
                    v = "err MenpoModel.C02.Err.value"
                except AttributeError:
                    v = "err MenpoModel.C02.Err.attr"
                expect.append((fn.__name__, (xs, k), v))
                text.append("#eval show' (%s %s (%d))" % (fn.__name__, lean_list(xs), k))
    body = X.Translator2X(RW).function(f_writeback, {"box": "box", "k": "k"}, ind=1)
    text.append("def f_writeback (box : List Int) (k : Int) : Except Err (List Int) :=\n%s\n" % body)
    for xs in LISTS:
        for k in KS:
            b = Box(xs)
            # python semantics of the model: rebinding the loop variable is written back into the container
            items = list(xs)
            for i, item in enumerate(items):
                item = item + k
                if item > 5:
                    items[i] = item
                    continue
                item = item * 2
                items[i] = item
            expect.append(("f_writeback", (xs, k), "ok " + fmt(items)))
            text.append("#eval show' (f_writeback %s (%d))" % (lean_list(xs), k))
    d = tempfile.mkdtemp()
    f = os.path.join(d, "T.lean")
    open(f, "w").write("\n".join(text))
    r = subprocess.run(["lake", "env", "lean", f], cwd=os.path.join(ROOT, "lean"), capture_output=True, text=True)
    out = [l.strip().strip('"') for l in r.stdout.splitlines() if l.strip()]
    if r.returncode != 0:
        print(r.stdout[-3000:], r.stderr[-2000:])
        print(open(f).read()[:5000])
        return 1
    bad = 0
    for (name, c, v), line in zip(expect, out):
        if v.replace(" ", "") != line.replace(" ", ""):
            bad += 1
            print("DISAGREE", name, c, "python", v, "lean", line)
    print("py2lean2x self-test: %d evaluations, %d disagreements, %d lean output lines" % (len(expect), bad, len(out)))
    shutil.rmtree(d)
    return 1 if bad or len(out) != len(expect) else 0


sys.exit(main())
