#!/usr/bin/env python3
"""tools/mutant_prompt.py Cxx <n> [hint…]  -> prints the filled prompt for seeding agent <n> of property Cxx"""
import json, os, sys
ROOT = os.path.dirname(os.path.dirname(os.path.abspath(__file__)))
pid, n = sys.argv[1], sys.argv[2]
hint = " ".join(sys.argv[3:])
for l in open(os.path.join(ROOT, "properties.jsonl")):
    p = json.loads(l)
    if p["id"] == pid:
        break
t = open(os.path.join(ROOT, "notes", "MUTANT_PROMPT.txt")).read()
rep = {"{WT}": "/tmp/mut-%s-%s-wt" % (pid, n), "{OUT}": "/tmp/mut-%s-%s" % (pid, n), "{TITLE}": p["title"],
       "{STATEMENT}": p["statement"], "{QUANT}": p["quantifier"]["text"], "{FILES}": ", ".join(p["anchors"]["files"]),
       "{PID}": pid, "{HINT}": ("Hint on where to look: " + hint) if hint else ""}
for k, v in rep.items():
    t = t.replace(k, v)
print(t)
