#!/bin/sh
# tools/commit_prop.sh Cxx "message" [extra files…] : stage and commit one property's own files (parallel builders leave other
# properties' files half-done in the tree; those stay out of the commit)
cd "$(dirname "$0")/.." || exit 2
P=$1; M=$2; shift 2
p=$(echo $P | tr A-Z a-z)
for pat in "harness/$p.py" "harness/trans_$p*.py" "harness/extract_$p*.py" "harness/scan_$p*.py" "evidence/$P.json" \
  "lean/MenpoModel/*/$P*.lean" "lean/Run/$P*.lean" "notes/fixes/$P-*" "tools/test_trans_$p*.py" "$@"; do
  git add -A -- $pat >/dev/null 2>&1
done
git commit -qm "$M" >/dev/null 2>&1 && git log --oneline | head -1 || echo "nothing committed"
