#!/bin/sh
# tools/try_refactor.sh <dir with patch.diff> <property-id>
# A behaviour-preserving refactoring of menpo, tried in a scratch worktree: baseline must pass and the property's check
# should stay at exit 0 (a `no-failing-input-found` report is tolerated by the brief but counts as a robustness miss).
SD="$(cd "$1" && pwd)"; PID="$2"
ROOT="$(cd "$(dirname "$0")/.." && pwd)"
WT=$(mktemp -d /tmp/wt-ref-XXXXXX); rmdir "$WT"
git -C /repo worktree add -q "$WT" HEAD || exit 2
git -C "$WT" apply "$SD/patch.diff" || { echo "PATCH DOES NOT APPLY"; git -C /repo worktree remove --force "$WT"; exit 2; }
echo "== baseline with the refactoring (expect 753 of 753)"; "$ROOT/tools/baseline.sh" "$WT"
SAVE=$(mktemp -d /tmp/ref-save-XXXXXX)
(cd "$ROOT" && tar cf "$SAVE/s.tar" evidence/$PID.json $(ls lean/MenpoModel/Generated/${PID}*.lean 2>/dev/null) 2>/dev/null)
echo "== check $PID quick on the refactored tree (expect OK)"
for s in ${SEEDS:-0 1}; do (cd "$ROOT" && MENPO_REPO="$WT" VERIF_SEED=$s ./check "$PID" --tier quick 2>&1 | grep -v KNOWN-FINDING | tail -3 | cut -c1-300); done
(cd "$ROOT" && tar xf "$SAVE/s.tar"); rm -rf "$SAVE"
git -C /repo worktree remove --force "$WT"
