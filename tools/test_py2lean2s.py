#!/venv/bin/python
"""tools/test_py2lean2s.py — self-test of harness/py2lean2s.py (implicit world, failure, try / except, hoisting):
translates sample functions that work on a mutable heap (a Python list of ints) and may raise, type-checks the Lean
text and compares `#eval` of the translation with Python on a grid of inputs.  Exit 0 iff everything agrees."""
import os, subprocess, sys, tempfile, shutil
ROOT = os.path.dirname(os.path.dirname(os.path.abspath(__file__)))
sys.path.insert(0, ROOT)
from harness import py2lean2s as S

HEAP = []


class Bad(Exception):
    pass


class Worse(Exception):
    pass


def dup(x):
    """allocate a copy of x; negative numbers have no copy (Bad), numbers above 90 poison the call (Worse)"""
    if x < 0:
        raise Bad()
    if x > 90:
        raise Worse()
    HEAP.append(x)
    return len(HEAP) - 1


def peek(a):
    if a < 0 or a >= len(HEAP):
        raise Bad()
    return HEAP[a]


def poke(a, v):
    HEAP[a] = v


# ---- the sample functions (world = HEAP)

def f_copy_all(xs):
    out = []
    for x in xs:
        try:
            out.append(dup(x))
        except Bad:
            out.append(x)
    return out


def f_copy_strict(xs):
    out = []
    for x in xs:
        a = dup(x)
        out.append(a)
    return out


def f_guard(x, limit, flag):
    if flag is not None and peek(x) > limit:
        raise Bad()
    a = dup(x)
    poke(a, x + 1)
    return a


def f_nested_operand(xs):
    t = 0
    for x in xs:
        if x == 5:
            continue
        t += peek(dup(x))
    return t


def f_two_handlers(x):
    try:
        a = dup(x)
        b = dup(x + 1)
    except Bad:
        return -1
    except Worse:
        return -2
    return a + b


RULES = dict(
    expr=[("dup($x)", "(dup {STATE} {x})", "bindstate"), ("peek($a)", "(peek {STATE} {a})", "bind")],
    stmt=[("$o.append($v)", "o", "({o} ++ [{v}])"), ("poke($a, $v)", None, "(poke {STATE} {a} {v})", "state")],
    ret=".ok ({e}, {STATE})", raise_by={"Bad": ".error .bad", "Worse": ".error .worse"},
    catch={"Bad": ".error .bad", "Worse": ".error .worse"}, exhaustive=[{"Bad", "Worse"}], state_name="h")

PRELUDE = """
inductive E where | bad | worse
deriving Repr, DecidableEq
def dup (h : List Int) (x : Int) : Except E (Int × List Int) :=
  if x < 0 then .error .bad else if x > 90 then .error .worse else .ok ((h.length : Int), h ++ [x])
def peek (h : List Int) (a : Int) : Except E Int :=
  if a < 0 || a ≥ (h.length : Int) then .error .bad else .ok (h.getD a.toNat 0)
def poke (h : List Int) (a : Int) (v : Int) : List Int := h.set a.toNat v
def shw {α : Type} [Repr α] : Except E (α × List Int) → String
  | .ok r => "ok " ++ toString (repr r.1) ++ " " ++ toString (repr r.2)
  | .error .bad => "bad"
  | .error .worse => "worse"
"""

CASES = [
    (f_copy_all, "(h : List Int) (xs : List Int) : Except E (List Int × List Int)", {"xs": "xs"},
     [([],), ([1, 2],), ([3, -1, 4],), ([-2, -3],), ([7, 95, 2],), ([95],)]),
    (f_copy_strict, "(h : List Int) (xs : List Int) : Except E (List Int × List Int)", {"xs": "xs"},
     [([],), ([1, 2],), ([3, -1, 4],), ([7, 95, 2],)]),
    (f_guard, "(h : List Int) (x limit : Int) (flag : Option Int) : Except E (Int × List Int)",
     {"x": "x", "limit": "limit", "flag": "flag"},
     [(0, 0, None), (1, 0, None), (0, 8, (1,)), (1, 9, (1,)), (1, 8, (1,)), (0, 3, (1,)), (5, 3, (1,)), (-1, 0, None), (-1, 4, (1,))]),
    (f_nested_operand, "(h : List Int) (xs : List Int) : Except E (Int × List Int)", {"xs": "xs"},
     [([],), ([1, 5, 2],), ([5, 5],), ([4, -1],), ([6, 99],)]),
    (f_two_handlers, "(h : List Int) (x : Int) : Except E (Int × List Int)", {"x": "x"},
     [(1,), (-1,), (90,), (91,), (-5,)]),
]
START = [8, 9]


def lean_val(v):
    if v is None:
        return "none"
    if isinstance(v, tuple):
        return "(some %d)" % v[0]
    if isinstance(v, list):
        return "[" + ", ".join("(%d : Int)" % x for x in v) + "]"
    return "(%d)" % v


def main():
    text = ["import MenpoModel.Core.PyLoop", "set_option linter.unusedVariables false", PRELUDE]
    expect = []
    for fn, sig, args, grid in CASES:
        names = dict(args)
        names[S.STATE] = "h"
        body = S.Translator2S(S.Rules2S(**RULES)).function(fn, names, ind=1)
        text.append("def %s %s :=\n%s\n" % (fn.__name__, sig, body))
        for c in grid:
            del HEAP[:]
            HEAP.extend(START)
            try:
                v = fn(*[list(a) if isinstance(a, list) else a for a in c])
                want = "ok %s %s" % (str(v).replace(" ", ""), str(HEAP).replace(" ", ""))
            except Bad:
                want = "bad"
            except Worse:
                want = "worse"
            expect.append((fn.__name__, c, want))
            text.append("#eval shw (%s %s %s)" % (fn.__name__, lean_val(START), " ".join(lean_val(a) for a in c)))
    d = tempfile.mkdtemp()
    f = os.path.join(d, "T.lean")
    open(f, "w").write("\n".join(text))
    r = subprocess.run(["lake", "env", "lean", f], cwd=os.path.join(ROOT, "lean"), capture_output=True, text=True)
    out = [l.strip().strip('"') for l in r.stdout.splitlines() if l.strip()]
    if r.returncode != 0:
        print(r.stdout[-3000:], r.stderr[-2000:])
        print(open(f).read()[:8000])
        return 1
    bad = 0
    for (name, c, want), line in zip(expect, out):
        if want.replace(" ", "") != line.replace(" ", ""):
            bad += 1
            print("DISAGREE", name, c, "python", want, "lean", line)
    print("py2lean2s self-test: %d evaluations, %d disagreements, %d lean output lines" % (len(expect), bad, len(out)))
    shutil.rmtree(d)
    return 1 if bad or len(out) != len(expect) else 0


sys.exit(main())
