#!/venv/bin/python
"""tools/test_py2lean2w.py — self-test of harness/py2lean2w.py: translates sample functions using the constructs it adds
(while with fuel incl. break / early return, nested recursive def with fuel, for/else, a statement rule that rebinds
several receivers, guard statements, monadic operands hoisted out of their statement, `x is None`, attribute
variables), type-checks the Lean text and compares `#eval` of the translation with Python on a grid of inputs.
Exit 0 iff everything agrees."""
import os, subprocess, sys, tempfile, shutil
ROOT = os.path.dirname(os.path.dirname(os.path.abspath(__file__)))
sys.path.insert(0, ROOT)
from harness import py2lean2w as P


def f_collatz(n):
    steps = 0
    while n != 1:
        if n % 2 == 0:
            n = n // 2
        else:
            n = 3 * n + 1
        steps += 1
    return steps


def f_while_break(xs, k):
    i = 0
    s = 0
    while i < len(xs):
        if xs[i] == k:
            break
        s += xs[i]
        i += 1
    return (i, s)


def f_while_ret(xs, k):
    i = 0
    while i < len(xs):
        if xs[i] > k:
            return i
        i += 1
    return -1


def f_forelse(xs, k):
    for x in xs:
        if x == k:
            return 1
    else:
        return 0


def f_nested(xs):
    def go(i, acc):
        if i < len(xs):
            acc.append(xs[i] * 2)
            go(i + 1, acc)
        return acc
    out = []
    go(0, out)
    return out


def half(x):
    if x % 2 == 1:
        raise ValueError("odd")
    return x // 2


def f_hoist(xs):
    t = 0
    for x in xs:
        if half(x) > 1:
            t += half(x)
    return t


def helper_guard(x, what="value"):
    if x < 0:
        raise ValueError("negative {}".format(what))


def helper_val(x):
    y = x * 2
    if y > 10:
        return y
    return y + 1


def f_inline(xs):
    t = 0
    for x in xs:
        helper_guard(x, what="entry")
        t += helper_val(x)
    if helper_val(t) > 30:
        return 30
    return helper_val(t)


def f_comp_raise(xs):
    return [half(x) for x in xs if x != 3]


def f_isfalse(flag, x):
    if flag is False:
        return x
    ys = []
    ys.append(x)
    ys.extend([x, x])
    return len(ys)


class Box(object):
    def __init__(self, a, b):
        if a is None:
            raise ValueError("no a")
        self.lo = a
        self.hi = a + b
        self.check(b)

    def check(self, b):
        if b < 0:
            raise ValueError("negative")


ARITH = [("$a % $b", "({a} % {b})"), ("$a // $b", "({a} / {b})"), ("len($x)", "(({x}).length : Int)"),
         ("$l[$i]", "(({l}).getD (Int.toNat {i}) 0)")]
OPT = dict(ret="some ({e})", raise_="none")
CASES = []


def case(name, sig, thunk, calls):
    CASES.append((name, sig, thunk, calls))


LISTS = [[], [1], [2, 4], [3, 1, 4, 1, 5], [6, 2, 9, 0, 7], [4, 8, 6], [2, 6, 3, 8]]
KS = [0, 2, 4, 9]

case("f_collatz", "(n : Int) : Option Int",
     lambda: P.Translator2W(P.Rules2W(expr=ARITH, fuel="200", **OPT)).function(f_collatz, {"n": "n"}),
     [((n,), f_collatz) for n in (1, 2, 3, 6, 7, 27)])
case("f_while_break", "(xs : List Int) (k : Int) : Option (Int × Int)",
     lambda: P.Translator2W(P.Rules2W(expr=ARITH, fuel="50", **OPT)).function(f_while_break, {"xs": "xs", "k": "k"}),
     [((xs, k), f_while_break) for xs in LISTS for k in KS])
case("f_while_ret", "(xs : List Int) (k : Int) : Option Int",
     lambda: P.Translator2W(P.Rules2W(expr=ARITH, fuel="50", **OPT)).function(f_while_ret, {"xs": "xs", "k": "k"}),
     [((xs, k), f_while_ret) for xs in LISTS for k in KS])
case("f_forelse", "(xs : List Int) (k : Int) : Option Int",
     lambda: P.Translator2W(P.Rules2W(expr=ARITH, **OPT)).function(f_forelse, {"xs": "xs", "k": "k"}),
     [((xs, k), f_forelse) for xs in LISTS for k in KS])
# nested recursive def: `go` translated on its own (state = the mutable parameter; `xs` is a closure variable), the
# outer function calls it through a statement rule that rebinds the mutated argument
GO = lambda fuel: [("$l.append($x)", "l", "({l} ++ [{x}])"), ("go($i, $a)", ("a",), "(f_nested_go xs %s {i} {a})" % fuel)]
case("f_nested_go", "(xs : List Int) : Nat → Int → List Int → List Int\n  | 0, _, acc => acc\n  | fuel + 1, i, acc =>",
     lambda: P.Translator2W(P.Rules2W(expr=ARITH, stmt=GO("fuel"), names={"xs": "xs"}, ret="{e}")).function_node(
         P.Translator2W.nested(f_nested, "go"), {"i": "i", "acc": "acc"}, ind=2),
     [])
case("f_nested", "(xs : List Int) : List Int",
     lambda: P.Translator2W(P.Rules2W(expr=ARITH, stmt=GO("50"), inner=["go"], ret="{e}")).function(f_nested, {"xs": "xs"}),
     [((xs,), f_nested) for xs in LISTS])
case("half", "(x : Int) : Option Int",
     lambda: P.Translator2W(P.Rules2W(expr=ARITH, **OPT)).function(half, {"x": "x"}),
     [((x,), half) for x in (0, 1, 2, 7, 8)])
case("f_hoist", "(xs : List Int) : Option Int",
     lambda: P.Translator2W(P.Rules2W(expr=[("half($x)", "half {x}", "bind")] + ARITH, **OPT)).function(f_hoist, {"xs": "xs"}),
     [((xs,), f_hoist) for xs in LISTS])
import inspect
_HELPERS = {"helper_guard": helper_guard, "helper_val": helper_val}
RES = lambda name, is_method: None if is_method else _HELPERS.get(name)
case("f_inline", "(xs : List Int) : Option Int",
     lambda: P.Translator2W(P.Rules2W(expr=ARITH, resolver=RES, **OPT)).function(f_inline, {"xs": "xs"}),
     [((xs,), f_inline) for xs in LISTS + [[1, -2, 3], [9, 9]]])
case("f_comp_raise", "(xs : List Int) : Option (List Int)",
     lambda: P.Translator2W(P.Rules2W(expr=[("half($x)", "half {x}", "bind")] + ARITH, **OPT)).function(f_comp_raise, {"xs": "xs"}),
     [((xs,), f_comp_raise) for xs in LISTS])
case("f_isfalse", "(flag : Bool) (x : Int) : Option Int",
     lambda: P.Translator2W(P.Rules2W(expr=ARITH, **OPT)).function(f_isfalse, {"flag": "flag", "x": "x"}),
     [((fl, x), f_isfalse) for fl in (True, False) for x in (-2, 5)])
case("box_check", "(b : Int) : Option Unit",
     lambda: P.Translator2W(P.Rules2W(expr=ARITH, end="some ()", **OPT)).function(Box.check, {"self": "self", "b": "b"}),
     [])
case("box_init", "(a : Option Int) (b : Int) : Option (Int × Int)",
     lambda: P.Translator2W(P.Rules2W(expr=[("$a + $b", "(({a}).getD 0 + {b})")] + ARITH,
                                      guard=[("self.check($b)", "(box_check {b}).isSome")],
                                      attr_vars={"lo": "self_lo", "hi": "self_hi"},
                                      end="some (({self_lo}).getD 0, {self_hi})", **OPT)).function(
         Box.__init__, {"self": "self", "a": "a", "b": "b"}),
     [((a, b), lambda a, b: (lambda o: (o.lo, o.hi))(Box(a, b))) for a in (None, 3, 7) for b in (-1, 0, 5)])


def lean_val(x):
    if x is None:
        return "none"
    if x is True:
        return "true"
    if x is False:
        return "false"
    if isinstance(x, list):
        return "[" + ", ".join("(%d : Int)" % v for v in x) + "]"
    return "(%d)" % x


def main():
    text = ["import MenpoModel.Core.C14PyLoop", "set_option linter.unusedVariables false"]
    expect = []
    for name, sig, thunk, calls in CASES:
        text.append("def %s %s :=\n%s\n" % (name, sig, thunk()) if "\n  |" not in sig else "def %s %s\n%s\n" % (name, sig, thunk()))
        for args, fn in calls:
            try:
                v = fn(*args)
            except ValueError:
                v = "RAISE"
            expect.append((name, args, v))
            a = " ".join(("(some %s)" % lean_val(x) if name == "box_init" and i == 0 and x is not None else lean_val(x))
                         for i, x in enumerate(args))
            text.append("#eval %s %s" % (name, a))
    d = tempfile.mkdtemp()
    f = os.path.join(d, "T.lean")
    open(f, "w").write("\n".join(text))
    r = subprocess.run(["lake", "env", "lean", f], cwd=os.path.join(ROOT, "lean"), capture_output=True, text=True)
    out = [l for l in r.stdout.splitlines() if l.strip()]
    if r.returncode != 0:
        print(r.stdout[-3000:], r.stderr[-2000:])
        print(open(f).read()[:8000])
        return 1

    def fmt(name, v):
        opt = name not in ("f_nested",)
        if v == "RAISE":
            return "none"
        if isinstance(v, tuple):
            s = "(" + ", ".join(str(x) for x in v) + ")"
        elif isinstance(v, list):
            s = "[" + ", ".join(str(x) for x in v) + "]"
        else:
            s = ("(%d)" % v if v < 0 and opt else str(v))
        return ("some " + s) if opt else s
    bad = 0
    for (name, c, v), line in zip(expect, out):
        if fmt(name, v).replace(" ", "") != line.replace(" ", ""):
            bad += 1
            print("DISAGREE", name, c, "python", fmt(name, v), "lean", line)
    print("py2lean2w self-test: %d evaluations, %d disagreements, %d lean output lines" % (len(expect), bad, len(out)))
    shutil.rmtree(d)
    return 1 if bad or len(out) != len(expect) else 0


sys.exit(main())
