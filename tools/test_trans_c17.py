#!/venv/bin/python
"""tools/test_trans_c17.py [worktree] [names...] — validates the C17 translator tie on a scratch worktree of /repo:
HARMLESS rewrites of translated functions (renamed temporaries, reordered independent statements, inverted tests with
swapped arms, extra temporaries, nested calls) must keep `./check C17` at exit 0; CHANGED DECISIONS (a payload sliced
with the caller's mask, a swapped argument, an off-by-one, a dropped copy / branch) must break an obligation and end in
a VIOLATION line.  Creates / removes the worktree itself when none is given; restores Generated/C17*.lean and
evidence/C17.json afterwards.  Exit 0 iff every mutation behaves as expected.  (One check run per mutation.)"""
import json
import os
import shutil
import subprocess
import sys
import tempfile

ROOT = os.path.dirname(os.path.dirname(os.path.abspath(__file__)))

ADJ = "menpo/shape/adjacency.py"
BASE = "menpo/shape/mesh/base.py"
COL = "menpo/shape/mesh/coloured.py"
TEX = "menpo/shape/mesh/textured.py"
NRM = "menpo/shape/mesh/normals.py"

COL_BODY = ("        if np.all(mask):  # Fast path for all true\n            return ctm\n        else:\n"
            "            # Recalculate the mask to remove isolated vertices\n"
            "            isolated_mask = self._isolated_mask(mask)\n"
            "            # Recreate the adjacency array with the updated mask\n"
            "            masked_adj = mask_adjacency_array(isolated_mask, self.trilist)\n"
            "            ctm.trilist = reindex_adjacency_array(masked_adj)\n"
            "            ctm.points = ctm.points[isolated_mask, :]\n"
            "            ctm.colours = ctm.colours[isolated_mask, :]\n"
            "            return ctm\n")
TEX_BODY = COL_BODY.replace("ctm", "ttm").replace("            ttm.colours = ttm.colours[isolated_mask, :]\n",
                                                   "            ttm.tcoords.points = ttm.tcoords.points[isolated_mask, :]\n")

# (name, expected: "ok" | "violation", [(file, old, new)...])
MUTATIONS = [
    # ------------------------------------------------------------------------------------------------ harmless
    ("harmless: ColouredTriMesh.from_mask with the test inverted, arms swapped, temporaries renamed, assignments reordered",
     "ok", [(COL, COL_BODY,
             "        if not np.all(mask):\n            keep = self._isolated_mask(mask)\n"
             "            surviving_rows = mask_adjacency_array(keep, self.trilist)\n"
             "            renumbered = reindex_adjacency_array(surviving_rows)\n"
             "            ctm.colours = ctm.colours[keep, :]\n            ctm.points = ctm.points[keep, :]\n"
             "            ctm.trilist = renumbered\n            return ctm\n        else:\n            return ctm\n")]),
    ("harmless: TexturedTriMesh.from_mask with an early return, a nested call and the assignments in another order",
     "ok", [(TEX, TEX_BODY,
             "        everything_kept = np.all(mask)\n        if everything_kept:\n            return ttm\n"
             "        kept = self._isolated_mask(mask)\n        ttm.tcoords.points = ttm.tcoords.points[kept, :]\n"
             "        ttm.trilist = reindex_adjacency_array(mask_adjacency_array(kept, self.trilist))\n"
             "        ttm.points = ttm.points[kept, :]\n        return ttm\n")]),
    ("harmless: reindex_adjacency_array with reordered independent statements and named intermediate values",
     "ok", [(ADJ,
             "    remap_vector = np.arange(int(np.max(adjacency_array)) + 1)\n    unique_values = np.unique(adjacency_array)\n"
             "    remap_vector[unique_values] = np.arange(unique_values.shape[0])\n\n    # Apply the mask\n"
             "    return remap_vector[adjacency_array]\n",
             "    values_present = np.unique(adjacency_array)\n    top = int(np.max(adjacency_array))\n"
             "    lookup = np.arange(top + 1)\n    n_present = values_present.shape[0]\n"
             "    lookup[values_present] = np.arange(n_present)\n    renumbered = lookup[adjacency_array]\n"
             "    return renumbered\n")]),
    ("harmless: tri_areas with the 3-D branch first, the raising branch second and ij / ik bound separately",
     "ok", [(BASE,
             "        t = self.points[self.trilist]\n        ij, ik = t[:, 1] - t[:, 0], t[:, 2] - t[:, 0]\n"
             "        if self.n_dims == 2:\n            return np.abs((ij[:, 0] * ik[:, 1] - ij[:, 1] * ik[:, 0]) * 0.5)\n"
             "        elif self.n_dims == 3:\n            return np.linalg.norm(np.cross(ij, ik), axis=1) * 0.5\n"
             "        else:\n            raise ValueError(\"tri_areas can only be calculated on a 2D or \" \"3D mesh\")\n",
             "        corners = self.points[self.trilist]\n        ik = corners[:, 2] - corners[:, 0]\n"
             "        ij = corners[:, 1] - corners[:, 0]\n        if self.n_dims == 3:\n"
             "            return np.linalg.norm(np.cross(ij, ik), axis=1) * 0.5\n        elif self.n_dims != 2:\n"
             "            raise ValueError(\"tri_areas can only be calculated on a 2D or \" \"3D mesh\")\n        else:\n"
             "            return np.abs((ij[:, 0] * ik[:, 1] - ij[:, 1] * ik[:, 0]) * 0.5)\n")]),
    ("harmless: compute_face_normals with renamed and reordered column reads and a named result",
     "ok", [(NRM,
             "    pt = points[trilist]\n    a, b, c = pt[:, 0], pt[:, 1], pt[:, 2]\n    norm = np.cross(b - a, c - a)\n"
             "    return _normalize(norm)\n",
             "    corners = points[trilist]\n    c = corners[:, 2]\n    a = corners[:, 0]\n    b = corners[:, 1]\n"
             "    raw = np.cross(b - a, c - a)\n    unit = _normalize(raw)\n    return unit\n")]),
    ("harmless: from_tri_mask with the selected rows and their vertices named",
     "ok", [(BASE,
             "        point_mask[np.unique(self.trilist[tri_mask].ravel())] = True\n",
             "        selected_rows = self.trilist[tri_mask]\n        used = np.unique(selected_rows.ravel())\n"
             "        point_mask[used] = True\n")]),
    ("harmless: compute_vertex_normals accumulates corner by corner in a loop over range(3)",
     "ok", [(NRM,
             "    np.add.at(vertex_normals, trilist[:, 0], face_normals)\n    np.add.at(vertex_normals, trilist[:, 1], face_normals)\n"
             "    np.add.at(vertex_normals, trilist[:, 2], face_normals)\n",
             "    for corner in range(3):\n        np.add.at(vertex_normals, trilist[:, corner], face_normals)\n")]),
    ("harmless: tri_areas as guard clauses with n_dims read once and the 3-D arm first",
     "ok", [(BASE,
             "        if self.n_dims == 2:\n            return np.abs((ij[:, 0] * ik[:, 1] - ij[:, 1] * ik[:, 0]) * 0.5)\n"
             "        elif self.n_dims == 3:\n            return np.linalg.norm(np.cross(ij, ik), axis=1) * 0.5\n"
             "        else:\n            raise ValueError(\"tri_areas can only be calculated on a 2D or \" \"3D mesh\")\n",
             "        n_dims = self.n_dims\n        if n_dims == 3:\n            return np.linalg.norm(np.cross(ij, ik), axis=1) * 0.5\n"
             "        if n_dims == 2:\n            return np.abs((ij[:, 0] * ik[:, 1] - ij[:, 1] * ik[:, 0]) * 0.5)\n"
             "        raise ValueError(\"tri_areas can only be calculated on a 2D or 3D mesh\")\n")]),
    ("harmless: helpers extracted (module-level _rows_hit in adjacency.py, methods _edge_keys / _corner_vectors of TriMesh)",
     "ok", [(ADJ, "def mask_adjacency_array(mask, adjacency_array):",
             "def _rows_hit(adjacency_array, removed):\n    hits = np.isin(adjacency_array.ravel(), removed)\n"
             "    return hits.reshape([-1, adjacency_array.shape[1]])\n\n\ndef mask_adjacency_array(mask, adjacency_array):"),
            (ADJ, "    entries_to_remove = np.isin(adjacency_array.ravel(), indices_to_remove)\n"
                  "    entries_to_remove = entries_to_remove.reshape([-1, adjacency_array.shape[1]])\n",
             "    entries_to_remove = _rows_hit(adjacency_array, indices_to_remove)\n"),
            (BASE, "    def boundary_tri_index(self):",
             "    def _edge_keys(self, edge_pairs):\n        return edge_pairs[:, 0] * self.n_points + edge_pairs[:, 1]\n\n"
             "    def _corner_vectors(self):\n        t = self.points[self.trilist]\n"
             "        return t[:, 1] - t[:, 0], t[:, 2] - t[:, 0]\n\n    def boundary_tri_index(self):"),
            (BASE, "        edge_keys = edge_pairs[:, 0] * self.n_points + edge_pairs[:, 1]\n",
             "        edge_keys = self._edge_keys(edge_pairs)\n"),
            (BASE, "        t = self.points[self.trilist]\n        ij, ik = t[:, 1] - t[:, 0], t[:, 2] - t[:, 0]\n",
             "        ij, ik = self._corner_vectors()\n")]),
    # ------------------------------------------------------------------------------------------------ changed decisions
    ("changed: extracted helper _edge_keys multiplies by the number of triangles instead of the number of points", "violation",
     [(BASE, "    def boundary_tri_index(self):",
       "    def _edge_keys(self, edge_pairs):\n        return edge_pairs[:, 0] * self.n_tris + edge_pairs[:, 1]\n\n"
       "    def boundary_tri_index(self):"),
      (BASE, "        edge_keys = edge_pairs[:, 0] * self.n_points + edge_pairs[:, 1]\n",
       "        edge_keys = self._edge_keys(edge_pairs)\n")]),
    ("changed: compute_vertex_normals loops over range(2) only (third corner never accumulated)", "violation",
     [(NRM,
       "    np.add.at(vertex_normals, trilist[:, 0], face_normals)\n    np.add.at(vertex_normals, trilist[:, 1], face_normals)\n"
       "    np.add.at(vertex_normals, trilist[:, 2], face_normals)\n",
       "    for corner in range(2):\n        np.add.at(vertex_normals, trilist[:, corner], face_normals)\n")]),
    ("changed: ColouredTriMesh.from_mask slices the colours with the caller's mask", "violation",
     [(COL, "            ctm.colours = ctm.colours[isolated_mask, :]\n", "            ctm.colours = ctm.colours[mask, :]\n")]),
    ("changed: boundary_tri_index keys an edge by its low vertex twice (swapped argument)", "violation",
     [(BASE, "        edge_keys = edge_pairs[:, 0] * self.n_points + edge_pairs[:, 1]\n",
       "        edge_keys = edge_pairs[:, 0] * self.n_points + edge_pairs[:, 0]\n")]),
    ("changed: reindex_adjacency_array allocates one entry too few (off by one)", "violation",
     [(ADJ, "    remap_vector = np.arange(int(np.max(adjacency_array)) + 1)\n",
       "    remap_vector = np.arange(int(np.max(adjacency_array)))\n")]),
    ("changed: TexturedTriMesh.from_mask works on the receiver itself (dropped copy)", "violation",
     [(TEX, "        ttm = self.copy()\n", "        ttm = self\n")]),
    ("changed: TriMesh.from_mask renumbers the rows kept by the caller's mask (orphan correction dropped)", "violation",
     [(BASE, "            masked_adj = mask_adjacency_array(isolated_mask, self.trilist)\n            tm.trilist = reindex_adjacency_array(masked_adj)\n"
             "            tm.points = tm.points[isolated_mask, :]\n",
       "            masked_adj = mask_adjacency_array(isolated_mask, self.trilist)\n            tm.trilist = reindex_adjacency_array(masked_adj)\n"
       "            tm.points = tm.points[mask, :]\n")]),
    ("changed: edge_indices lists the side (2, 1) instead of (2, 0)", "violation",
     [(BASE, "tl[:, [2, 0]]", "tl[:, [2, 1]]")]),
]


def run(wt, name, expect, edits):
    saved = {}
    try:
        for path, old, rep in edits:
            f = os.path.join(wt, path)
            src = saved.setdefault(f, open(f).read())
            cur = open(f).read()
            if old not in cur:
                print("SKIP (pattern not found): %s  [%r]" % (name, old[:60]))
                return None
            open(f, "w").write(cur.replace(old, rep))
            del src
        env = dict(os.environ, MENPO_REPO=wt, VERIF_SEED=os.environ.get("VERIF_SEED", "0"))
        p = subprocess.run([os.path.join(ROOT, "check"), "C17"], cwd=ROOT, env=env, capture_output=True, text=True)
        lines = [l for l in p.stdout.splitlines() if not l.startswith("KNOWN-FINDING")]
        viol = [l for l in lines if l.startswith("VIOLATION")]
        got = "ok" if p.returncode == 0 else "violation" if (p.returncode == 1 and viol) else "exit%d" % p.returncode
        detail = ""
        try:
            ev = json.load(open(os.path.join(ROOT, "evidence", "C17.json")))["coverage"]
            detail = " | obligations %d/%d" % (ev["discharged"], ev["obligations"])
        except Exception:   # noqa: BLE001
            pass
        if viol:
            rp = viol[0].split("replay=")[1].split()[0]
            try:
                d = json.load(open(os.path.join(ROOT, rp) if not os.path.isabs(rp) else rp))
                detail += " | " + str(d.get("site", d.get("kind", "")))[:60] + " | " + str(d.get("pattern", ""))[:40]
            except Exception as e:   # noqa: BLE001
                detail += " | (replay unreadable: %s)" % e
            if "no-failing-input-found" in viol[0]:
                detail += " | NO FAILING INPUT"
        ok = got == expect
        print("%s  expected %-9s got %-9s %s%s" % ("PASS" if ok else "FAIL", expect, got, name, detail))
        if not ok:
            print("\n".join(lines[-6:]))
            print(p.stderr[-1500:])
        sys.stdout.flush()
        return ok
    finally:
        for f, src in saved.items():
            open(f, "w").write(src)


def main():
    args = sys.argv[1:]
    own = False
    if args and os.path.isdir(args[0]):
        wt = args.pop(0)
    else:
        wt = tempfile.mkdtemp(prefix="wt-C17t-")
        os.rmdir(wt)
        subprocess.run(["git", "-C", "/repo", "worktree", "add", "-q", wt, "HEAD"], check=True)
        own = True
    save = tempfile.mkdtemp(prefix="c17-save-")
    keep = ["evidence/C17.json"] + [os.path.join("lean/MenpoModel/Generated", f)
                                     for f in os.listdir(os.path.join(ROOT, "lean/MenpoModel/Generated")) if f.startswith("C17")]
    for k in keep:
        shutil.copy(os.path.join(ROOT, k), os.path.join(save, k.replace("/", "__")))
    bad = 0
    try:
        for name, expect, edits in MUTATIONS:
            if args and not any(a in name for a in args):
                continue
            r = run(wt, name, expect, edits)
            if r is False:
                bad += 1
    finally:
        for k in keep:
            shutil.copy(os.path.join(save, k.replace("/", "__")), os.path.join(ROOT, k))
        shutil.rmtree(save)
        if own:
            subprocess.run(["git", "-C", "/repo", "worktree", "remove", "--force", wt])
    print("test_trans_c17: %d unexpected" % bad)
    return 1 if bad else 0


sys.exit(main())
