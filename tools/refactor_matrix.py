#!/venv/bin/python
"""tools/refactor_matrix.py <property> [refactoring ids…]  -  run the quick check of ONE property on every behaviour-preserving
refactoring under refactorings/ whose patch touches a file the property is anchored in (not only the refactoring written for
it), each in a scratch worktree, and print one line per property.  One process per property may run in parallel (different
properties own different Generated files); never two for the same property.  A measurement, not a registered check."""
import json, os, re, subprocess, sys, tempfile, shutil
ROOT = os.path.dirname(os.path.dirname(os.path.abspath(__file__)))
pid = sys.argv[1]
prop = [json.loads(l) for l in open(os.path.join(ROOT, "properties.jsonl")) if json.loads(l)["id"] == pid][0]
ids = sys.argv[2:] or sorted(d for d in os.listdir(os.path.join(ROOT, "refactorings"))
                             if os.path.isdir(os.path.join(ROOT, "refactorings", d)))
seed = os.environ.get("VERIF_SEED", "0")
res = {}
for rid in ids:
    patch = os.path.join(ROOT, "refactorings", rid, "patch.diff")
    touched = set(re.findall(r"^\+\+\+ b/(\S+)", open(patch).read(), flags=re.M))
    if not (touched & set(prop["anchors"]["files"])):
        continue
    wt = tempfile.mkdtemp(prefix="wt-mat-", dir="/tmp")
    os.rmdir(wt)
    subprocess.run(["git", "-C", "/repo", "worktree", "add", "-q", wt, "HEAD"], check=True)
    try:
        if subprocess.run(["git", "-C", wt, "apply", patch]).returncode != 0:
            res[rid] = "patch-does-not-apply"
            continue
        save = tempfile.mkdtemp(prefix="mat-save-", dir="/tmp")
        gen = [f for f in os.listdir(os.path.join(ROOT, "lean/MenpoModel/Generated")) if f.startswith(pid)]
        files = ["evidence/%s.json" % pid] + ["lean/MenpoModel/Generated/" + f for f in gen]
        subprocess.run(["tar", "cf", os.path.join(save, "s.tar")] + files, cwd=ROOT)
        env = dict(os.environ, MENPO_REPO=wt, VERIF_SEED=seed)
        p = subprocess.run([os.path.join(ROOT, "check"), pid, "--tier", "quick"], cwd=ROOT, env=env,
                           stdout=subprocess.PIPE, stderr=subprocess.STDOUT, text=True)
        res[rid] = ("ok" if p.returncode == 0 else ("no-failing-input-found" if "no-failing-input-found" in p.stdout else
                    ("VIOLATION-with-input" if p.returncode == 1 else "INFRA")))
        subprocess.run(["tar", "xf", os.path.join(save, "s.tar")], cwd=ROOT)
        shutil.rmtree(save)
    finally:
        subprocess.run(["git", "-C", "/repo", "worktree", "remove", "--force", wt])
print(pid, json.dumps(res, sort_keys=True), flush=True)
