#!/venv/bin/python
"""tools/refactor_matrix.py [refactoring ids…]  -  for every behaviour-preserving refactoring under refactorings/, run the quick
check of EVERY property anchored in a file the patch touches (not only the property it was written for) in a scratch worktree
and print the matrix.  Exit 0 always; this is a measurement of robustness, not a registered check.  VERIF_SEED (default 0)."""
import json, os, re, subprocess, sys, tempfile, shutil
ROOT = os.path.dirname(os.path.dirname(os.path.abspath(__file__)))
props = [json.loads(l) for l in open(os.path.join(ROOT, "properties.jsonl"))]
ids = sys.argv[1:] or sorted(os.listdir(os.path.join(ROOT, "refactorings")))
ids = [i for i in ids if os.path.isdir(os.path.join(ROOT, "refactorings", i))]
seed = os.environ.get("VERIF_SEED", "0")
rows = []
for rid in ids:
    patch = os.path.join(ROOT, "refactorings", rid, "patch.diff")
    touched = set(re.findall(r"^\+\+\+ b/(\S+)", open(patch).read(), flags=re.M))
    hit = [p["id"] for p in props if touched & set(p["anchors"]["files"])]
    wt = tempfile.mkdtemp(prefix="wt-mat-", dir="/tmp"); os.rmdir(wt)
    subprocess.run(["git", "-C", "/repo", "worktree", "add", "-q", wt, "HEAD"], check=True)
    try:
        if subprocess.run(["git", "-C", wt, "apply", patch]).returncode != 0:
            rows.append((rid, "PATCH DOES NOT APPLY", {})); continue
        res = {}
        for pid in hit:
            save = tempfile.mkdtemp(prefix="mat-save-", dir="/tmp")
            gen = [f for f in os.listdir(os.path.join(ROOT, "lean/MenpoModel/Generated")) if f.startswith(pid)]
            files = ["evidence/%s.json" % pid] + ["lean/MenpoModel/Generated/" + f for f in gen]
            subprocess.run(["tar", "cf", os.path.join(save, "s.tar")] + files, cwd=ROOT)
            env = dict(os.environ, MENPO_REPO=wt, VERIF_SEED=seed)
            p = subprocess.run([os.path.join(ROOT, "check"), pid, "--tier", "quick"], cwd=ROOT, env=env,
                               stdout=subprocess.PIPE, stderr=subprocess.STDOUT, text=True)
            out = [l for l in p.stdout.splitlines() if not l.startswith("KNOWN-FINDING")]
            last = out[-1] if out else ""
            res[pid] = ("ok" if p.returncode == 0 else ("nfi" if "no-failing-input-found" in p.stdout else
                        ("VIOLATION" if p.returncode == 1 else "INFRA")))
            subprocess.run(["tar", "xf", os.path.join(save, "s.tar")], cwd=ROOT); shutil.rmtree(save)
        rows.append((rid, "", res))
        print(rid, " ".join("%s:%s" % kv for kv in sorted(res.items())), flush=True)
    finally:
        subprocess.run(["git", "-C", "/repo", "worktree", "remove", "--force", wt])
json.dump({r[0]: r[2] for r in rows}, open(os.path.join(ROOT, "refactorings", "matrix.json"), "w"), indent=1)
