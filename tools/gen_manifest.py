#!/venv/bin/python
"""Regenerates MANIFEST.json from harness/registry.py (single source of truth)."""
import json
import os
import subprocess
import sys

ROOT = os.path.dirname(os.path.dirname(os.path.abspath(__file__)))
sys.path.insert(0, ROOT)
from harness import registry  # noqa

ALL = ["C%02d" % i for i in range(1, 21)]
NOT_YET = "machinery for this property is not built yet (in progress; see DESIGN.md section 8 build order)"


def hook_commits():
    p = os.path.join(ROOT, "hooks_commits.txt")
    if os.path.exists(p):
        return [l.split()[0] for l in open(p) if l.strip() and not l.startswith("#")]
    return []


def main():
    checks = []
    claimed = set(open(os.path.join(ROOT, "harness", "claimed.txt")).read().split())
    for pid in ALL:
        if pid not in claimed:
            continue
        info = registry.INFO.get(pid)
        if not info or info.get("disabled"):
            continue
        checks.append({
            "property_id": pid,
            "quick_cmd": "./check %s --tier quick" % pid,
            "thorough_cmd": "./check %s --tier thorough" % pid,
            "evidence_file": "evidence/%s.json" % pid,
            "replay_cmd_template": "./check %s --replay {path}" % pid,
            "engine": "lean-model+correspondence",
            "level_claimed": {"category": "proof", "text": info["level_text"],
                              "design_ref": info.get("design_ref", "DESIGN.md section 6")},
            "level_note": info["level_note"],
            "technique": info["technique"],
        })
    na = [{"property_id": pid, "reason": (registry.INFO.get(pid) or {}).get("na_reason", NOT_YET)}
          for pid in ALL if pid not in [c["property_id"] for c in checks]]
    m = {
        "version": 1,
        "setup_cmd": "tools/setup.sh",
        "hooks": {
            "guard": "MENPO_VERIF",
            "enable": "the checks export MENPO_VERIF=1 before importing menpo from /repo (no build step: "
                      "menpo is pure Python and is imported from the working tree)",
            "baseline_off_cmd": "tools/baseline.sh",
            "source_commits": hook_commits(),
            "add_only": True,
        },
        "engines": [{
            "name": "lean-model+correspondence",
            "path": "lean/ (lake project MenpoModel), harness/ (Python), check (CLI)",
            "serves_properties": [c["property_id"] for c in checks],
            "kind_free_text": "Lean 4 theorems about executable models; models tied to /repo on every run by a "
                              "line-protocol correspondence check, regenerated tables and an independent property oracle",
        }],
        "checks": checks,
        "notes": "See DESIGN.md.  Exit codes: 0 held, 1 VIOLATION, 2 infrastructure error.",
        "not_applicable": na,
    }
    with open(os.path.join(ROOT, "MANIFEST.json"), "w") as f:
        json.dump(m, f, indent=1)
    print("MANIFEST.json: %d checks, %d not yet claimed" % (len(checks), len(na)))


if __name__ == "__main__":
    main()
