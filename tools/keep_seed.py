#!/usr/bin/env python3
"""tools/keep_seed.py <src-dir> <seed-id> <property> <caught:yes|no|partial> "<what the check reported>"  -> seeded/<seed-id>/"""
import json, os, shutil, sys
ROOT = os.path.dirname(os.path.dirname(os.path.abspath(__file__)))
src, sid, pid, caught, note = sys.argv[1:6]
dst = os.path.join(ROOT, "seeded", sid)
os.makedirs(dst, exist_ok=True)
shutil.copy(os.path.join(src, "patch.diff"), dst)
demo = [f for f in os.listdir(src) if f.startswith("demo")][0]
shutil.copy(os.path.join(src, demo), os.path.join(dst, demo))
try:
    meta = json.load(open(os.path.join(src, "meta.json")))
except Exception:
    meta = {}
meta["property"] = pid
meta["confirmed_by_integrator"] = {
    "ran": "tools/try_seed.sh (scratch worktree of /repo HEAD: git apply patch.diff; tools/baseline.sh -> 753 of 753; "
           "demo on clean tree exit 0, on patched tree exit != 0; VERIF_SEED=0,1,2 ./check %s --tier quick with MENPO_REPO=<worktree>)" % pid,
    "detected_by_check": caught, "check_report": note}
json.dump(meta, open(os.path.join(dst, "meta.json"), "w"), indent=1)
print("kept", dst)
