#!/venv/bin/python
"""tools/test_py2lean2numpy.py — self-test of harness/py2lean2numpy.py (TranslatorNP): `if` on a literal, skip rules,
attribute variables with an `end` template, stmt rules with several receivers, calls that may raise as the right-hand
side of an assignment and as a stmt rule INSIDE a loop (exit flag), a loop variable read after its loop, string
constants, keyword arguments in any order.  Translates the sample functions, type-checks the Lean text and compares
`#eval` of the translation with Python on a grid of inputs.  Exit 0 iff everything agrees."""
import inspect, os, shutil, subprocess, sys, tempfile
ROOT = os.path.dirname(os.path.dirname(os.path.abspath(__file__)))
sys.path.insert(0, ROOT)
from harness import py2lean2numpy as N


def checked_div(a, b):
    if b == 0:
        raise ValueError("zero")
    return a // b if a >= 0 and b > 0 else 0


def f_verbose(xs, verbose=False):
    if verbose:
        print("never translated", undefined_name)     # noqa: F821 - the dead arm may be untranslatable
    t = 0
    for x in xs:
        t += x
    return t


def f_loop_var(xs, k):
    i = 0
    for i, x in enumerate(xs, 1):
        if x == k:
            break
    return i


def f_raise_in_loop(xs, k):
    acc = [0, 0]
    total = 0
    for x in xs:
        _, acc[0] = pair_or_raise(x, k)
        total += acc[0]
    return total


def pair_or_raise(x, k):
    if x == k:
        raise ValueError("hit")
    return (x, x + k)


def f_bind_assign(xs, k):
    a, b = pair_or_raise(k, 3)
    return a + b + len(xs)


def f_mode(mode, x):
    if mode not in ["add", "sub"]:
        raise ValueError("mode")
    if mode == "add":
        return x + 1
    return x - 1


class Box:
    def __init__(self, n, total):
        self.n = n
        self.total = total
        self.scratch = None

    def feed(self, xs, verbose=False):
        self.scratch = 0
        for x in xs:
            self.total += x
        self.n += len(xs)


def f_next(xs):
    t = -1
    rest = list(xs)
    t = first(rest)
    rest = rest[1:]
    return t * 10 + len(rest)


def first(xs):
    return xs[0]


def helper_norm(n, bias):
    if bias == 1:
        return n
    if bias == 0:
        return n - 1
    raise ValueError("bias")


def helper_twice(x):
    return x + x


def f_inline(xs, k):
    n = len(xs)
    v = helper_norm(n, k)
    return v * 10 + helper_twice(k)


def f_unroll(xs, k):
    count = 0
    total = 0
    if k > 2:
        blocks = ((1, k), (2, k + 1), (3, 7))
    else:
        blocks = ((k, 1), (0, 0), (5, 5))
    for a, b in blocks:
        count += 1
        total = total + a * b * count
    for z in (k, count, total):
        total += z
    return total + len(xs)


def f_merge(xs, k):
    best = 0
    other = 1
    if k > 2:
        best = k
        tmp = 5
    else:
        other = k + 3
    if len(xs) > 1:
        best = best + 1
    return best * 100 + other + len([y for y in (k, best, other) if y > 2])


def run_py(fn, *a):
    try:
        return fn(*a)
    except (ValueError, IndexError):
        return None


def main():
    R = N.RulesNP
    T = N.TranslatorNP
    common = [("len($l)", "((List.length {l} : Nat) : Int)"), ("enumerate($x, 1)", "((List.zipIdx {x}).map (fun p => (((p.2 : Nat) : Int) + 1, p.1)))")]
    defs = []
    defs.append(("f_verbose", "(xs : List Int) : Option Int", f_verbose, {"xs": "xs", "verbose": "false"},
                 R(expr=common, ret="some ({e})", raise_="none")))
    defs.append(("f_loop_var", "(xs : List Int) (k : Int) : Option Int", f_loop_var, {"xs": "xs", "k": "k"},
                 R(expr=common, ret="some ({e})", raise_="none")))
    defs.append(("f_raise_in_loop", "(xs : List Int) (k : Int) : Option Int", f_raise_in_loop, {"xs": "xs", "k": "k"},
                 R(expr=common + [("[0, 0]", "(0 : Int)"), ("$c[0]", "{c}")],
                   stmt=[("_, $c[0] = pair_or_raise($x, $k)", "c",
                          "(if {x} == {k} then none else some ({x} + {k}))", "bind")],
                   ret="some ({e})", raise_="none")))
    defs.append(("f_bind_assign", "(xs : List Int) (k : Int) : Option Int", f_bind_assign, {"xs": "xs", "k": "k"},
                 R(expr=common + [("pair_or_raise($x, $k)", "(if {x} == {k} then none else some ({x}, {x} + {k}))", "bind")],
                   ret="some ({e})", raise_="none")))
    defs.append(("f_mode", "(mode : String) (x : Int) : Option Int", f_mode, {"mode": "mode", "x": "x"},
                 R(expr=[("$x not in $l", "(!(List.contains {l} {x}))")], strings={"add": '"add"', "sub": '"sub"'},
                   ret="some ({e})", raise_="none")))
    defs.append(("f_feed", "(n total : Int) (xs : List Int) : Int × Int", Box.feed,
                 {"self": "()", "self_n": "n", "self_total": "total", "xs": "xs", "verbose": "false"},
                 R(expr=common, skip=["self_scratch = 0"], attr_vars={"n": "self_n", "total": "self_total", "scratch": "self_scratch"},
                   end="({self_n}, {self_total})")))
    defs.append(("f_next", "(xs : List Int) : Option Int", f_next, {"xs": "xs"},
                 R(expr=common + [("list($x)", "{x}"), ("$l[1:]", "(List.tail {l})")],
                   stmt=[("$t = first($l)", ("t",), "(List.head? {l})", "bind")], ret="some ({e})", raise_="none")))
    for nm, fn in (("f_inline", f_inline), ("f_unroll", f_unroll), ("f_merge", f_merge)):
        defs.append((nm, "(xs : List Int) (k : Int) : Option Int", fn, {"xs": "xs", "k": "k"},
                     R(expr=common, ret="some ({e})", raise_="none")))
    LISTS = [[], [1], [2, 4], [3, 1, 4, 1, 5], [6, 2, 9, 0, 7], [-1, 3], [5, 5, 2]]
    KS = [0, 2, 3, 4, 5]
    text = ["import MenpoModel.Core.PyLoop", "set_option linter.unusedVariables false"]
    expect = []

    def ll(xs):
        return "[" + ", ".join("(%d : Int)" % x for x in xs) + "]"
    for name, sig, fn, args, rules in defs:
        body = T(rules).function(fn, args, ind=1)
        text.append("def %s %s :=\n%s\n" % (name, sig, body))
        if name == "f_mode":
            for m in ("add", "sub", "mul"):
                for x in (0, 3, -2):
                    expect.append((name, (m, x), run_py(f_mode, m, x)))
                    text.append('#eval %s "%s" (%d)' % (name, m, x))
        elif name == "f_feed":
            for xs in LISTS:
                b = Box(3, 10)
                b.feed(list(xs))
                expect.append((name, (xs,), (b.n, b.total)))
                text.append("#eval %s 3 10 %s" % (name, ll(xs)))
        else:
            ps = list(inspect.signature(fn).parameters)
            for xs in LISTS:
                for c in ([(xs,)] if len([p for p in ps if p != "verbose"]) == 1 else [(xs, k) for k in KS]):
                    expect.append((name, c, run_py(fn, *c)))
                    text.append("#eval %s %s" % (name, " ".join(ll(x) if isinstance(x, list) else "(%d)" % x for x in c)))
    d = tempfile.mkdtemp()
    f = os.path.join(d, "T.lean")
    open(f, "w").write("\n".join(text))
    r = subprocess.run(["lake", "env", "lean", f], cwd=os.path.join(ROOT, "lean"), capture_output=True, text=True)
    out = [l for l in r.stdout.splitlines() if l.strip()]
    if r.returncode != 0:
        print(r.stdout[-3000:], r.stderr[-2000:])
        print(open(f).read()[:8000])
        return 1

    def fmt(v, opt=True):
        if v is None:
            return "none"
        if isinstance(v, tuple):
            return "(" + ", ".join(str(x) for x in v) + ")"
        return "some " + ("(%d)" % v if v < 0 else str(v))
    bad = 0
    for (name, c, v), line in zip(expect, out):
        if fmt(v).replace(" ", "") != line.replace(" ", ""):
            bad += 1
            print("DISAGREE", name, c, "python", fmt(v), "lean", line)
    print("py2lean2numpy self-test: %d evaluations, %d disagreements, %d lean output lines" % (len(expect), bad, len(out)))
    shutil.rmtree(d)
    return 1 if bad or len(out) != len(expect) else 0


if __name__ == "__main__":
    sys.exit(main())
