#!/bin/sh
# MANIFEST.setup_cmd: build the Lean library for every claimed property (offline, from files on disk).
cd "$(dirname "$0")/.." || exit 2
TARGETS=$(/venv/bin/python - <<'PY'
import json, os
m = json.load(open('MANIFEST.json'))
t = []
for c in m['checks']:
    p = c['property_id']
    for kind in ('Props', 'Drive', 'GenProps'):
        if os.path.exists('lean/MenpoModel/%s/%s.lean' % (kind, p)):
            t.append('MenpoModel.%s.%s' % (kind, p))
    # further obligation files of the property (GenProps/CxxSomething.lean)
    import glob
    for f in sorted(glob.glob('lean/MenpoModel/GenProps/%s?*.lean' % p)):
        t.append('MenpoModel.GenProps.' + os.path.basename(f)[:-5])
print(' '.join(t))
PY
)
exec tools/lk $TARGETS
