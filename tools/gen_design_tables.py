#!/usr/bin/env python3
"""Rewrites the generated blocks of DESIGN.md (between `<!-- BEGIN x -->` / `<!-- END x -->` markers):
seeded = table of seeded changes and which check catches them; claimed = per-property status."""
import glob, json, os, re
ROOT = os.path.dirname(os.path.dirname(os.path.abspath(__file__)))

def block(name, text, doc):
    b, e = "<!-- BEGIN %s -->" % name, "<!-- END %s -->" % name
    new = b + "\n" + text.rstrip() + "\n" + e
    if b in doc:
        return re.sub(re.escape(b) + r".*?" + re.escape(e), lambda m: new, doc, flags=re.S)
    return doc.rstrip() + "\n\n" + new + "\n"

rows = ["| seeded change | property | what it needs to manifest | detected by the check |", "|---|---|---|---|"]
for d in sorted(glob.glob(os.path.join(ROOT, "seeded", "*"))):
    try:
        m = json.load(open(os.path.join(d, "meta.json")))
    except Exception:
        continue
    c = m.get("confirmed_by_integrator", {})
    clean = lambda s: str(s).replace("|", "/").replace("\n", " ")
    rows.append("| `seeded/%s` — %s | %s | %s | **%s** — %s |" % (
        os.path.basename(d), clean(m.get("summary", ""))[:260], m.get("property", "?"),
        clean(m.get("needs_to_manifest", ""))[:260], c.get("detected_by_check", "?"), clean(c.get("check_report", ""))[:300]))
doc = open(os.path.join(ROOT, "DESIGN.md")).read()
doc = block("seeded", "### 14.2 Seeded changes (independent sub-agents, property text only) and which checks catch them\n\n"
            "Each change compiles, keeps the 753 pinned tests passing, and comes with a demonstration that fails with it and "
            "passes without it (`seeded/<id>/{patch.diff,demo.py,meta.json}`); confirmed with `tools/try_seed.sh`.\n\n" + "\n".join(rows), doc)
open(os.path.join(ROOT, "DESIGN.md"), "w").write(doc)
print("DESIGN.md tables regenerated: %d seeded changes" % (len(rows) - 2))
