#!/usr/bin/env python3
"""Rewrites the generated blocks of DESIGN.md (between `<!-- BEGIN x -->` / `<!-- END x -->` markers):
seeded = table of seeded changes and which check catches them; claimed = per-property status."""
import glob, json, os, re
ROOT = os.path.dirname(os.path.dirname(os.path.abspath(__file__)))

def block(name, text, doc):
    b, e = "<!-- BEGIN %s -->" % name, "<!-- END %s -->" % name
    new = b + "\n" + text.rstrip() + "\n" + e
    if b in doc:
        return re.sub(re.escape(b) + r".*?" + re.escape(e), lambda m: new, doc, flags=re.S)
    return doc.rstrip() + "\n\n" + new + "\n"

rows = ["| seeded change | property | what it needs to manifest | detected by the check |", "|---|---|---|---|"]
for d in sorted(glob.glob(os.path.join(ROOT, "seeded", "*"))):
    try:
        m = json.load(open(os.path.join(d, "meta.json")))
    except Exception:
        continue
    c = m.get("confirmed_by_integrator", {})
    clean = lambda s: str(s).replace("|", "/").replace("\n", " ")
    rows.append("| `seeded/%s` — %s | %s | %s | **%s** — %s |" % (
        os.path.basename(d), clean(m.get("summary", ""))[:260], m.get("property", "?"),
        clean(m.get("needs_to_manifest", ""))[:260], c.get("detected_by_check", "?"), clean(c.get("check_report", ""))[:300]))
doc = open(os.path.join(ROOT, "DESIGN.md")).read()

# ---- findings block from known_findings.txt
frows = ["| status | property | /repo commit or site | what failed |", "|---|---|---|---|"]
for ln in open(os.path.join(ROOT, "known_findings.txt")):
    ln = ln.strip()
    m = re.match(r"fixed: property=(\S+) (\S+) (.*)", ln)
    if m:
        frows.append("| fixed (`fix:` commit) | %s | `%s` | %s |" % (m.group(1), m.group(2), m.group(3).replace("|", "/")))
    m = re.match(r"known: property=(\S+) site=(\S+) pattern=(\S+) :: (.*)", ln)
    if m:
        frows.append("| **recorded known finding** (a stable test pins it) | %s | site `%s`, pattern `%s` | %s |" % (
            m.group(1), m.group(2), m.group(3).replace("|", "/"), m.group(4).replace("|", "/")))
doc = block("findings", "Genuine defects of menpo established by the checks on the real code (replay on /repo), in the order they "
            "were settled.  `fixed` entries suppress nothing: the check passes on the repaired tree and reports the violation "
            "again if it returns.\n\n" + "\n".join(frows), doc)

# ---- per-property status block from the evidence files and INFO
import sys
sys.path.insert(0, ROOT)
prows = ["| property | theorems audited | regenerated obligations | quick evaluations (distinct non-trivial) | partial clauses (proved conditionally / decided by oracle + correspondence only) |", "|---|---|---|---|---|"]
for f in sorted(glob.glob(os.path.join(ROOT, "evidence", "C*.json"))):
    ev = json.load(open(f))
    c = ev["coverage"]
    prows.append("| %s | %d | %d | %d (%d) | %s |" % (ev["property_id"], len(c.get("theorems", {})), c.get("generated_obligations", 0),
                 c.get("evaluations", 0), c.get("distinct_nontrivial", 0),
                 "; ".join(str(x).replace("|", "/").replace("\n", " ") for x in c.get("partial_clauses", [])) or "-"))
doc = block("status", "### 14.3 Per-property status (from the committed evidence files)\n\n" + "\n".join(prows), doc)
doc = block("seeded", "### 14.2 Seeded changes (independent sub-agents, property text only) and which checks catch them\n\n"
            "Each change compiles, keeps the 753 pinned tests passing, and comes with a demonstration that fails with it and "
            "passes without it (`seeded/<id>/{patch.diff,demo.py,meta.json}`); confirmed with `tools/try_seed.sh`.\n\n" + "\n".join(rows), doc)

# ---- behaviour-preserving refactorings and what the checks said
rrows = ["| refactoring | property | what was rewritten | check on the refactored tree |", "|---|---|---|---|"]
for d in sorted(glob.glob(os.path.join(ROOT, "refactorings", "*"))):
    try:
        m = json.load(open(os.path.join(d, "meta.json")))
    except Exception:
        continue
    clean = lambda s: str(s).replace("|", "/").replace("\n", " ")
    rrows.append("| `refactorings/%s` | %s | %s | %s |" % (os.path.basename(d), m.get("property", "?"),
                 clean(m.get("summary", ""))[:300], clean(m.get("check_outcome", "not yet tried"))[:300]))
doc = block("refactorings", "\n".join(rrows), doc)
open(os.path.join(ROOT, "DESIGN.md"), "w").write(doc)
print("DESIGN.md tables regenerated: %d seeded changes" % (len(rows) - 2))
