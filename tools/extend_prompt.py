#!/usr/bin/env python3
"""tools/extend_prompt.py Cxx "<focus text>" -> /tmp/extprompts/Cxx.txt"""
import os, sys
ROOT = os.path.dirname(os.path.dirname(os.path.abspath(__file__)))
pid, focus = sys.argv[1], sys.argv[2]
t = open(os.path.join(ROOT, "notes", "EXTEND_PROMPT.txt")).read()
t = t.replace("{PID}", pid).replace("{pid}", pid.lower()).replace("{FOCUS}", focus)
os.makedirs("/tmp/extprompts", exist_ok=True)
open("/tmp/extprompts/%s.txt" % pid, "w").write(t)
print("/tmp/extprompts/%s.txt" % pid)
