#!/bin/sh
# Runs menpo's own suite with the verification guard OFF and compares with the pinned baseline:
# every test in BASELINE.stable_pass must still pass.  Exit 0 iff so.
unset MENPO_VERIF
OUT=$(mktemp /tmp/menpo-baseline-XXXXXX.xml)
(cd "${1:-/repo}" && /venv/bin/python -m pytest -ra -q -p no:cacheprovider --timeout=900 --continue-on-collection-errors --junitxml="$OUT" >/dev/null 2>&1)
/venv/bin/python - "$OUT" <<'PY'
import json, sys, xml.etree.ElementTree as ET
base = json.load(open('/root/.vp/BASELINE.json'))
want = set(base['stable_pass'])
passed = set()
for tc in ET.parse(sys.argv[1]).getroot().iter('testcase'):
    if not any(ch.tag in ('failure', 'error', 'skipped') for ch in tc):
        passed.add(tc.get('classname') + '::' + tc.get('name'))
missing = sorted(want - passed)
print('baseline: %d of %d stable tests pass; %d tests pass in total' % (len(want & passed), len(want), len(passed)))
for m in missing[:20]:
    print('  NOT PASSING:', m)
sys.exit(1 if missing else 0)
PY
RC=$?
rm -f "$OUT"
exit $RC
