#!/venv/bin/python
"""tools/test_py2lean2.py — self-test of harness/py2lean2.py: translates sample functions (loops with break / early
return, nested loops, comprehensions, tuple assignment, augmented assignment), type-checks the Lean text and compares
`#eval` of the translation with Python on a grid of inputs.  Exit 0 iff everything agrees."""
import itertools, os, subprocess, sys, tempfile
ROOT = os.path.dirname(os.path.dirname(os.path.abspath(__file__)))
sys.path.insert(0, ROOT)
from harness import py2lean2 as P


def f_sum_evens(xs):
    total = 0
    for x in xs:
        if x % 2 == 1:
            continue
        total += x
    return total


def f_first_big(xs, k):
    for x in xs:
        if x > k:
            return x
    return -1


def f_break(xs, k):
    n = 0
    s = 0
    for x in xs:
        if x == k:
            break
        n += 1
        s = s + x * n
    return (n, s)


def f_nested(xs, ys):
    c = 0
    for x in xs:
        for y in ys:
            if y > x:
                break
            c += 1
    return c


def f_nested_ret(xs, ys):
    seen = 0
    for x in xs:
        for y in ys:
            if x + y == 7:
                return seen
            seen += 1
    return -seen


def f_comp(xs, k):
    a, b = k, k + 1
    ys = [x * a for x in xs if x > 1]
    if any(y > 10 for y in ys):
        return [b] + ys
    return ys


def f_assert(xs):
    t = 0
    for i, x in enumerate(xs):
        assert x >= 0
        t += i * x
    return t if t < 50 else 50


R = P.Rules2(
    expr=[("$a % $b", "({a} % {b})"), ("enumerate($x)", "((List.zipIdx {x}).map (fun p => ((p.2 : Int), p.1)))"),
          ("[$b] + $ys", "([{b}] ++ {ys})")],
    ret="some ({e})", raise_="none")

CASES = [
    (f_sum_evens, "(xs : List Int) : Option Int", {"xs": "xs"}, [("xs",)]),
    (f_first_big, "(xs : List Int) (k : Int) : Option Int", {"xs": "xs", "k": "k"}, [("xs", "k")]),
    (f_break, "(xs : List Int) (k : Int) : Option (Int × Int)", {"xs": "xs", "k": "k"}, [("xs", "k")]),
    (f_nested, "(xs ys : List Int) : Option Int", {"xs": "xs", "ys": "ys"}, [("xs", "xs")]),
    (f_nested_ret, "(xs ys : List Int) : Option Int", {"xs": "xs", "ys": "ys"}, [("xs", "xs")]),
    (f_comp, "(xs : List Int) (k : Int) : Option (List Int)", {"xs": "xs", "k": "k"}, [("xs", "k")]),
    (f_assert, "(xs : List Int) : Option Int", {"xs": "xs"}, [("xs",)]),
]
LISTS = [[], [1], [2, 4], [3, 1, 4, 1, 5], [6, 2, 9, 0, 7], [1, 2, 3, 4, 5, 6], [-1, 3], [5, 5, 2]]
KS = [0, 2, 4, 9]


def lean_list(xs):
    return "[" + ", ".join("(%d : Int)" % x for x in xs) + "]"


def main():
    text = ["import MenpoModel.Core.PyLoop", "set_option linter.unusedVariables false"]
    expect = []
    for fn, sig, args, _ in CASES:
        tr = P.Translator2(R)
        body = tr.function(fn, args)
        text.append("def %s %s :=\n%s\n" % (fn.__name__, sig, body))
        import inspect
        ps = list(inspect.signature(fn).parameters)
        for xs in LISTS:
            combos = [(xs,)] if len(ps) == 1 else ([(xs, k) for k in KS] if ps[1] == "k" else [(xs, ys) for ys in LISTS[:5]])
            for c in combos:
                try:
                    v = fn(*c)
                except AssertionError:
                    v = None
                expect.append((fn.__name__, c, v))
                a = " ".join(lean_list(x) if isinstance(x, list) else "(%d)" % x for x in c)
                text.append("#eval %s %s" % (fn.__name__, a))
    d = tempfile.mkdtemp()
    f = os.path.join(d, "T.lean")
    open(f, "w").write("\n".join(text))
    r = subprocess.run(["lake", "env", "lean", f], cwd=os.path.join(ROOT, "lean"), capture_output=True, text=True)
    out = [l for l in r.stdout.splitlines() if l.strip()]
    if r.returncode != 0:
        print(r.stdout[-3000:], r.stderr[-2000:])
        print(open(f).read()[:6000])
        return 1

    def fmt(v):
        if v is None:
            return "none"
        if isinstance(v, tuple):
            return "some (" + ", ".join(str(x) for x in v) + ")"
        if isinstance(v, list):
            return "some [" + ", ".join(str(x) for x in v) + "]"
        return "some " + ("(%d)" % v if v < 0 else str(v))
    bad = 0
    for (name, c, v), line in zip(expect, out):
        if fmt(v).replace(" ", "") != line.replace(" ", ""):
            bad += 1
            print("DISAGREE", name, c, "python", fmt(v), "lean", line)
    print("py2lean2 self-test: %d evaluations, %d disagreements, %d lean output lines" % (len(expect), bad, len(out)))
    import shutil
    shutil.rmtree(d)
    return 1 if bad or len(out) != len(expect) else 0



# ---------------------------------------------------------------------------------------------------------------------
# Translator2T (appended): try / except / else, raising calls in loops, hoisting, closures, expression statements,
# handler sees the state at the point of the raise, uncaught classes propagate.  Python vs `#eval`, both output styles.

class Bad(Exception):
    def __init__(self, v):
        Exception.__init__(self)
        self.v = v


def chk(x):
    if x < 0:
        raise Bad(x)
    return 2 * x


def t_try_loop(xs):
    good = []
    bad = []
    failed = False
    for x in xs:
        try:
            y = chk(x)
            good.append(y)
        except Bad as e:
            failed = True
            bad.append(e.v)
        else:
            bad.append(0)
    if failed:
        raise Bad(len(bad))
    return good


def t_raise_in_loop(xs):
    out = []
    for x in xs:
        out.append(chk(x - 3))
    return out


def t_closure(a, k):
    def f(z):
        return chk(z - k)
    u = f(a)
    try:
        v = f(u)
    except Bad as e:
        return [u, e.v]
    return [u, v]


def t_two(a, k):
    try:
        chk(a)
        chk(k - 3)
        return [1]
    except Bad as e:
        return [e.v]


def t_state(a, k):
    s = 0
    try:
        s = chk(a)
        s = s + chk(k - 4)
    except Bad:
        return [s]
    return [s + 100]


def t_uncaught(a, k):
    try:
        v = chk(a - k)
    except KeyError:
        return [-1]
    return [v]


def t_comp(xs):
    ys = [chk(x - 3) for x in xs]
    return ys


def t_comp_operand(xs):
    return [0] + [chk(x) for x in xs if x != 1]


def _evens(xs, k):
    for x in xs:
        y = x - k
        yield y * 2


def _bad(a, k):
    return a < 0 or a > k


def t_helper(xs):
    out = []
    for v in _evens(xs, 3):
        if _bad(v, 4):
            continue
        out.append(chk(v - 1))
    return out


RT = dict(expr=[("chk($x)", "(chk {x})", "bind"), ("$e.v", "{e}"), ("len($l)", "(Int.ofNat (List.length {l}))"),
                ("[$b] + $ys", "([{b}] ++ {ys})")],
          stmt=[("$l.append($v)", "l", "({l} ++ [{v}])")], exc=[("Bad($v)", "{v}")],
          catch={"Bad": "true", "KeyError": "false"})
T_CASES = [(t_try_loop, "(xs : List Int) : Except Int (List Int)", {"xs": "xs"}),
           (t_raise_in_loop, "(xs : List Int) : Except Int (List Int)", {"xs": "xs"}),
           (t_closure, "(a k : Int) : Except Int (List Int)", {"a": "a", "k": "k"}),
           (t_two, "(a k : Int) : Except Int (List Int)", {"a": "a", "k": "k"}),
           (t_state, "(a k : Int) : Except Int (List Int)", {"a": "a", "k": "k"}),
           (t_uncaught, "(a k : Int) : Except Int (List Int)", {"a": "a", "k": "k"}),
           # Translator2TN: comprehensions with a raising element are normalised to the append-loop
           (t_comp, "(xs : List Int) : Except Int (List Int)", {"xs": "xs"}),
           (t_comp_operand, "(xs : List Int) : Except Int (List Int)", {"xs": "xs"}),
           # Translator2TH: a generator helper and an expression helper of the same module are inlined
           (t_helper, "(xs : List Int) : Except Int (List Int)", {"xs": "xs"})]


def main_t():
    import inspect
    import re
    text = ["import MenpoModel.Core.PyLoop", "set_option linter.unusedVariables false",
            "def chk (x : Int) : Except Int Int := if x < 0 then .error x else .ok (2 * x)"]
    expect = []
    for style in (False, True):
        for fn, sig, args in T_CASES:
            tr = P.Translator2TH(P.Rules2T(fn_style=style, **RT))
            name = fn.__name__ + ("_fn" if style else "")
            text.append("def %s %s :=\n%s\n" % (name, sig, tr.function(fn, args)))
            ps = list(inspect.signature(fn).parameters)
            combos = [(xs,) for xs in LISTS] if len(ps) == 1 else [(a, k) for a in (-2, 0, 1, 3, 5) for k in KS]
            for c in combos:
                try:
                    v = ("ok", fn(*c))
                except Bad as e:
                    v = ("error", e.v)
                expect.append((name, c, v))
                a = " ".join(lean_list(x) if isinstance(x, list) else "(%d)" % x for x in c)
                text.append("#eval %s %s" % (name, a))
    d = tempfile.mkdtemp()
    f = os.path.join(d, "T.lean")
    open(f, "w").write("\n".join(text))
    r = subprocess.run(["lake", "env", "lean", f], cwd=os.path.join(ROOT, "lean"), capture_output=True, text=True)
    out = [l for l in r.stdout.splitlines() if l.strip()]
    if r.returncode != 0:
        print(r.stdout[-3000:], r.stderr[-2000:])
        print(open(f).read()[:8000])
        return 1

    def norm(t):
        return re.sub(r"[ ()]", "", t)
    bad = 0
    for (name, c, v), line in zip(expect, out):
        want = "Except.%s %s" % (v[0], ("[" + ", ".join(str(x) for x in v[1]) + "]") if isinstance(v[1], list) else str(v[1]))
        if norm(want) != norm(line):
            bad += 1
            print("DISAGREE", name, c, "python", want, "lean", line)
    print("py2lean2 Translator2T self-test: %d evaluations, %d disagreements, %d lean output lines" % (len(expect), bad, len(out)))
    import shutil
    shutil.rmtree(d)
    return 1 if bad or len(out) != len(expect) else 0


sys.exit(main() or main_t())
