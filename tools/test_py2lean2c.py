#!/venv/bin/python
"""tools/test_py2lean2c.py — self-test of harness/py2lean2c.py: translates sample functions that use the constructs the
module adds (calls normalised against the callee's own signature and defaults, class dispatch, result projection,
try / except over a failure monad, generators, string / float constants, membership in a literal list, generator
expressions, `for` over a wrapped iterable, monadic value bound to a tuple pattern), type-checks the Lean text and
compares `#eval` of the translation with Python on a grid of inputs.  Exit 0 iff everything agrees."""
import os, subprocess, sys, tempfile
ROOT = os.path.dirname(os.path.dirname(os.path.abspath(__file__)))
sys.path.insert(0, ROOT)
from harness import py2lean2c as P


# ---------------------------------------------------------------------------------------------- python under test

def scaled(x, k=3, flip=False):
    if flip:
        return -(x * k)
    return x * k


def checked(x, lo=0, hi=10):
    if x < lo:
        raise ValueError("low")
    if x > hi:
        raise ValueError("high")
    return x


def uses_defaults(x):
    a = scaled(x)
    b = scaled(x, flip=True)
    c = scaled(x, 2)
    return (a, b, c)


def uses_checked(x):
    y = checked(x, hi=5)
    z = checked(y + 1)
    return y + z


def both(x):
    return (x + 1, x * 2)


def may_fail_pair(x):
    if x < 0:
        raise ValueError("neg")
    return (x, x + 1)


def tuple_bind(x):
    a, b = may_fail_pair(x)
    return a * b


def length_or_rep(v):
    try:
        if len(v) < 2:
            raise ValueError("short")
    except TypeError:
        v = [v] * 2
    t = 0
    for s in v:
        if s <= 0:
            raise ValueError("nonpositive")
        t += s
    return t


def gen_levels(x, n):
    cur = x
    yield cur
    for _ in range(n - 1):
        cur = checked(cur * 2, hi=50)
        yield cur


def mode_name(m):
    if m not in ["ceil", "round", "floor"]:
        raise ValueError("bad")
    if m == "ceil":
        return 1
    return 0


def half(x):
    return x * 0.5 + 1.5


def pairs(xs, ys):
    return tuple((a, b) for a, b in zip(xs, ys))


class A:
    def val(self, k=1):
        return k + 1

    def twice(self):
        return self.val() * 2


class B(A):
    def val(self, k=10):
        return k + 100


# ---------------------------------------------------------------------------------------------- the vocabulary

C_scaled = P.Callee(scaled, "scaled", ["x", "k", "flip"], monadic=False)
C_checked = P.Callee(checked, "checked", ["x", "lo", "hi"], monadic=True)
C_pair = P.Callee(may_fail_pair, "may_fail_pair", ["x"], monadic=True)
C_A_val = P.Callee(A.val, "A_val", ["k"], monadic=False)
C_B_val = P.Callee(B.val, "B_val", ["k"], monadic=False)
CALLS = [P.CallRule("scaled", callee=C_scaled), P.CallRule("checked", callee=C_checked),
         P.CallRule("may_fail_pair", callee=C_pair),
         P.CallRule("self.val", dispatch=("{r}", [("true", C_B_val), ("false", C_A_val)]), recv="receiver")]


def rules(ret, **kw):
    return P.Rules2C(calls=CALLS, catch={"TypeError": ".error .typeE"},
                     raise_=None, raise_by={"ValueError": "(Except.error Exc.valueE)", "TypeError": "(Except.error Exc.typeE)"},
                     unwrap=(".error e", "(Except.error e)", ".ok {x}"), ret=ret,
                     float_="(({n} : Rat) / {d})", **kw)


ARG = """inductive Exc | valueE | typeE deriving Repr, DecidableEq
inductive Arg | num (x : Int) | seq (l : List Int) deriving Repr
def pyLen : Arg → Except Exc Int | .num _ => .error .typeE | .seq l => .ok l.length
def Arg.rep (a : Arg) (n : Nat) : Arg := match a with | .num x => .seq (List.replicate n x) | .seq l => .seq l
def Arg.items : Arg → List Int | .num x => [x] | .seq l => l
def showE {α} [Repr α] : Except Exc α → String | .ok a => "ok " ++ reprStr a | .error e => "err " ++ reprStr e
"""


def main():
    text = ["import MenpoModel.Core.PyLoop", "set_option linter.unusedVariables false", ARG]

    def add(sig, fn, args, r, **kw):
        body = P.Translator2C(r).function(fn, args, ind=1, **kw)
        text.append("def %s :=\n%s\n" % (sig, body))

    add("scaled (x : Int) (k : Int) (flip : Bool) : Int", scaled, {"x": "x", "k": "k", "flip": "flip"}, rules("{e}"))
    add("checked (x lo hi : Int) : Except Exc Int", checked, {"x": "x", "lo": "lo", "hi": "hi"}, rules("(Except.ok {e})"))
    add("uses_defaults (x : Int) : Int × Int × Int", uses_defaults, {"x": "x"}, rules("{e}"))
    add("uses_checked (x : Int) : Except Exc Int", uses_checked, {"x": "x"}, rules("(Except.ok {e})"))
    add("may_fail_pair (x : Int) : Except Exc (Int × Int)", may_fail_pair, {"x": "x"}, rules("(Except.ok {e})"))
    add("tuple_bind (x : Int) : Except Exc Int", tuple_bind, {"x": "x"}, rules("(Except.ok {e})"))
    add("length_or_rep (v : Arg) : Except Exc Int", length_or_rep, {"v": "v"},
        rules("(Except.ok {e})", expr=[("len(v)", "pyLen {v}", "bind"), ("[$x] * 2", "(Arg.rep {x} 2)")],
              iter_wrap="(Arg.items {x})"))
    add("gen_levels (x n : Int) : Except Exc (List Int)", gen_levels, {"x": "x", "n": "n"},
        rules("(Except.ok {e})", expr=[("range($n)", "(List.range (Int.toNat {n}))")], yield_init="([] : List Int)"))
    add("mode_name (m : String) : Except Exc Int", mode_name, {"m": "m"}, rules("(Except.ok {e})"))
    add("half (x : Rat) : Rat", half, {"x": "x"}, rules("{e}"))
    add("pairs (xs ys : List Int) : List (Int × Int)", pairs, {"xs": "xs", "ys": "ys"},
        rules("{e}", expr=[("zip($a, $b)", "(List.zip {a} {b})"), ("tuple($x)", "{x}")]))
    text.append("def A_val (k : Int) : Int :=\n" + P.Translator2C(rules("{e}")).function(A.val, {"self": "self", "k": "k"}, ind=1,
                                                                                         allow_unused=("self",)))
    text.append("def B_val (k : Int) : Int :=\n" + P.Translator2C(rules("{e}")).function(B.val, {"self": "self", "k": "k"}, ind=1,
                                                                                         allow_unused=("self",)))
    add("twice (self : Bool) : Int", A.twice, {"self": "self"}, rules("{e}"))

    expect = []

    def ev(lean, value):
        text.append("#eval " + lean)
        expect.append((lean, value))

    def exc(f, *a):
        try:
            return "ok " + fmt(f(*a))
        except ValueError:
            return "err Exc.valueE"
        except TypeError:
            return "err Exc.typeE"

    def fmt(v):
        if isinstance(v, bool):
            return "true" if v else "false"
        if isinstance(v, tuple):
            return "(" + ", ".join(fmt(x) for x in v) + ")"
        if isinstance(v, list):
            return "[" + ", ".join(fmt(x) for x in v) + "]"
        return str(v)

    for x in (-3, 0, 2, 5, 7, 12):
        ev("uses_defaults (%d)" % x, fmt(uses_defaults(x)))
        ev("showE (uses_checked (%d))" % x, exc(uses_checked, x))
        ev("showE (tuple_bind (%d))" % x, exc(tuple_bind, x))
        for n in (1, 3, 5):
            ev("showE (gen_levels (%d) (%d))" % (x, n), exc(lambda a, b: list(gen_levels(a, b)), x, n))
    for v in (4, -1, [1, 2], [3], [2, 0, 5], [1, 2, 3]):
        lean = "(Arg.num (%d))" % v if isinstance(v, int) else "(Arg.seq [%s])" % ", ".join("(%d)" % i for i in v)
        ev("showE (length_or_rep %s)" % lean, exc(length_or_rep, v))
    for m in ("ceil", "round", "up"):
        ev('showE (mode_name "%s")' % m, exc(mode_name, m))
    ev("half (3 : Rat)", "3")
    ev("half (2 : Rat)", "(5 : Rat)/2")
    ev("pairs [1, 2, 3] [4, 5]", fmt([(1, 4), (2, 5)]))
    ev("twice false", fmt(A().twice()))
    ev("twice true", fmt(B().twice()))
    d = tempfile.mkdtemp()
    f = os.path.join(d, "T.lean")
    open(f, "w").write("\n".join(text))
    r = subprocess.run(["lake", "env", "lean", f], cwd=os.path.join(ROOT, "lean"), capture_output=True, text=True)
    out = [l for l in r.stdout.splitlines() if l.strip()]
    if r.returncode != 0:
        print(r.stdout[-3000:], r.stderr[-2000:])
        print(open(f).read()[:9000])
        return 1
    bad = 0
    for (lean, v), line in zip(expect, out):
        a = line.strip().strip('"').replace(" ", "")
        b = v.replace(" ", "")
        if a != b:
            bad += 1
            print("DISAGREE", lean, "python", v, "lean", line)
    print("py2lean2c self-test: %d evaluations, %d disagreements, %d lean output lines" % (len(expect), bad, len(out)))
    import shutil
    shutil.rmtree(d)
    return 1 if bad or len(out) != len(expect) else 0


sys.exit(main())
