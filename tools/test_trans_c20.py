#!/venv/bin/python
"""tools/test_trans_c20.py [worktree] [names...] — validates the C20 translator tie on a scratch worktree of /repo:
HARMLESS rewrites of translated functions must keep `./check C20` at exit 0, CHANGED DECISIONS must break an obligation
and end in a VIOLATION line.  Creates / removes the worktree itself when none is given; restores Generated/C20*.lean and
evidence/C20.json afterwards.  Exit 0 iff every mutation behaves as expected."""
import os, subprocess, sys, tempfile, shutil, json
ROOT = os.path.dirname(os.path.dirname(os.path.abspath(__file__)))

COMP = "menpo/transform/compositions.py"
ROT = "menpo/transform/homogeneous/rotation.py"
AFF = "menpo/transform/homogeneous/affine.py"
SCA = "menpo/transform/homogeneous/scale.py"
TCO = "menpo/transform/tcoords.py"
PCL = "menpo/shape/pointcloud.py"

# (name, expected: "ok" | "violation", file, old, new)
MUTATIONS = [
    # ---------------------------------------------------------------- harmless
    ("harmless: renamed temporaries in transform_about_centre", "ok", COMP,
     [("to_origin", "shift_in"), ("back_to_centre", "shift_out")]),
    ("harmless: reordered independent statements in transform_about_centre", "ok", COMP,
     [("    to_origin = Translation(-obj.centre(), skip_checks=True)\n    back_to_centre = Translation(obj.centre(), skip_checks=True)\n",
       "    back_to_centre = Translation(obj.centre(), skip_checks=True)\n    to_origin = Translation(-obj.centre(), skip_checks=True)\n")]),
    ("harmless: inverted test with swapped arms in transform_about_centre", "ok", COMP,
     [("    if isinstance(transform, Homogeneous):\n        # Translate to origin, transform, then translate back\n        return to_origin.compose_before(transform).compose_before(back_to_centre)\n    else:  # Fallback to transform chain\n        return reduce(\n            lambda a, b: a.compose_before(b), [to_origin, transform, back_to_centre]\n        )\n",
       "    if not isinstance(transform, Homogeneous):\n        return reduce(\n            lambda u, v: u.compose_before(v), [to_origin, transform, back_to_centre]\n        )\n    else:\n        step = to_origin.compose_before(transform)\n        return step.compose_before(back_to_centre)\n")]),
    ("harmless: init_from_2d_ccw_angle with named cos / sin and inverted degrees test", "ok", ROT,
     [("        if degrees:\n            theta = np.deg2rad(theta)\n        return Rotation(\n            np.array([[np.cos(theta), -np.sin(theta)], [np.sin(theta), np.cos(theta)]]),\n            skip_checks=True,\n        )\n",
       "        if not degrees:\n            angle = theta\n        else:\n            angle = np.deg2rad(theta)\n        s = np.sin(angle)\n        c = np.cos(angle)\n        return Rotation(np.array([[c, -s], [s, c]]), skip_checks=True)\n")]),
    ("harmless: Scale factory with the zero test after the None test and a named first factor", "ok", SCA,
     [("        if np.allclose(scale_factor, scale_factor[0]):\n            return UniformScale(scale_factor[0], scale_factor.shape[0])\n        else:\n            return NonUniformScale(scale_factor)\n",
       "        first = scale_factor[0]\n        if not np.allclose(scale_factor, first):\n            return NonUniformScale(scale_factor)\n        return UniformScale(first, scale_factor.shape[0])\n")]),
    ("harmless: shear_about_centre guard as early return order / renamed temporary", "ok", COMP,
     [("    s = Affine.init_from_2d_shear(phi, psi, degrees=degrees)\n    return transform_about_centre(obj, s)\n",
       "    shear = Affine.init_from_2d_shear(phi, psi, degrees=degrees)\n    result = transform_about_centre(obj, shear)\n    return result\n")]),
    # ---------------------------------------------------------------- changed decisions
    ("changed: translations swapped in transform_about_centre", "violation", COMP,
     [("    to_origin = Translation(-obj.centre(), skip_checks=True)\n    back_to_centre = Translation(obj.centre(), skip_checks=True)\n",
       "    to_origin = Translation(obj.centre(), skip_checks=True)\n    back_to_centre = Translation(-obj.centre(), skip_checks=True)\n")]),
    ("changed: shear_about_centre drops the degrees flag", "violation", COMP,
     [("Affine.init_from_2d_shear(phi, psi, degrees=degrees)", "Affine.init_from_2d_shear(phi, psi)")]),
    ("changed: rotate_ccw_about_centre loses its 2-D guard", "violation", COMP,
     [("    if obj.n_dims != 2:\n        raise ValueError(\"CCW rotation is currently only supported for \" \"2D objects\")\n", "")]),
    ("changed: init_from_3d_ccw_angle_around_y with the sine signs swapped", "violation", ROT,
     [("                    [np.cos(theta), 0, np.sin(theta)],\n                    [0, 1, 0],\n                    [-np.sin(theta), 0, np.cos(theta)],\n",
       "                    [np.cos(theta), 0, -np.sin(theta)],\n                    [0, 1, 0],\n                    [np.sin(theta), 0, np.cos(theta)],\n")]),
    ("changed: Scale factory compares first and last factor only", "violation", SCA,
     [("        if np.allclose(scale_factor, scale_factor[0]):\n            return UniformScale(scale_factor[0], scale_factor.shape[0])",
       "        if np.allclose(scale_factor[-1], scale_factor[0]):\n            return UniformScale(scale_factor[0], scale_factor.shape[0])")]),
    ("changed: tcoords scale by the shape (off by one)", "violation", TCO,
     [("Scale(np.array(image_shape) - 1)", "Scale(np.array(image_shape))")]),
    ("changed: tcoords flips before inverting", "violation", TCO,
     [("invert_unit_y.compose_before(flip_xy_yx)", "flip_xy_yx.compose_before(invert_unit_y)")]),
    ("changed: default of degrees in rotate_ccw_about_centre", "violation", COMP,
     [("def rotate_ccw_about_centre(obj, theta, degrees=True):", "def rotate_ccw_about_centre(obj, theta, degrees=False):")]),
    ("harmless: _from_vector_inplace with the length test first-class and a named scale", "ok", ROT,
     [("                n = np.dot(p, p)\n", "                n = np.dot(p, p)\n                two = 2.0\n"),
      ("                p = p * np.sqrt(2.0 / n)\n", "                p = p * np.sqrt(two / n)\n")]),
    ("harmless: _axis_and_angle_of_rotation_2d with reordered independent statements", "ok", ROT,
     [("        axis = np.array([0, 0, 1])\n        test_vector = np.array([1, 0])\n",
       "        test_vector = np.array([1, 0])\n        axis = np.array([0, 0, 1])\n")]),
    ("harmless: UniformScale.init_identity through a named factor", "ok", SCA,
     [("        return UniformScale(1, n_dims)\n", "        result = UniformScale(1, n_dims)\n        return result\n")]),
    ("changed: quaternion matrix cell with the wrong sign", "violation", ROT,
     [("[1.0 - p[2, 2] - p[3, 3], p[1, 2] - p[3, 0], p[1, 3] + p[2, 0]],",
       "[1.0 - p[2, 2] - p[3, 3], p[1, 2] + p[3, 0], p[1, 3] + p[2, 0]],")]),
    ("changed: _as_vector K entry swapped", "violation", ROT,
     [("[m21 - m12, m02 - m20, m10 - m01, m00 + m11 + m22]", "[m12 - m21, m02 - m20, m10 - m01, m00 + m11 + m22]")]),
    ("changed: _as_vector no longer canonicalises the sign", "violation", ROT,
     [("            if q[0] < 0.0:\n                q = -q\n", "")]),
    ("changed: 3-D axis/angle sign test inverted", "violation", ROT,
     [("        if chirality_of_rotation < 0:", "        if chirality_of_rotation > 0:")]),
    ("changed: 3-D axis/angle tolerance widened so that nothing is unit", "violation", ROT,
     [("        above_margin = (1 - error) < np.abs(real_eval)", "        above_margin = (1 + error) < np.abs(real_eval)")]),
    ("changed: UniformScale loses its upper dimension guard", "violation", SCA,
     [("            if n_dims > 3 or n_dims < 2:", "            if n_dims < 2:")]),
    ("changed: Translation constructed without checks in init_identity", "violation", "menpo/transform/homogeneous/translation.py",
     [("        return Translation(np.zeros(n_dims))", "        return Translation(np.zeros(n_dims), skip_checks=True)")]),
    ("harmless: the degrees conversion factored into a module-level helper", "ok", ROT,
     [("# TODO build rotations about axis, euler angles etc\n",
       "def _to_radians(angle, degrees):\n    if degrees:\n        return np.deg2rad(angle)\n    return angle\n\n\n# TODO build rotations about axis, euler angles etc\n"),
      ("        if degrees:\n            theta = np.deg2rad(theta)\n        return Rotation(\n            np.array([[np.cos(theta), -np.sin(theta)], [np.sin(theta), np.cos(theta)]]),",
       "        theta = _to_radians(theta, degrees)\n        return Rotation(\n            np.array([[np.cos(theta), -np.sin(theta)], [np.sin(theta), np.cos(theta)]]),")]),
    ("changed: a module-level helper that converts when degrees is False", "violation", ROT,
     [("# TODO build rotations about axis, euler angles etc\n",
       "def _to_radians(angle, degrees):\n    if not degrees:\n        return np.deg2rad(angle)\n    return angle\n\n\n# TODO build rotations about axis, euler angles etc\n"),
      ("        if degrees:\n            theta = np.deg2rad(theta)\n        return Rotation(\n            np.array([[np.cos(theta), -np.sin(theta)], [np.sin(theta), np.cos(theta)]]),",
       "        theta = _to_radians(theta, degrees)\n        return Rotation(\n            np.array([[np.cos(theta), -np.sin(theta)], [np.sin(theta), np.cos(theta)]]),")]),
    ("changed: 3-D axis/angle masks the ROWS of the eigenvector matrix", "violation", ROT,
     [("evec[:, real_eval_mask]", "evec[real_eval_mask]")]),
    ("changed: Affine._set_h_matrix no longer tests the corner entry", "violation", AFF,
     [("np.allclose(value[-1, -1], 1)", "np.allclose(value[-1, :-1], 0)")]),
    ("changed: PointCloud.centre is the centre of the bounds", "violation", PCL,
     [("        return np.mean(self.points, axis=0)\n", "        return self.centre_of_bounds()\n")]),
]


def run(wt, name, expect, path, edits):
    f = os.path.join(wt, path)
    src = open(f).read()
    new = src
    for old, rep in edits:
        if old not in new:
            print("SKIP (pattern not found): %s  [%r]" % (name, old[:50]))
            return None
        new = new.replace(old, rep)
    open(f, "w").write(new)
    try:
        env = dict(os.environ, MENPO_REPO=wt, VERIF_SEED=os.environ.get("VERIF_SEED", "0"))
        p = subprocess.run([os.path.join(ROOT, "check"), "C20"], cwd=ROOT, env=env, capture_output=True, text=True)
        lines = [l for l in p.stdout.splitlines() if not l.startswith("KNOWN-FINDING")]
        viol = [l for l in lines if l.startswith("VIOLATION")]
        got = "ok" if p.returncode == 0 else "violation" if (p.returncode == 1 and viol) else "exit%d" % p.returncode
        detail = ""
        if viol:
            rp = viol[0].split("replay=")[1].split()[0]
            try:
                d = json.load(open(os.path.join(ROOT, rp) if not os.path.isabs(rp) else rp))
                detail = " | " + str(d.get("kind", ""))[:60] + " | " + str(d.get("site", d.get("what", "")))[:110]
            except Exception as e:
                detail = " | (replay unreadable: %s)" % e
            if "no-failing-input-found" in viol[0]:
                detail += " | NO FAILING INPUT"
        ok = got == expect
        print("%s  expected %-9s got %-9s %s%s" % ("PASS" if ok else "FAIL", expect, got, name, detail))
        if not ok:
            print("\n".join(lines[-6:]))
            print(p.stderr[-1500:])
        return ok
    finally:
        open(f, "w").write(src)


def main():
    args = sys.argv[1:]
    own = False
    if args and os.path.isdir(args[0]):
        wt = args.pop(0)
    else:
        wt = tempfile.mkdtemp(prefix="wt-C20t-")
        os.rmdir(wt)
        subprocess.run(["git", "-C", "/repo", "worktree", "add", "-q", wt, "HEAD"], check=True)
        own = True
    save = tempfile.mkdtemp(prefix="c20-save-")
    keep = ["evidence/C20.json"] + [os.path.join("lean/MenpoModel/Generated", f)
                                     for f in os.listdir(os.path.join(ROOT, "lean/MenpoModel/Generated")) if f.startswith("C20")]
    for k in keep:
        shutil.copy(os.path.join(ROOT, k), os.path.join(save, k.replace("/", "__")))
    bad = 0
    try:
        for name, expect, path, edits in MUTATIONS:
            if args and not any(a in name for a in args):
                continue
            r = run(wt, name, expect, path, edits)
            if r is False:
                bad += 1
    finally:
        for k in keep:
            shutil.copy(os.path.join(save, k.replace("/", "__")), os.path.join(ROOT, k))
        shutil.rmtree(save)
        if own:
            subprocess.run(["git", "-C", "/repo", "worktree", "remove", "--force", wt])
    print("test_trans_c20: %d unexpected" % bad)
    return 1 if bad else 0


sys.exit(main())
