#!/venv/bin/python
"""tools/test_py2lean2g.py — self-test of harness/py2lean2g.py (generators, nested defs, while with fuel, effectful and
monadic operands, truth values, skipped statements, generator expressions, match-form binds inside loops): translates
sample functions, type-checks the Lean text and compares `#eval` with Python on a grid of inputs.  Exit 0 iff all agree."""
import os, subprocess, sys, tempfile, shutil
ROOT = os.path.dirname(os.path.dirname(os.path.abspath(__file__)))
sys.path.insert(0, ROOT)
from harness import py2lean2g as G


def log(x):
    pass


def checked_div(a, b):
    if b == 0:
        raise ZeroDivisionError
    return a // b if a >= 0 and b > 0 else -((-a) // b) if a < 0 and b > 0 else 0


def g_evens(xs):                       # generator: for / if / yield, early bare return
    for x in xs:
        if x < 0:
            return
        if x % 2 == 0:
            yield x
    yield 100


def g_nested(xs, k):                   # nested def as a lambda, used in a comprehension
    def shift(v):
        return v + k
    return [shift(x) for x in xs]


def g_first_known(xs, known):          # while with fuel, effectful operand (pop), truth value of a list
    found = -1
    while found < 0 and xs:
        head = xs.pop(0)
        found = head if head in known else -1
    if found < 0:
        raise ValueError
    return found


def g_hoist(xs, d):                    # monadic operand hoisted out of a comparison; `and` with a monadic operand
    if xs and checked_div(xs[0], d) > 1:
        return 1
    log(xs)
    return checked_div(len(xs), d) + 1


def g_loop_bind(xs, d):                # monadic operand inside a loop body (match form, early exit)
    total = 0
    for x in xs:
        q = checked_div(x, d)
        total += q
    return total


def g_genexp(xs):
    ys = [x for x in xs if x > 0]
    return (y for y in ys)


def h_double_if_big(v, k):               # a module-level helper: inlined at its call sites
    if v > k:
        return v * 2
    return v


def h_check(k):                           # a helper called as a statement: spliced in place
    if k < 0:
        raise ValueError("negative: {}".format(k))


def g_helpers(xs, k):                     # helper inlining, list-building loop = comprehension, strings as one unit
    h_check(k)
    out = []
    for x in xs:
        out.append(h_double_if_big(x, k))
    label = "n=" + f"{k}"
    log(label)
    rest = out
    if rest:                              # truth value by TYPE MARK (the mark survives `rest = out`)
        return out
    raise ValueError(f"empty {label}")


PRE = """
def Py.div (a b : Int) : Option Int := if b == 0 then none else some (if a ≥ 0 && b > 0 then a / b else if a < 0 && b > 0 then -((-a) / b) else 0)
"""
EXPR = [("$a % $b", "({a} % {b})"), ("$e in $m", "(List.contains {m} {e})"), ("len($x)", "((List.length {x} : Nat) : Int)"),
        ("$x[0]", "(List.headD {x} 0)"), ("checked_div($a, $b)", "(Py.div {a} {b})", "bind"),
        ("$l.pop(0)", "(List.headD {l} 0)", "mut", "l", "(List.tail {l})")]
TRUTHY = {"xs": "(!(List.isEmpty {e}))"}

CASES = [
    (g_evens, "(xs : List Int) : Option (List Int)", {"xs": "xs"}, dict()),
    (g_nested, "(xs : List Int) (k : Int) : Option (List Int)", {"xs": "xs", "k": "k"}, dict()),
    (g_first_known, "(xs known : List Int) : Option Int", {"xs": "xs", "known": "known"},
     dict(fuel="({xs}.length + 1)", fuel_out="none")),
    (g_hoist, "(xs : List Int) (d : Int) : Option Int", {"xs": "xs", "d": "d"}, dict(skip=["log($x)"])),
    (g_loop_bind, "(xs : List Int) (d : Int) : Option Int", {"xs": "xs", "d": "d"},
     dict(match_bind=dict(ok="some {x}", err="none", reraise="none"))),
    (g_genexp, "(xs : List Int) : Option (List Int)", {"xs": "xs"}, dict(genexp="{e}")),
    (g_helpers, "(xs : List Int) (k : Int) : Option (List Int)", {"xs": "xs", "k": "k"},
     dict(inline=True, strings="()", skip=["log($x)"], typed=[("[$e for $t in $i]", "list")],
          truthy={"list": "(!(List.isEmpty {e}))", "xs": "(!(List.isEmpty {e}))"})),
]
LISTS = [[], [1], [2, 4], [3, 1, 4, 1, 5], [6, 2, -9, 0, 7], [4, 6, 8], [-1, 3], [5, 5, 2]]
KS = [0, 2, 3, -1]


def lean_list(xs):
    return "[" + ", ".join("(%d : Int)" % x for x in xs) + "]"


def run(fn, args):
    try:
        v = fn(*[list(a) if isinstance(a, list) else a for a in args])
        if hasattr(v, "__next__"):
            v = list(v)
        return v
    except (ValueError, ZeroDivisionError):
        return None


def fmt(v):
    if v is None:
        return "none"
    if isinstance(v, list):
        return "some [" + ", ".join(str(x) for x in v) + "]"
    return "some " + ("(%d)" % v if v < 0 else str(v))


def main():
    text = ["import MenpoModel.Core.PyLoop", "import MenpoModel.Core.PyWhileG", "set_option linter.unusedVariables false", PRE]
    expect = []
    for fn, sig, args, extra in CASES:
        extra = dict(extra)
        rules = G.Rules2G(expr=EXPR, truthy=extra.pop("truthy", TRUTHY), ret="some ({e})", raise_="none", **extra)
        body = G.Translator2G(rules).function(fn, args)
        text.append("def %s %s :=\n%s\n" % (fn.__name__, sig, body))
        names = list(args)
        for xs in LISTS:
            if len(names) == 1:
                combos = [(xs,)]
            elif names[1] == "known":
                combos = [(xs, ks) for ks in ([], [4], [1, 5], [7, 2])]
            else:
                combos = [(xs, k) for k in KS]
            for c in combos:
                expect.append((fn.__name__, c, run(fn, c)))
                text.append("#eval %s %s" % (fn.__name__, " ".join(lean_list(x) if isinstance(x, list) else "(%d)" % x for x in c)))
    d = tempfile.mkdtemp()
    f = os.path.join(d, "T.lean")
    open(f, "w").write("\n".join(text))
    r = subprocess.run(["lake", "env", "lean", f], cwd=os.path.join(ROOT, "lean"), capture_output=True, text=True)
    out = [l for l in r.stdout.splitlines() if l.strip()]
    if r.returncode != 0:
        print(r.stdout[-3000:], r.stderr[-2000:])
        print(open(f).read()[:7000])
        shutil.rmtree(d)
        return 1
    bad = 0
    for (name, c, v), line in zip(expect, out):
        if fmt(v).replace(" ", "") != line.replace(" ", ""):
            bad += 1
            print("DISAGREE", name, c, "python", fmt(v), "lean", line)
    print("py2lean2g self-test: %d evaluations, %d disagreements, %d lean output lines" % (len(expect), bad, len(out)))
    shutil.rmtree(d)
    return 1 if bad or len(out) != len(expect) else 0


sys.exit(main())
