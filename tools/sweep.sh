#!/bin/sh
# tools/sweep.sh <first-seed> <last-seed> [props…] : quick tier over a range of seeds; prints one line per non-OK run
cd "$(dirname "$0")/.." || exit 2
A=$1; B=$2; shift 2
PROPS=${*:-$(cat harness/claimed.txt)}
tools/setup.sh >/dev/null 2>&1 || { echo "SETUP FAILED"; exit 2; }
for p in $PROPS; do
  bad=0
  for s in $(seq $A $B); do
    out=$(VERIF_SEED=$s ./check $p --tier quick 2>&1); rc=$?
    if [ $rc -ne 0 ]; then bad=$((bad+1)); echo "NON-OK $p seed=$s rc=$rc: $(echo "$out" | grep -v '^KNOWN' | tail -2 | tr '\n' ' ')"; fi
  done
  echo "swept $p seeds $A..$B: $bad non-OK"
done
