#!/venv/bin/python
"""tools/test_py2lean2n.py — self-test of harness/py2lean2n.py (the normalising translator): pairs of Python functions that
differ by a behaviour-preserving refactoring (extracted helper, temporary that is a fragment of a vocabulary unit,
guard loop vs `any(...)`, conditional expression vs if/else for an alias, early return vs else) must translate to Lean
terms that evaluate identically (and identically to Python) on a grid of inputs; unsound shapes must be refused.
Exit 0 iff everything agrees."""
import os, subprocess, sys, tempfile
ROOT = os.path.dirname(os.path.dirname(os.path.abspath(__file__)))
sys.path.insert(0, ROOT)
from harness import py2lean2n as P


class Box:
    def __init__(self, v):
        self.items = list(v)
        self.tag = 0


def _bump(box, k, flag):
    if flag and len(box.items) > 0:
        box.tag = box.tag + k
    box.items.append(k)


def _double(x):
    y = x * 2
    return y + 1


def a_plain(v, k, flag):
    box = Box(v)
    if flag and len(box.items) > 0:
        box.tag = box.tag + k
    box.items.append(k)
    z = k * 2 + 1
    return (box.tag, len(box.items), z)


def a_helper(v, k, flag):
    box = Box(v)
    _bump(box, k, flag)
    z = _double(k)
    return (box.tag, len(box.items), z)


def b_plain(xs, n):
    return sum(xs[0:(n + 1)])


def b_temp(xs, n):
    stop = n + 1
    return sum(xs[0:stop])


def c_loop(xs):
    for x in xs:
        if x <= 0:
            raise ValueError("nonpositive")
    return len(xs)


def c_any(xs):
    if any(x <= 0 for x in xs):
        raise ValueError("nonpositive")
    return len(xs)


def d_ifexp(pair, first):
    view = pair[0] if first else pair[1]
    view.items.append(7)
    return (len(pair[0].items), len(pair[1].items))


def d_ifelse(pair, first):
    if first:
        view = pair[0]
    else:
        view = pair[1]
    view.items.append(7)
    return (len(pair[0].items), len(pair[1].items))


def e_else(x):
    if x > 3:
        return x - 3
    else:
        return x


def e_early(x):
    if not x > 3:
        return x
    return x - 3


def bad_temp(xs, n):
    stop = n + 1
    n = 0
    return sum(xs[0:stop]) + n


PRELUDE = """structure Box where
  items : List Int
  tag : Int
deriving Repr
inductive Exc | valueE deriving Repr
def showE {α} [Repr α] : Except Exc α → String | .ok a => "ok " ++ reprStr a | .error e => "err " ++ reprStr e
"""

EXPR = [("Box($v)", "(Box.mk {v} 0)"), ("$p[0]", "({p}).1"), ("$p[1]", "({p}).2"),
        ("len($b.items)", "(({b}).items.length : Int)"), ("$b.tag", "({b}).tag"),
        ("sum($xs[0:($n + 1)])", "(List.sum (List.take (Int.toNat ({n} + 1)) {xs}))"),
        ("len($xs)", "(({xs}).length : Int)"), ("$x <= 0", "(decide ({x} ≤ 0))"), ("$x > 3", "(decide ({x} > 3))"),
]
STMT = [("$b.tag = $v", "b", "{{ {b} with tag := {v} }}"), ("$b.items.append($k)", "b", "{{ {b} with items := ({b}).items ++ [{k}] }}")]
ALIAS = [("$p[0]", "p", "({y}).1", "({v}, ({y}).2)"), ("$p[1]", "p", "({y}).2", "(({y}).1, {v})")]


def rules(ret="{e}"):
    return P.Rules2N(expr=EXPR, stmt=STMT, alias=ALIAS, inline_modules=("__main__", "t2n"), ret=ret, raise_=None,
                     raise_by={"ValueError": "(Except.error Exc.valueE)"}, unwrap=(".error e", "(Except.error e)", ".ok {x}"))


def main():
    text = ["import MenpoModel.Core.PyLoop", "set_option linter.unusedVariables false", PRELUDE]
    defs = [
        ("a_plain (v : List Int) (k : Int) (flag : Bool) : Int × Int × Int", a_plain, {"v": "v", "k": "k", "flag": "flag"}, "{e}"),
        ("a_helper (v : List Int) (k : Int) (flag : Bool) : Int × Int × Int", a_helper, {"v": "v", "k": "k", "flag": "flag"}, "{e}"),
        ("b_plain (xs : List Int) (n : Int) : Int", b_plain, {"xs": "xs", "n": "n"}, "{e}"),
        ("b_temp (xs : List Int) (n : Int) : Int", b_temp, {"xs": "xs", "n": "n"}, "{e}"),
        ("c_loop (xs : List Int) : Except Exc Int", c_loop, {"xs": "xs"}, "(Except.ok {e})"),
        ("c_any (xs : List Int) : Except Exc Int", c_any, {"xs": "xs"}, "(Except.ok {e})"),
        ("d_ifexp (pair : Box × Box) (first : Bool) : Int × Int", d_ifexp, {"pair": "pair", "first": "first"}, "{e}"),
        ("d_ifelse (pair : Box × Box) (first : Bool) : Int × Int", d_ifelse, {"pair": "pair", "first": "first"}, "{e}"),
        ("e_else (x : Int) : Int", e_else, {"x": "x"}, "{e}"),
        ("e_early (x : Int) : Int", e_early, {"x": "x"}, "{e}"),
    ]
    bodies = {}
    for sig, fn, args, ret in defs:
        body = P.Translator2N(rules(ret)).function(fn, args, ind=1)
        bodies[fn.__name__] = body
        text.append("def %s :=\n%s\n" % (sig, body))
    problems = 0
    # the canonical forms coincide textually where the module promises it
    if bodies["c_loop"] != bodies["c_any"]:
        problems += 1
        print("guard loop and any() differ:\n%s\n---\n%s" % (bodies["c_loop"], bodies["c_any"]))
    # an unsound deferral must be refused
    try:
        P.Translator2N(rules()).function(bad_temp, {"xs": "xs", "n": "n"}, ind=1)
        problems += 1
        print("bad_temp: a temporary whose variable is reassigned before its use was substituted")
    except P.Untranslatable:
        pass
    expect = []

    def fmt(v):
        if isinstance(v, bool):
            return "true" if v else "false"
        if isinstance(v, tuple):
            return "(" + ", ".join(fmt(x) for x in v) + ")"
        return str(v)

    def ll(xs):
        return "[" + ", ".join("(%d : Int)" % x for x in xs) + "]"

    def ev(lean, value):
        text.append("#eval " + lean)
        expect.append((lean, value))

    for v in ([], [1, 2], [5]):
        for k in (0, 3):
            for flag in (True, False):
                for f in (a_plain, a_helper):
                    ev("%s %s (%d) %s" % (f.__name__, ll(v), k, fmt(flag)), fmt(f(v, k, flag)))
    for xs in ([], [1, 2, 3], [4, -1, 6, 2]):
        for n in (0, 1, 5):
            for f in (b_plain, b_temp):
                ev("%s %s (%d)" % (f.__name__, ll(xs), n), fmt(f(xs, n)))
        for f in (c_loop, c_any):
            try:
                r = "ok " + fmt(f(xs))
            except ValueError:
                r = "err Exc.valueE"
            ev("showE (%s %s)" % (f.__name__, ll(xs)), r)
    for first in (True, False):
        for f in (d_ifexp, d_ifelse):
            ev("%s (Box.mk [1] 0, Box.mk [2, 3] 0) %s" % (f.__name__, fmt(first)), fmt(f((Box([1]), Box([2, 3])), first)))
    for x in (0, 3, 4, 9):
        for f in (e_else, e_early):
            ev("%s (%d)" % (f.__name__, x), fmt(f(x)))
    d = tempfile.mkdtemp()
    fpath = os.path.join(d, "T.lean")
    open(fpath, "w").write("\n".join(text))
    r = subprocess.run(["lake", "env", "lean", fpath], cwd=os.path.join(ROOT, "lean"), capture_output=True, text=True)
    out = [l for l in r.stdout.splitlines() if l.strip()]
    if r.returncode != 0:
        print(r.stdout[-3000:], r.stderr[-2000:])
        print(open(fpath).read()[:9000])
        return 1
    bad = 0
    for (lean, v), line in zip(expect, out):
        if line.strip().strip('"').replace(" ", "") != v.replace(" ", ""):
            bad += 1
            print("DISAGREE", lean, "python", v, "lean", line)
    print("py2lean2n self-test: %d evaluations, %d disagreements, %d lean output lines, %d structural problems" % (
        len(expect), bad, len(out), problems))
    import shutil
    shutil.rmtree(d)
    return 1 if bad or problems or len(out) != len(expect) else 0


if __name__ == "__main__":
    sys.exit(main())
