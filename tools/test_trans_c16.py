#!/venv/bin/python
"""tools/test_trans_c16.py — self-test of the generic part of harness/trans_c16.py (`Translator16`, the extension of
py2lean2.Translator2 used for C16): sample functions with while loops (fuel), truthiness, `is None`, try/except with a
return inside, raise, hoisted monadic operands, binds inside loop bodies (exit component), `with`, multi-target rules
and `not in` are translated, the Lean text is type-checked and `#eval` of the translation is compared with Python on
a grid of inputs.  Exit 0 iff everything agrees."""
import os
import subprocess
import sys
import tempfile

ROOT = os.path.dirname(os.path.dirname(os.path.abspath(__file__)))
sys.path.insert(0, ROOT)
from harness import trans_c16 as T


class Boom(Exception):
    pass


def head(xs):
    if not xs:
        raise IndexError("empty")
    return xs[0]


def f_while_find(xs, k):
    found = -1
    rest = xs
    while found < 0 and rest:
        cand = rest.pop(0)
        if cand > k:
            found = cand
    if found < 0:
        raise ValueError("none")
    return found


def f_try_return(xs):
    try:
        return head(xs) + 1
    except IndexError:
        return -1


def f_try_fall(xs, k):
    try:
        first = head(xs)
    except IndexError:
        first = k
    if first not in xs:
        return first * 2
    return first


def f_loop_bind(xss):
    total = 0
    for xs in xss:
        total += head(xs)
    return total


def f_truthy(xs, flag, opt):
    n = 0
    if xs:
        n += 1
    if flag and not opt:
        n += 10
    if opt is not None:
        n += 100
    return n if xs or flag else -n - 1


def f_while_pop(xs):
    cur = head(xs)
    steps = 0
    while not cur > 3:
        cur = xs.pop(0)
        steps += 1
    return steps * 100 + cur


def f_with(xs):
    with opened(xs) as h:
        s = 0
        for x in h:
            if x == 0:
                break
            s += x
    return s


class opened:
    """a context manager that hands out the list (a `withs` rule stands for it in the translation)"""

    def __init__(self, xs):
        self.xs = xs

    def __enter__(self):
        return self.xs

    def __exit__(self, *a):
        return False


def helper_sum(xs, start=0):
    total = start
    for x in xs:
        if x == 9:
            raise ValueError("nine")
        total += head([x])
    return total


def f_inline(xs, k):
    if k in (2, 4):
        s = helper_sum(xs, start=k)
    else:
        s = helper_sum(xs)
    return s + 1


class Over(ValueError):
    pass


def f_subclass(xs, k):
    try:
        if k in xs:
            raise Over("exists")
        first = head(xs)
    except ValueError:          # also catches Over, a subclass
        first = -7
    return first


EXC = {"IndexError": "Ex.index", "ValueError": "Ex.value", "Over": "Ex.over"}


def E(**kw):
    kw.setdefault("ret", ".ok ({e})")
    kw.setdefault("exc", EXC)
    kw.setdefault("diverge", ".error Ex.fuel")
    kw.setdefault("exc_parents", {"Over": ["ValueError"]})
    kw.setdefault("expr", [])
    kw["expr"] = list(kw["expr"]) + [("head($x)", "(hd {x})", "bind")]
    return T.Rules16(**kw)


POP = [("$x = $l.pop(0)", [("x", "(({l}).headD 0)"), ("l", "(({l}).tail)")])]
POPM = [("$x = $l.pop(0)", [("x", "{_}.1"), ("l", "{_}.2")], "(pop {l})")]
LI = "List Int"
CASES = [
    (f_while_find, "(xs : %s) (k : Int) : Except Ex Int" % LI, {"xs": "xs", "k": "k"},
     E(multi=POP, fuel="(xs.length + 1)"), "xk"),
    (f_try_return, "(xs : %s) : Except Ex Int" % LI, {"xs": "xs"}, E(end=".ok 0"), "x"),
    (f_try_fall, "(xs : %s) (k : Int) : Except Ex Int" % LI, {"xs": "xs", "k": "k"},
     E(expr=[("$a in $l", "(({l}).contains {a})", "bool")]), "xk"),
    (f_loop_bind, "(xss : List (%s)) : Except Ex Int" % LI, {"xss": "xss"}, E(), "xx"),
    (f_truthy, "(xs : %s) (flag : Bool) (opt : Option Int) : Except Ex Int" % LI, {"xs": "xs", "flag": "flag", "opt": "opt"},
     E(), "xfo"),
    (f_while_pop, "(xs : %s) : Except Ex Int" % LI, {"xs": "xs"}, E(multi=POPM, fuel="(xs.length + 1)"), "x"),
    (f_with, "(xs : %s) : Except Ex Int" % LI, {"xs": "xs"}, E(withs=[("opened($x)", "{x}")]), "x"),
    # `except ValueError` catches a subclass the vocabulary knows
    (f_subclass, "(xs : %s) (k : Int) : Except Ex Int" % LI, {"xs": "xs", "k": "k"},
     E(expr=[("$a in $l", "(({l}).contains {a})", "bool")]), "xk"),
    # a helper of the same module without a rule: translated and inlined at both call sites; `k in (2, 4)`
    (f_inline, "(xs : %s) (k : Int) : Except Ex Int" % LI, {"xs": "xs", "k": "k"}, E(expr=[("[$x]", "[{x}]")]), "xk"),
]
LISTS = [[], [1], [5], [2, 4], [3, 1, 4, 1, 5], [6, 2, 9, 0, 7], [0, 0], [-1, 3, 8]]
KS = [0, 2, 4, 9]
PRELUDE = """import MenpoModel.Core.C16PyX
open MenpoModel.C16 MenpoModel.C16.PyX
set_option linter.unusedVariables false
inductive Ex where | index | value | fuel | over deriving DecidableEq, Repr
def hd (l : List Int) : Except Ex Int := match l with | [] => .error .index | a :: _ => .ok a
def pop (l : List Int) : Except Ex (Int × List Int) := match l with | [] => .error .index | a :: t => .ok (a, t)
def show_ (r : Except Ex Int) : String := match r with | .ok v => s!"ok {v}" | .error .index => "IndexError" | .error .value => "ValueError" | .error .fuel => "fuel" | .error .over => "Over"
"""


def lean_list(xs):
    return "[" + ", ".join("(%d : Int)" % x for x in xs) + "]"


def main():
    text = [PRELUDE]
    expect = []
    for fn, sig, args, rules, shape in CASES:
        body = T.Translator16(rules).function(fn, args, ind=1)
        text.append("def %s %s :=\n%s\n" % (fn.__name__, sig, body))
        if shape == "x":
            combos = [(xs,) for xs in LISTS]
        elif shape == "xk":
            combos = [(xs, k) for xs in LISTS for k in KS]
        elif shape == "xx":
            combos = [([a, b],) for a in LISTS[:5] for b in LISTS[:5]] + [([],)]
        else:
            combos = [(xs, f, o) for xs in LISTS[:4] for f in (True, False) for o in (None, 3)]
        for c in combos:
            try:
                v = "ok %d" % fn(*[list(map(list, x)) if shape == "xx" and isinstance(x, list) else
                                   (list(x) if isinstance(x, list) else x) for x in c])
            except IndexError:
                v = "IndexError"
            except ValueError:
                v = "ValueError"
            expect.append((fn.__name__, c, v))

            def lit(x):
                if isinstance(x, bool):
                    return "true" if x else "false"
                if x is None:
                    return "none"
                if isinstance(x, list) and x and isinstance(x[0], list) or (shape == "xx" and isinstance(x, list)):
                    return "[" + ", ".join(lean_list(y) for y in x) + "]"
                if isinstance(x, list):
                    return lean_list(x)
                if shape == "xfo" and isinstance(x, int):
                    return "(some %d)" % x
                return "(%d)" % x
            text.append("#eval show_ (%s %s)" % (fn.__name__, " ".join(lit(x) for x in c)))
    d = tempfile.mkdtemp()
    f = os.path.join(d, "T.lean")
    open(f, "w").write("\n".join(text))
    r = subprocess.run(["lake", "env", "lean", f], cwd=os.path.join(ROOT, "lean"), capture_output=True, text=True)
    out = [l.strip().strip('"') for l in r.stdout.splitlines() if l.strip()]
    if r.returncode != 0:
        errs = [l for l in r.stdout.splitlines() if "error" in l and "Aborting evaluation" not in l]
        print("\n".join(errs[:20]) or r.stdout[:3000], r.stderr[-2000:])
        print(open(f).read()[:6000])
        return 1
    bad = 0
    for (name, c, v), line in zip(expect, out):
        if v != line:
            bad += 1
            print("DISAGREE", name, c, "python", v, "lean", line)
    print("trans_c16 self-test: %d evaluations, %d disagreements, %d lean output lines" % (len(expect), bad, len(out)))
    import shutil
    shutil.rmtree(d)
    return 1 if bad or len(out) != len(expect) else 0


sys.exit(main())
