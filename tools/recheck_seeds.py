#!/venv/bin/python
"""tools/recheck_seeds.py <property> [seed ids…]  -  re-run the property's quick check (VERIF_SEED, default 0) on every archived
seeded change of that property (patch applied in a scratch worktree; the baseline suite and the demonstration were
confirmed when the change was archived and are not repeated) and print which ones are still detected.  One process per
property may run in parallel; never two for the same property."""
import json, os, subprocess, sys, tempfile, shutil
ROOT = os.path.dirname(os.path.dirname(os.path.abspath(__file__)))
pid = sys.argv[1]
ids = sys.argv[2:] or sorted(d for d in os.listdir(os.path.join(ROOT, "seeded")) if d.startswith(pid + "-"))
seed = os.environ.get("VERIF_SEED", "0")
res = {}
for sid in ids:
    patch = os.path.join(ROOT, "seeded", sid, "patch.diff")
    wt = tempfile.mkdtemp(prefix="wt-rs-", dir="/tmp")
    os.rmdir(wt)
    subprocess.run(["git", "-C", "/repo", "worktree", "add", "-q", wt, "HEAD"], check=True)
    try:
        if subprocess.run(["git", "-C", wt, "apply", patch], stderr=subprocess.DEVNULL).returncode != 0:
            res[sid] = "patch-does-not-apply (superseded by a later fix in /repo?)"
            continue
        save = tempfile.mkdtemp(prefix="rs-save-", dir="/tmp")
        gen = [f for f in os.listdir(os.path.join(ROOT, "lean/MenpoModel/Generated")) if f.startswith(pid)]
        files = ["evidence/%s.json" % pid] + ["lean/MenpoModel/Generated/" + f for f in gen]
        subprocess.run(["tar", "cf", os.path.join(save, "s.tar")] + files, cwd=ROOT)
        env = dict(os.environ, MENPO_REPO=wt, VERIF_SEED=seed)
        p = subprocess.run([os.path.join(ROOT, "check"), pid, "--tier", "quick"], cwd=ROOT, env=env,
                           stdout=subprocess.PIPE, stderr=subprocess.STDOUT, text=True)
        vio = [l for l in p.stdout.splitlines() if l.startswith("VIOLATION")]
        if p.returncode == 1 and any("no-failing-input-found" not in l for l in vio):
            res[sid] = "detected-with-input"
        elif p.returncode == 1:
            res[sid] = "detected-no-failing-input-found"
        elif p.returncode == 0:
            res[sid] = "MISSED"
        else:
            res[sid] = "INFRA: " + (p.stdout.splitlines()[-1] if p.stdout else "")[:120]
        subprocess.run(["tar", "xf", os.path.join(save, "s.tar")], cwd=ROOT)
        shutil.rmtree(save)
    finally:
        subprocess.run(["git", "-C", "/repo", "worktree", "remove", "--force", wt])
print(pid, json.dumps(res, sort_keys=True), flush=True)
