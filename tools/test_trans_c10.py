#!/venv/bin/python
"""tools/test_trans_c10.py — self-test of the call binding of harness/trans_c10.py (`CallRule`: a call site is bound to
the callee's parameter NAMES through the callee's live `def`): for a grid of call shapes (positional, keyword in any
order, defaults) the binding computed by the translator is the one `inspect.signature(callee).bind` computes, calls
Python rejects are `Untranslatable`, and the translated text of a call only depends on that binding.  Python only
(the Lean side is exercised by `./check C10`).  Exit 0 iff everything agrees."""
import ast, inspect, itertools, os, sys
ROOT = os.path.dirname(os.path.dirname(os.path.abspath(__file__)))
sys.path.insert(0, ROOT)
from harness import py2lean2, trans_c10 as T


def callee(self, samples, centre=True, n_samples=None, max_n_components=None, inplace=True):
    pass


def run():
    rule = T.CallRule("K.__init__", lambda: callee, "f {self} {samples} {centre} {n_samples} {max_n_components} {inplace}")
    tr = T.TranslatorK(py2lean2.Rules2M(float_=T.float_const), [rule])
    names = ["centre", "n_samples", "max_n_components", "inplace"]
    scope = {n: "v_" + n for n in ["self", "data"] + names}
    n_ok = n_bad = 0
    texts = {}
    for npos in range(0, 5):
        for kws in itertools.chain.from_iterable(itertools.permutations(names, r) for r in range(0, 5)):
            args = ["self", "data"] + names[:npos]
            src = "K.__init__(%s)" % ", ".join(args + ["%s=%s" % (k, k) for k in kws])
            node = ast.parse(src, mode="eval").body
            try:
                ba = inspect.signature(callee).bind(*args, **{k: k for k in kws})
                ba.apply_defaults()
                want = {k: (v if isinstance(v, str) else repr(v)) for k, v in ba.arguments.items()}
            except TypeError:
                want = None
            try:
                text, flag = tr.expr(node, dict(scope))
                got = text
            except py2lean2.Untranslatable:
                got = None
            if (want is None) != (got is None):
                print("MISMATCH (accept/reject):", src, want, got)
                return 1
            if want is None:
                n_bad += 1
                continue
            lean = {"True": "true", "None": "none"}
            expect = "f " + " ".join(("v_" + want[p]) if ("v_" + want[p]) in scope.values() else lean[want[p]]
                                     for p in ["self", "samples", "centre", "n_samples", "max_n_components", "inplace"])
            if got != expect:
                print("MISMATCH (binding):", src, "\n  got   ", got, "\n  expect", expect)
                return 1
            texts.setdefault(tuple(sorted(want.items())), set()).add(got)
            n_ok += 1
    if any(len(v) != 1 for v in texts.values()):
        print("the same binding gave different texts")
        return 1
    # the seeded change C10-5 in one line: positional order (data, centre, max_n_components, n_samples, inplace)
    swapped = tr.expr(ast.parse("K.__init__(self, data, centre, max_n_components, n_samples, inplace)", mode="eval").body,
                      dict(scope))[0]
    keyword = tr.expr(ast.parse("K.__init__(self, data, centre=centre, max_n_components=max_n_components, "
                                "n_samples=n_samples, inplace=inplace)", mode="eval").body, dict(scope))[0]
    if swapped == keyword or "v_max_n_components v_n_samples" not in swapped:
        print("the swapped positional call is not distinguished:", swapped, keyword)
        return 1
    print("test_trans_c10: %d accepted call shapes bound as Python binds them, %d rejected as Python rejects them" % (n_ok, n_bad))
    return 0


if __name__ == "__main__":
    sys.exit(run())
