#!/bin/sh
# tools/try_seed.sh <seed-dir> <property-id>
# Confirms a seeded change in a scratch worktree: applies <seed-dir>/patch.diff, runs the stable baseline (must pass),
# the demonstration with and without the patch (must fail / pass), and the property's quick check (should VIOLATE).
SD="$(cd "$1" && pwd)"; PID="$2"
ROOT="$(cd "$(dirname "$0")/.." && pwd)"
WT=$(mktemp -d /tmp/wt-seed-XXXXXX); rmdir "$WT"
git -C /repo worktree add -q "$WT" HEAD || exit 2
DEMO=$(ls "$SD"/demo* 2>/dev/null | head -1)
echo "== demo WITHOUT patch (expect pass)"; (cd "$WT" && PYTHONPATH="$WT" /venv/bin/python -W ignore "$DEMO" >/tmp/seed-demo-clean.log 2>&1; echo "exit=$?")
git -C "$WT" apply "$SD/patch.diff" || { echo "PATCH DOES NOT APPLY"; git -C /repo worktree remove --force "$WT"; exit 2; }
echo "== baseline with patch (expect 753 of 753)"; "$ROOT/tools/baseline.sh" "$WT"
echo "== demo WITH patch (expect fail)"; (cd "$WT" && PYTHONPATH="$WT" /venv/bin/python -W ignore "$DEMO" >/tmp/seed-demo-patched.log 2>&1; echo "exit=$?"); tail -3 /tmp/seed-demo-patched.log
echo "== check $PID quick on patched tree (expect VIOLATION)"
# the check rewrites Generated/<PID>*.lean and evidence/<PID>.json from the tree it looks at: keep and restore them
SAVE=$(mktemp -d /tmp/seed-save-XXXXXX)
(cd "$ROOT" && tar cf "$SAVE/s.tar" evidence/$PID.json $(ls lean/MenpoModel/Generated/${PID}*.lean 2>/dev/null) 2>/dev/null)
for s in ${SEEDS:-0 1 2}; do (cd "$ROOT" && MENPO_REPO="$WT" VERIF_SEED=$s ./check "$PID" --tier quick 2>&1 | grep -v KNOWN-FINDING | tail -2); done
(cd "$ROOT" && tar xf "$SAVE/s.tar"); rm -rf "$SAVE"
git -C /repo worktree remove --force "$WT"
rm -f /tmp/seed-demo-clean.log /tmp/seed-demo-patched.log
