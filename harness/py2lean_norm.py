"""py2lean_norm — behaviour-preserving NORMALISATION of a function's AST before it is translated by harness/py2lean.py /
py2lean2.py (generic, independent of any property; written for C03, sibling module so that the shared translators
stay untouched).

A maintainer's tidy-up must not break the translator tie: what the source MEANS is unchanged, so what the translator
emits should be (provably) the same function.  `normalised(fn, has_rule)` returns the `ast.FunctionDef` of `fn` after

  * helper inlining      a call of a module-level function of the package (found in `fn.__globals__`, source available)
                         for which the vocabulary has no rule is just more source to translate: the statement that
                         contains the call  (`x = C[h(a, b)]`, `return C[h(a, b)]`, `raise h(a, b)`, a bare call)  is
                         replaced by the helper's body in tail form — every control path of the helper ends in a
                         `return e`, which becomes the original statement with the call replaced by `e` (so
                         `_common_family(self, t)(self.h_matrix)` becomes `Similarity(self.h_matrix)` in one arm,
                         `Affine(self.h_matrix)` in the next, …).  Parameters are replaced by the argument expressions
                         (only names, attribute chains and constants are accepted as arguments: they can be duplicated),
                         locals of the helper are renamed.  Helpers may call helpers (bounded depth).
  * loop unrolling       `for v in (A, B, …): body` over a literal tuple / list of names or constants (no `break`,
                         `continue`, `else`) is the body once per element, `v` replaced by the element;
  * `x in (a, b)`        a tuple literal on the right of `in` / `not in` is the list literal;
  * keyword arguments    of every call sorted by name.

Early `return` / guard clauses, `elif` versus `if` after `raise`, merged conditions need no normalisation: the
translators copy the continuation into both arms of an `if` and stop at `return` / `raise`.
`Untranslatable` is never raised here: what cannot be normalised is left as it is (and then has no rule).
"""
import ast
import copy
import inspect
import textwrap
import types

MAX_DEPTH = 4


def _simple(e):
    """an argument expression that may be duplicated: a name, an attribute chain, a constant"""
    if isinstance(e, (ast.Name, ast.Constant)):
        return True
    if isinstance(e, ast.Attribute):
        return _simple(e.value)
    return False


class _Subst(ast.NodeTransformer):
    def __init__(self, env):
        self.env = env

    def visit_Name(self, node):
        if node.id in self.env:
            return copy.deepcopy(self.env[node.id])
        return node


def _strip_doc(body):
    body = list(body)
    if body and isinstance(body[0], ast.Expr) and isinstance(body[0].value, ast.Constant) and isinstance(body[0].value.value, str):
        body = body[1:]
    return body


def _terminates(stmts):
    """does every control path through the statement list end in return / raise?"""
    for st in stmts:
        if isinstance(st, (ast.Return, ast.Raise)):
            return True
        if isinstance(st, ast.If) and st.orelse and _terminates(st.body) and _terminates(st.orelse):
            return True
    return False


def _tailify(stmts):
    """the statement list as a tree in which every path ends in `return` / `raise` (None: some path falls off the
    end, or a statement form that is not understood)"""
    if not stmts:
        return None
    st, rest = stmts[0], list(stmts[1:])
    if isinstance(st, (ast.Return, ast.Raise)):
        return [st]
    if isinstance(st, ast.If):
        a = _tailify(list(st.body) if _terminates(st.body) else list(st.body) + rest)
        b = _tailify(list(st.orelse) if (st.orelse and _terminates(st.orelse)) else list(st.orelse) + rest)
        if a is None or b is None:
            return None
        return [ast.If(test=st.test, body=a, orelse=b)]
    if isinstance(st, (ast.For, ast.While, ast.Try, ast.With, ast.FunctionDef, ast.ClassDef)):
        return None
    t = _tailify(rest)
    return None if t is None else [st] + t


def _replace_returns(stmts, make):
    out = []
    for st in stmts:
        if isinstance(st, ast.Return):
            if st.value is None:
                return None
            out.append(make(st.value))
        elif isinstance(st, ast.If):
            a, b = _replace_returns(st.body, make), _replace_returns(st.orelse, make)
            if a is None or b is None:
                return None
            out.append(ast.If(test=st.test, body=a, orelse=b))
        else:
            out.append(st)
    return out


def _unroll(stmts):
    out = []
    for st in stmts:
        if isinstance(st, ast.If):
            st = ast.If(test=st.test, body=_unroll(st.body), orelse=_unroll(st.orelse))
        if (isinstance(st, ast.For) and not st.orelse and isinstance(st.target, ast.Name)
                and isinstance(st.iter, (ast.Tuple, ast.List)) and st.iter.elts
                and all(isinstance(e, (ast.Name, ast.Constant)) for e in st.iter.elts)
                and not any(isinstance(n, (ast.Break, ast.Continue)) for b in st.body for n in ast.walk(b))
                and not any(isinstance(n, ast.Name) and n.id == st.target.id and isinstance(n.ctx, ast.Store)
                            for b in st.body for n in ast.walk(b))):
            for e in st.iter.elts:
                for b in _unroll(st.body):
                    out.append(_Subst({st.target.id: e}).visit(copy.deepcopy(b)))
            continue
        out.append(st)
    return out


class _Cosmetic(ast.NodeTransformer):
    def visit_Call(self, node):
        self.generic_visit(node)
        if all(k.arg is not None for k in node.keywords):
            node.keywords.sort(key=lambda k: k.arg)
        return node

    def visit_Compare(self, node):
        self.generic_visit(node)
        for i, (op, c) in enumerate(zip(node.ops, node.comparators)):
            if isinstance(op, (ast.In, ast.NotIn)) and isinstance(c, ast.Tuple):
                node.comparators[i] = ast.List(elts=c.elts, ctx=ast.Load())
        return node


def _helper(name, globals_):
    f = globals_.get(name)
    if not isinstance(f, types.FunctionType):
        return None
    if not (getattr(f, "__module__", "") or "").startswith("menpo"):
        return None
    try:
        node = ast.parse(textwrap.dedent(inspect.getsource(f))).body[0]
    except (OSError, TypeError, SyntaxError, IndexError):
        return None
    a = node.args
    if not isinstance(node, ast.FunctionDef) or a.vararg or a.kwarg or a.kwonlyargs or a.posonlyargs or a.defaults:
        return None
    return node, f.__globals__


_counter = [0]


def _inline_body(call, globals_, has_rule, depth):
    """([stmts in tail form, every leaf a Return], ) for the helper call, or None"""
    if not isinstance(call.func, ast.Name) or call.keywords:
        return None
    h = _helper(call.func.id, globals_)
    if h is None:
        return None
    node, hglobals = h
    params = [x.arg for x in node.args.args]
    if len(params) != len(call.args) or not all(_simple(a) for a in call.args):
        return None
    body = _norm_stmts(_strip_doc(node.body), hglobals, has_rule, depth + 1)
    stored = {n.id for b in body for n in ast.walk(b) if isinstance(n, ast.Name) and isinstance(n.ctx, ast.Store)}
    if stored & set(params):
        return None                      # the helper rebinds a parameter: leave it alone
    _counter[0] += 1
    env = dict(zip(params, call.args))
    rename = {n: "%s_h%d" % (n, _counter[0]) for n in stored}

    class Inl(ast.NodeTransformer):
        def visit_Name(self, node):
            if node.id in rename:
                return ast.Name(id=rename[node.id], ctx=node.ctx)
            if node.id in env:
                return copy.deepcopy(env[node.id])
            return node
    body = [Inl().visit(copy.deepcopy(b)) for b in body]
    return _tailify(body)


def _find_call(expr, globals_, has_rule):
    """the first call of an inlinable helper inside the expression (outermost first), or None"""
    if expr is None:
        return None
    for n in ast.walk(expr):
        if isinstance(n, ast.Call) and isinstance(n.func, ast.Name) and not has_rule(n) and _helper(n.func.id, globals_):
            return n
    return None


def _with_call_replaced(st, call, e):
    class R(ast.NodeTransformer):
        def visit_Call(self, node):
            if node is call_copy[0]:
                return copy.deepcopy(e)
            self.generic_visit(node)
            return node
    # deep copy the statement, remembering which copy corresponds to `call`
    memo = {}
    st2 = copy.deepcopy(st, memo)
    call_copy = [memo.get(id(call))]
    if call_copy[0] is None:
        return None
    return R().visit(st2)


def _norm_stmts(stmts, globals_, has_rule, depth=0):
    stmts = _unroll(list(stmts))
    out = []
    for st in stmts:
        if isinstance(st, ast.If):
            st = ast.If(test=st.test, body=_norm_stmts(st.body, globals_, has_rule, depth),
                        orelse=_norm_stmts(st.orelse, globals_, has_rule, depth))
            out.append(st)
            continue
        if isinstance(st, ast.For):
            st = ast.For(target=st.target, iter=st.iter, body=_norm_stmts(st.body, globals_, has_rule, depth),
                         orelse=st.orelse)
            out.append(st)
            continue
        expr = st.value if isinstance(st, (ast.Assign, ast.Return, ast.Expr, ast.AugAssign)) else \
            st.exc if isinstance(st, ast.Raise) else None
        call = _find_call(expr, globals_, has_rule) if depth < MAX_DEPTH else None
        if call is None:
            out.append(st)
            continue
        tail = _inline_body(call, globals_, has_rule, depth)
        new = None
        if tail is not None:
            new = _replace_returns(tail, lambda e: _with_call_replaced(st, call, e))
        if new is None:
            out.append(st)
        else:
            # the inlined statements may contain further helper calls
            out.extend(_norm_stmts(new, globals_, has_rule, depth + 1))
    return out


def normalised(fn, has_rule=lambda call: False):
    """`ast.FunctionDef` of the live function `fn`, normalised (see the module docstring).  `has_rule(call_node)` says
    whether the vocabulary of the caller has a word for that call (then it is not inlined)."""
    f = getattr(fn, "__func__", fn)
    src = textwrap.dedent(inspect.getsource(f))
    node = ast.parse(src).body[0]
    if not isinstance(node, ast.FunctionDef):
        return node
    node.body = _norm_stmts(_strip_doc(node.body), getattr(f, "__globals__", {}), has_rule, 0)
    node = _Cosmetic().visit(node)
    ast.fix_missing_locations(node)
    return node
