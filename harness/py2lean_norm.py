"""py2lean_norm — behaviour-preserving NORMALISATION of a function's AST before it is translated by harness/py2lean.py /
py2lean2.py (generic, independent of any property; written for C03, sibling module so that the shared translators
stay untouched).

A maintainer's tidy-up must not break the translator tie: what the source MEANS is unchanged, so what the translator
emits should be (provably) the same function.  `normalised(fn, has_rule)` returns the `ast.FunctionDef` of `fn` after

  * helper inlining      a call of a module-level function of the package (found in `fn.__globals__`, source available)
                         for which the vocabulary has no rule is just more source to translate: the statement that
                         contains the call  (`x = C[h(a, b)]`, `return C[h(a, b)]`, `raise h(a, b)`, a bare call)  is
                         replaced by the helper's body in tail form — every control path of the helper ends in a
                         `return e`, which becomes the original statement with the call replaced by `e` (so
                         `_common_family(self, t)(self.h_matrix)` becomes `Similarity(self.h_matrix)` in one arm,
                         `Affine(self.h_matrix)` in the next, …).  Parameters are replaced by the argument expressions
                         (only names, attribute chains and constants are accepted as arguments: they can be duplicated),
                         locals of the helper are renamed.  Helpers may call helpers (bounded depth).
  * loop unrolling       `for v in (A, B, …): body` over a literal tuple / list of names or constants (no `break`,
                         `continue`, `else`) is the body once per element, `v` replaced by the element;
  * `x in (a, b)`        a tuple literal on the right of `in` / `not in` is the list literal;
  * keyword arguments    of every call sorted by name;
  * lookup tables        `x = {k: v, …}.get(e)` / `{…}[e]` with literal keys is the if-chain it replaces (continuation
                         copied into every arm, a literal value propagated and folded: `2 + 1`, `2 is None`, dead arms);
  * expression helpers   a helper whose body is `return <expr>` is that expression wherever it is called; a helper that
                         returns nothing, called as a statement, is its body;
  * local temporaries    (only on request, `inline_temps=True`: the translators retry with it when the plain form has
                         no rule) a temporary bound once to a call-free projection is its definition.

Early `return` / guard clauses, `elif` versus `if` after `raise`, merged conditions need no normalisation: the
translators copy the continuation into both arms of an `if` and stop at `return` / `raise`.
`Untranslatable` is never raised here: what cannot be normalised is left as it is (and then has no rule).
"""
import ast
import copy
import inspect
import textwrap
import types

MAX_DEPTH = 4


def _simple(e):
    """an argument expression that may be duplicated: a name, an attribute chain, a constant"""
    if isinstance(e, (ast.Name, ast.Constant)):
        return True
    if isinstance(e, ast.Attribute):
        return _simple(e.value)
    return False


class _Subst(ast.NodeTransformer):
    def __init__(self, env):
        self.env = env

    def visit_Name(self, node):
        if node.id in self.env and isinstance(node.ctx, ast.Load):
            return copy.deepcopy(self.env[node.id])
        return node


def _strip_doc(body):
    body = list(body)
    if body and isinstance(body[0], ast.Expr) and isinstance(body[0].value, ast.Constant) and isinstance(body[0].value.value, str):
        body = body[1:]
    return body


def _terminates(stmts):
    """does every control path through the statement list end in return / raise?"""
    for st in stmts:
        if isinstance(st, (ast.Return, ast.Raise)):
            return True
        if isinstance(st, ast.If) and st.orelse and _terminates(st.body) and _terminates(st.orelse):
            return True
    return False


def _tailify(stmts):
    """the statement list as a tree in which every path ends in `return` / `raise` (None: some path falls off the
    end, or a statement form that is not understood)"""
    if not stmts:
        return None
    st, rest = stmts[0], list(stmts[1:])
    if isinstance(st, (ast.Return, ast.Raise)):
        return [st]
    if isinstance(st, ast.If):
        a = _tailify(list(st.body) if _terminates(st.body) else list(st.body) + rest)
        b = _tailify(list(st.orelse) if (st.orelse and _terminates(st.orelse)) else list(st.orelse) + rest)
        if a is None or b is None:
            return None
        return [ast.If(test=st.test, body=a, orelse=b)]
    if isinstance(st, (ast.For, ast.While, ast.Try, ast.With, ast.FunctionDef, ast.ClassDef)):
        return None
    t = _tailify(rest)
    return None if t is None else [st] + t


def _replace_returns(stmts, make):
    out = []
    for st in stmts:
        if isinstance(st, ast.Return):
            if st.value is None:
                return None
            out.append(make(st.value))
        elif isinstance(st, ast.If):
            a, b = _replace_returns(st.body, make), _replace_returns(st.orelse, make)
            if a is None or b is None:
                return None
            out.append(ast.If(test=st.test, body=a, orelse=b))
        else:
            out.append(st)
    return out


def _unroll(stmts):
    out = []
    for st in stmts:
        if isinstance(st, ast.If):
            st = ast.If(test=st.test, body=_unroll(st.body), orelse=_unroll(st.orelse))
        if (isinstance(st, ast.For) and not st.orelse and isinstance(st.target, ast.Name)
                and isinstance(st.iter, (ast.Tuple, ast.List)) and st.iter.elts
                and all(isinstance(e, (ast.Name, ast.Constant)) for e in st.iter.elts)
                and not any(isinstance(n, (ast.Break, ast.Continue)) for b in st.body for n in ast.walk(b))
                and not any(isinstance(n, ast.Name) and n.id == st.target.id and isinstance(n.ctx, ast.Store)
                            for b in st.body for n in ast.walk(b))):
            for e in st.iter.elts:
                for b in _unroll(st.body):
                    out.append(_Subst({st.target.id: e}).visit(copy.deepcopy(b)))
            continue
        out.append(st)
    return out


class _Cosmetic(ast.NodeTransformer):
    def visit_Call(self, node):
        self.generic_visit(node)
        if all(k.arg is not None for k in node.keywords):
            node.keywords.sort(key=lambda k: k.arg)
        return node

    def visit_Compare(self, node):
        self.generic_visit(node)
        for i, (op, c) in enumerate(zip(node.ops, node.comparators)):
            if isinstance(op, (ast.In, ast.NotIn)) and isinstance(c, ast.Tuple):
                node.comparators[i] = ast.List(elts=c.elts, ctx=ast.Load())
        return node


class _Fold(ast.NodeTransformer):
    """constant folding: integer arithmetic on literals, `<literal> is None`, `not <literal>`"""

    def visit_BinOp(self, node):
        self.generic_visit(node)
        l, r = node.left, node.right
        if (isinstance(l, ast.Constant) and isinstance(r, ast.Constant) and type(l.value) is int and type(r.value) is int):
            if isinstance(node.op, ast.Add):
                return ast.Constant(value=l.value + r.value)
            if isinstance(node.op, ast.Sub):
                return ast.Constant(value=l.value - r.value)
            if isinstance(node.op, ast.Mult):
                return ast.Constant(value=l.value * r.value)
        return node

    def visit_Compare(self, node):
        self.generic_visit(node)
        if (len(node.ops) == 1 and isinstance(node.ops[0], (ast.Is, ast.IsNot)) and isinstance(node.left, ast.Constant)
                and isinstance(node.comparators[0], ast.Constant) and node.comparators[0].value is None):
            v = node.left.value is None
            return ast.Constant(value=v if isinstance(node.ops[0], ast.Is) else not v)
        return node


def _fold_ifs(stmts):
    """`if True:` / `if False:` with a literal test is its live arm"""
    out = []
    for st in stmts:
        if isinstance(st, ast.If):
            body, orelse = _fold_ifs(st.body), _fold_ifs(st.orelse)
            if isinstance(st.test, ast.Constant) and isinstance(st.test.value, bool):
                out.extend(body if st.test.value else orelse)
                continue
            st = ast.If(test=st.test, body=body or [ast.Pass()], orelse=orelse)
        out.append(st)
        if isinstance(st, (ast.Return, ast.Raise)):
            break                       # what follows is dead
    return out


def _no_calls(e):
    return not any(isinstance(n, (ast.Call, ast.Await, ast.Yield, ast.YieldFrom, ast.NamedExpr)) for n in ast.walk(e))


def _table_lookup(st):
    """`x = {k: v, …}.get(e[, default])` / `x = {k: v, …}[e]` with literal keys and call-free `e` ->
    (x, e, [(k, v)], default expression or None for KeyError), else None"""
    if not (isinstance(st, ast.Assign) and len(st.targets) == 1 and isinstance(st.targets[0], ast.Name)):
        return None
    v = st.value
    if (isinstance(v, ast.Call) and isinstance(v.func, ast.Attribute) and v.func.attr == "get"
            and isinstance(v.func.value, ast.Dict) and not v.keywords and len(v.args) in (1, 2)):
        d, e = v.func.value, v.args[0]
        default = v.args[1] if len(v.args) == 2 else ast.Constant(value=None)
    elif isinstance(v, ast.Subscript) and isinstance(v.value, ast.Dict):
        d, e, default = v.value, v.slice, None
    else:
        return None
    if not d.keys or not all(isinstance(k, ast.Constant) for k in d.keys) or not _no_calls(e) \
            or not all(_no_calls(x) for x in d.values) or (default is not None and not _no_calls(default)):
        return None
    return st.targets[0].id, e, list(zip(d.keys, d.values)), default


def _rebinds(stmts, name):
    return any(isinstance(n, ast.Name) and n.id == name and isinstance(n.ctx, ast.Store) for b in stmts for n in ast.walk(b))


def _expand_lookup(st, rest):
    """the lookup table as the if-chain it replaces, the continuation copied into every arm; where the selected value
    is a literal (and the variable is not rebound) it is propagated into the arm and folded"""
    t = _table_lookup(st)
    if t is None:
        return None
    x, e, pairs, default = t

    def arm(value):
        cont = [copy.deepcopy(b) for b in rest]
        head = [ast.Assign(targets=[ast.Name(id=x, ctx=ast.Store())], value=copy.deepcopy(value))]
        if isinstance(value, ast.Constant) and not _rebinds(cont, x):
            cont = [_Subst({x: value}).visit(b) for b in cont]
            cont = [_Fold().visit(b) for b in cont]
            head = []
        return _fold_ifs(head + cont) or [ast.Pass()]
    last = arm(default) if default is not None else [ast.Raise(exc=ast.Call(func=ast.Name(id="KeyError", ctx=ast.Load()),
                                                                            args=[], keywords=[]), cause=None)]
    chain = last
    for k, v in reversed(pairs):
        chain = [ast.If(test=ast.Compare(left=copy.deepcopy(e), ops=[ast.Eq()], comparators=[copy.deepcopy(k)]),
                        body=arm(v), orelse=chain)]
    return chain


def _helper(name, globals_):
    f = globals_.get(name)
    if not isinstance(f, types.FunctionType):
        return None
    if not (getattr(f, "__module__", "") or "").startswith("menpo"):
        return None
    try:
        node = ast.parse(textwrap.dedent(inspect.getsource(f))).body[0]
    except (OSError, TypeError, SyntaxError, IndexError):
        return None
    a = node.args
    if not isinstance(node, ast.FunctionDef) or a.vararg or a.kwarg or a.kwonlyargs or a.posonlyargs or a.defaults:
        return None
    return node, f.__globals__


_counter = [0]


def _inline_body(call, globals_, has_rule, depth):
    """([stmts in tail form, every leaf a Return], ) for the helper call, or None"""
    if not isinstance(call.func, ast.Name) or call.keywords:
        return None
    h = _helper(call.func.id, globals_)
    if h is None:
        return None
    node, hglobals = h
    params = [x.arg for x in node.args.args]
    if len(params) != len(call.args) or not all(_simple(a) for a in call.args):
        return None
    body = _norm_stmts(_strip_doc(node.body), hglobals, has_rule, depth + 1)
    stored = {n.id for b in body for n in ast.walk(b) if isinstance(n, ast.Name) and isinstance(n.ctx, ast.Store)}
    if stored & set(params):
        return None                      # the helper rebinds a parameter: leave it alone
    _counter[0] += 1
    env = dict(zip(params, call.args))
    rename = {n: "%s_h%d" % (n, _counter[0]) for n in stored}

    class Inl(ast.NodeTransformer):
        def visit_Name(self, node):
            if node.id in rename:
                return ast.Name(id=rename[node.id], ctx=node.ctx)
            if node.id in env:
                return copy.deepcopy(env[node.id])
            return node
    body = [Inl().visit(copy.deepcopy(b)) for b in body]
    return _tailify(body)


def _inline_procedure(call, globals_, has_rule, depth):
    """a bare call `h(a, b)` of a helper whose body never returns a value: the body itself, parameters replaced"""
    if not isinstance(call.func, ast.Name) or call.keywords:
        return None
    h = _helper(call.func.id, globals_)
    if h is None:
        return None
    node, hglobals = h
    params = [x.arg for x in node.args.args]
    if len(params) != len(call.args) or not all(_simple(a) for a in call.args):
        return None
    body = _strip_doc(node.body)
    if any(isinstance(n, (ast.Return, ast.Yield, ast.YieldFrom)) for b in body for n in ast.walk(b)):
        return None
    stored = {n.id for b in body for n in ast.walk(b) if isinstance(n, ast.Name) and isinstance(n.ctx, ast.Store)}
    if stored & set(params):
        return None
    _counter[0] += 1
    env = dict(zip(params, call.args))
    rename = {n: "%s_h%d" % (n, _counter[0]) for n in stored}

    class Inl(ast.NodeTransformer):
        def visit_Name(self, node):
            if node.id in rename:
                return ast.Name(id=rename[node.id], ctx=node.ctx)
            if node.id in env:
                return copy.deepcopy(env[node.id])
            return node
    return _norm_stmts([Inl().visit(copy.deepcopy(b)) for b in body], hglobals, has_rule, depth + 1)


class _ExprInline(ast.NodeTransformer):
    """a helper whose whole body is `return <expression>` is that expression, wherever it is called (tests of `if`,
    operands of `and` / `or` included: substitution in place keeps the evaluation order)"""

    def __init__(self, globals_, has_rule, depth=0):
        self.g, self.has_rule, self.depth = globals_, has_rule, depth

    def visit_Call(self, node):
        self.generic_visit(node)
        if (self.depth < MAX_DEPTH and isinstance(node.func, ast.Name) and not node.keywords and not self.has_rule(node)):
            h = _helper(node.func.id, self.g)
            if h is not None:
                fnode, hg = h
                body = _strip_doc(fnode.body)
                params = [x.arg for x in fnode.args.args]
                if (len(body) == 1 and isinstance(body[0], ast.Return) and body[0].value is not None
                        and len(params) == len(node.args) and all(_simple(a) for a in node.args)):
                    e = _Subst(dict(zip(params, node.args))).visit(copy.deepcopy(body[0].value))
                    return _ExprInline(hg, self.has_rule, self.depth + 1).visit(e)
        return node


def _find_call(expr, globals_, has_rule):
    """the first call of an inlinable helper inside the expression (outermost first), or None"""
    if expr is None:
        return None
    for n in ast.walk(expr):
        if isinstance(n, ast.Call) and isinstance(n.func, ast.Name) and not has_rule(n) and _helper(n.func.id, globals_):
            return n
    return None


def _with_call_replaced(st, call, e):
    class R(ast.NodeTransformer):
        def visit_Call(self, node):
            if node is call_copy[0]:
                return copy.deepcopy(e)
            self.generic_visit(node)
            return node
    # deep copy the statement, remembering which copy corresponds to `call`
    memo = {}
    st2 = copy.deepcopy(st, memo)
    call_copy = [memo.get(id(call))]
    if call_copy[0] is None:
        return None
    return R().visit(st2)


def _norm_stmts(stmts, globals_, has_rule, depth=0):
    stmts = _unroll(list(stmts))
    stmts = [_ExprInline(globals_, has_rule, depth).visit(st) for st in stmts]
    out = []
    for k, st in enumerate(stmts):
        chain = _expand_lookup(st, stmts[k + 1:])
        if chain is not None:
            out.extend(_norm_stmts(chain, globals_, has_rule, depth))
            return out
        if isinstance(st, ast.Expr) and isinstance(st.value, ast.Call) and not has_rule(st.value) and depth < MAX_DEPTH:
            proc = _inline_procedure(st.value, globals_, has_rule, depth)
            if proc is not None:
                out.extend(proc)
                continue
        if isinstance(st, ast.If):
            st = ast.If(test=st.test, body=_norm_stmts(st.body, globals_, has_rule, depth),
                        orelse=_norm_stmts(st.orelse, globals_, has_rule, depth))
            out.append(st)
            continue
        if isinstance(st, ast.For):
            st = ast.For(target=st.target, iter=st.iter, body=_norm_stmts(st.body, globals_, has_rule, depth),
                         orelse=st.orelse)
            out.append(st)
            continue
        expr = st.value if isinstance(st, (ast.Assign, ast.Return, ast.Expr, ast.AugAssign)) else \
            st.exc if isinstance(st, ast.Raise) else None
        call = _find_call(expr, globals_, has_rule) if depth < MAX_DEPTH else None
        if call is None:
            out.append(st)
            continue
        tail = _inline_body(call, globals_, has_rule, depth)
        new = None
        if tail is not None:
            new = _replace_returns(tail, lambda e: _with_call_replaced(st, call, e))
        if new is None:
            out.append(st)
        else:
            # the inlined statements may contain further helper calls
            out.extend(_norm_stmts(new, globals_, has_rule, depth + 1))
    return out


def _touches(stmts, names):
    """may the statements rebind or mutate one of the names?  (conservative: any store to / through the name, any
    augmented assignment, any bare call statement that mentions it, any `del`)"""
    for b in stmts:
        for n in ast.walk(b):
            if isinstance(n, ast.Name) and n.id in names and isinstance(n.ctx, (ast.Store, ast.Del)):
                return True
            if isinstance(n, (ast.Subscript, ast.Attribute)) and isinstance(n.ctx, (ast.Store, ast.Del)):
                base = n
                while isinstance(base, (ast.Subscript, ast.Attribute)):
                    base = base.value
                if isinstance(base, ast.Name) and base.id in names:
                    return True
            if isinstance(n, ast.Expr) and isinstance(n.value, ast.Call) and \
                    any(isinstance(m, ast.Name) and m.id in names for m in ast.walk(n.value)):
                return True
    return False


def _inline_temps(stmts):
    """a local temporary bound ONCE to a call-free projection (`first = xs[0]`, `n = a.shape[0]`) whose operands are
    neither rebound nor mutated afterwards is its definition, at every later use"""
    out = []
    stmts = list(stmts)
    for k, st in enumerate(stmts):
        if isinstance(st, ast.If):
            st = ast.If(test=st.test, body=_inline_temps(st.body) or [ast.Pass()], orelse=_inline_temps(st.orelse))
        rest = stmts[k + 1:]
        if (isinstance(st, ast.Assign) and len(st.targets) == 1 and isinstance(st.targets[0], ast.Name)
                and isinstance(st.value, (ast.Subscript, ast.Attribute)) and _no_calls(st.value)):
            x = st.targets[0].id
            free = {n.id for n in ast.walk(st.value) if isinstance(n, ast.Name)}
            if x not in free and not _touches(rest, free | {x}):
                new_rest = [_Subst({x: st.value}).visit(copy.deepcopy(b)) for b in rest]
                return out + _inline_temps(new_rest)
        out.append(st)
    return out


def normalised(fn, has_rule=lambda call: False, inline_temps=False):
    """`ast.FunctionDef` of the live function `fn`, normalised (see the module docstring).  `has_rule(call_node)` says
    whether the vocabulary of the caller has a word for that call (then it is not inlined)."""
    f = getattr(fn, "__func__", fn)
    src = textwrap.dedent(inspect.getsource(f))
    node = ast.parse(src).body[0]
    if not isinstance(node, ast.FunctionDef):
        return node
    node.body = _norm_stmts(_strip_doc(node.body), getattr(f, "__globals__", {}), has_rule, 0)
    if inline_temps:
        node.body = _inline_temps(node.body) or [ast.Pass()]
    node = _Cosmetic().visit(node)
    ast.fix_missing_locations(node)
    return node
