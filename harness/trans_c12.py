"""C12 — the Python-level logic of menpo/model/gmrf.py TRANSLATED from the source text of the current working tree into
Lean (`Generated/C12Src.lean`) on every run; `GenProps/C12Src.lean` proves every translated definition equal to the
hand-written Core definition (`Core/C12Src.lean`) the C12 theorems are about, for all arguments.

harness/py2lean2.py + py2lean2w.py + py2lean2t.py are the translator; this file is the C12 vocabulary: which numpy /
scipy expression of gmrf.py stands for which operation of `Core/C12Src.lean`.  Conventions:

  * a 2-D array is a `Mat` (list of rows, rectangular: its width is the length of its first row), a 1-D array a list;
    `np.cov` returns an `Arr` (a 0-dimensional array for a single feature column, a matrix otherwise); what a caller
    hands over as samples / queries is a `PyData` (1-D / 2-D array, list of rows, list of numbers);
  * a graph is a `GraphS` (the rows of `graph.edges` and `graph.n_vertices`);
  * `mode` is a `ModeS` (`'concatenation'`, `'subtraction'`, anything else), `bias` / `sparse` / `incremental` Booleans,
    `n_components` / `n_samples` are `Option Nat`, Python's negative indices are honoured (`count` starts at -1: an `Int`);
  * a function that may raise returns `Except PyErr _`;
  * library calls whose result leaves ℚ or is not determined by the text are PARAMETERS of the translated definitions
    (contracts, checked numerically by the harness): `svd` (np.linalg.svd), `argsort` (ndarray.argsort), `sqrt`
    (np.sqrt); `cinv` is `_covariance_matrix_inverse` itself (the assembly routines are translated for an arbitrary one,
    `__init__` plugs the translated one in); `init_from_covariance_matrix` is recorded as the call it receives;
  * `verbose` is fixed to False (progress printing), `return_covariances` is translated for both of its values
    (`...RC` definitions return the covariances as well); `dtype=` and `shape=` have no effect on exact numbers but are
    carried as the opaque words `asDtype` / `withShape`, so a hard-coded, swapped or dropped one does not prove equal;
  * the translation is value-level: object identity, `.copy()`, aliasing and in-place mutation through an alias are not
    visible to it (`p op= e` on a parameter is refused as untranslatable); numpy's shape / index errors are not modelled.
"""
import os

from . import py2lean2t as P
from .py2lean2 import translate_or_stub

GEN_REL = os.path.join("MenpoModel", "Generated", "C12Src.lean")
GEN_TARGETS = ["MenpoModel.Generated.C12Src", "MenpoModel.GenProps.C12Src"]
N_OBLIGATIONS = 22           # theorems of GenProps/C12Src.lean (one per translated definition)

# ---------------------------------------------------------------------------------------------- the vocabulary

CONSTS = [
    ("'concatenation'", "ModeS.concatenation"),
    ("'subtraction'", "ModeS.subtraction"),
    ("np.float64", "DType.float64"),
    ("np.float32", "DType.float32"),
]

ARRAYS = [
    # allocation
    ("np.zeros(($a, $b, $c), dtype=$d)", "(asDtype {d} (zerosN {a} {b} {c}))"),
    ("np.zeros(($a, $b), dtype=$d)", "(asDtype {d} (zerosRC {a} {b}))"),
    ("np.zeros($s, dtype=$d)", "(asDtype {d} (zeros3 {s}))"),
    ("np.zeros($n)", "(List.replicate {n} (0 : Nat))"),
    # the graph
    ("$g.n_edges", "(GraphS.nEdges {g})"),
    ("$g.n_vertices", "(GraphS.nVertices {g})"),
    ("$g.edges[$e, 0]", "(GraphS.edgeAt {g} {e}).1"),
    ("$g.edges[$e, 1]", "(GraphS.edgeAt {g} {e}).2"),
    ("range($a, $b)", "(pyRange {a} {b})"),
    ("range($n)", "(List.range {n})"),
    # reading columns of the data matrix
    ("list($a) + list($b)", "({a} ++ {b})"),
    ("$X[:, $a:$b]", "(sliceCols {X} {a} {b})"),
    ("$X[:, $i]", "(takeCols {X} {i})"),
    # parts of the inverted covariance
    ("$B[:$b, :$d]", "(slice2 {B} 0 (some {b}) 0 (some {d}))"),
    ("$B[$a:, $c:]", "(slice2 {B} {a} none {c} none)"),
    ("$B[:$b, $c:]", "(slice2 {B} 0 (some {b}) {c} none)"),
    ("$B[$a:, :$d]", "(slice2 {B} {a} none 0 (some {d}))"),
    # statistics
    ("np.cov($D, rowvar=0, bias=$b)", "(npCov {D} {b})"),
    ("_covariance_matrix_inverse($c, $n)", "cinv {c} {n}", "bind"),
    # block-sparse-row assembly
    ("$r.argsort()", "(argsort {r})"),
    ("np.where($r == $i)", "(npWhereEq {r} {i})"),
    ("$x.size > 0", "(!((List.length {x}) == (0)))"),        # a size is never negative: the same test as `not (size == 0)`
    ("$x.size != 0", "(!((List.length {x}) == (0)))"),
    ("$x.size >= 1", "(!((List.length {x}) == (0)))"),
    ("$x.size", "(List.length {x})"),
    ("bsr_matrix(($b, $c, $i), shape=($n, $m), dtype=$d)", "(withShape {n} {m} (asDtype {d} (mkBsr {b} {c} {i})))"),
    ("$x not in $s", "(!(List.contains {s} {x}))"),
    ("$x.shape[0]", "(List.length {x})"),
    # indexing (last: the specific subscripts above win); the index may be a natural, an integer (negative: from
    # the end) or an index array
    ("$l[$i]", "(pyIdx {l} {i})"),
]

ARRAY_STMT = [
    ("$P[$a:$b, $c:$d] += $B", "P", "(addSlice {P} {a} {b} {c} {d} {B})"),
    ("$P[$a:$b, $c:$d] = $B", "P", "(setSlice {P} {a} {b} {c} {d} {B})"),
    ("$A[$i] = $v", "A", "(pySet {A} {i} {v})"),
]

UNWRAP = (".error err", ".error err", ".ok {x}")


def module_helpers():
    """every function defined at the top level of menpo/model/gmrf.py: a call of one of them that no rule of the vocabulary
    knows is inlined at its call site (a helper that a clean-up extracted is just more text of its caller)"""
    import inspect
    from menpo.model import gmrf as G
    return {n: f for n, f in inspect.getmembers(G, inspect.isfunction) if getattr(f, "__module__", None) == G.__name__}


# ---------------------------------------------------------------------------------------------- source normalisation
# `for T in helper(args): BODY` where every path of the helper ends in `return (e1, ..., en)` (a literal tuple / list; the
# helper is a decision tree of if / elif / else and returns) is the helper's decision tree with every return replaced by
# the unrolled iterations `T = e1; BODY; ...; T = en; BODY` (BODY without break / continue).  Parameters are bound with the
# live signature, the helper's names are renamed.  Sound for any such helper: it is what Python executes.

def _tree_ok(stmts):
    """a decision tree: statements are `if` (recursively) and a final `return <literal tuple/list>`"""
    import ast
    if not stmts:
        return False
    for st in stmts[:-1]:
        if not (isinstance(st, ast.If) and _tree_ok(st.body) and (not st.orelse or _tree_ok(st.orelse))):
            return False
    last = stmts[-1]
    if isinstance(last, ast.Return):
        return isinstance(last.value, (ast.Tuple, ast.List)) and not any(isinstance(e, ast.Starred) for e in last.value.elts)
    return isinstance(last, ast.If) and _tree_ok(last.body) and bool(last.orelse) and _tree_ok(last.orelse)


def unroll_literal_loops(fnode, helpers):
    import ast
    import copy
    counter = [0]

    def has_jump(stmts):
        return any(isinstance(n, (ast.Break, ast.Continue, ast.Return)) for st in stmts for n in ast.walk(st))

    def expand(st):
        if not (isinstance(st, ast.For) and not st.orelse and isinstance(st.iter, ast.Call)):
            return None
        key = ast.unparse(st.iter.func)
        if key not in helpers or has_jump(st.body):
            return None
        hnode, _src = P.source_ast(helpers[key])
        body = list(hnode.body)
        if body and isinstance(body[0], ast.Expr) and isinstance(body[0].value, ast.Constant):
            body = body[1:]
        if not _tree_ok(body):
            return None
        try:
            norm = P.normalise_call(st.iter, helpers[key], False, "h")
        except P.Untranslatable:
            return None
        counter[0] += 1
        prefix = "%s_%d_" % (hnode.name.strip("_"), counter[0])
        table = {n: prefix + n for n in P._bound_names(hnode)}
        ren = P._Rename(table)
        out = [ast.Assign(targets=[ast.Name(id=table[kw.arg], ctx=ast.Store())], value=kw.value) for kw in norm.keywords]

        def assign(target, value):
            if isinstance(target, (ast.Tuple, ast.List)) and isinstance(value, (ast.Tuple, ast.List)) \
                    and len(target.elts) == len(value.elts) and all(isinstance(t, ast.Name) for t in target.elts):
                # the right-hand sides do not mention the targets (they are the helper's renamed names)
                return [ast.Assign(targets=[copy.deepcopy(t)], value=v) for t, v in zip(target.elts, value.elts)]
            return [ast.Assign(targets=[copy.deepcopy(target)], value=value)]

        def tree(stmts):
            res = []
            for x in stmts:
                if isinstance(x, ast.If):
                    rest_after = None
                    node = ast.If(test=ren.visit(copy.deepcopy(x.test)), body=tree(x.body), orelse=tree(x.orelse) if x.orelse else [])
                    res.append(node)
                    if not x.orelse:
                        # `if c: return A` followed by more statements: the rest is the else arm
                        idx = stmts.index(x)
                        node.orelse = tree(stmts[idx + 1:])
                        return res
                else:                                   # the final return
                    for e in x.value.elts:
                        res += assign(st.target, ren.visit(copy.deepcopy(e)))
                        res += [copy.deepcopy(b) for b in st.body]
            return res
        out += tree(body)
        for o in out:
            for sub in ast.walk(o):
                ast.copy_location(sub, st)
        return out

    def walk(stmts):
        res = []
        for x in stmts:
            for f in ("body", "orelse", "finalbody"):
                if hasattr(x, f) and isinstance(getattr(x, f), list) and not isinstance(x, (ast.FunctionDef, ast.ClassDef)):
                    setattr(x, f, walk(getattr(x, f)))
            rep = expand(x)
            res += rep if rep is not None else [x]
        return res
    fnode = copy.deepcopy(fnode)
    fnode.body = walk(fnode.body)
    ast.fix_missing_locations(fnode)
    return fnode


def rules(extra_expr=(), stmt=(), names=None, ret=".ok ({e})", raise_=".error .valueError", **kw):
    kw.setdefault("helpers", module_helpers())
    kw.setdefault("refuse_inplace_params", True)
    return P.Rules2T(expr=list(extra_expr) + CONSTS + ARRAYS, stmt=list(stmt) + ARRAY_STMT, names=names or {}, ret=ret,
                     raise_=raise_, unwrap=UNWRAP, **kw)


# ---------------------------------------------------------------------------------------------- the definitions

BUILDER_ARGS = {"X": "X", "graph": "graph", "n_features": "nfeatures", "n_features_per_vertex": "nfpv",
                "dtype": "dtype", "n_components": "ncomponents", "bias": "bias", "verbose": "false"}
BUILDER_SIG = "(X : Mat) (graph : GraphS) (nfeatures nfpv : Nat) %s(dtype : DType) (ncomponents : Option Nat) (bias : Bool)"
BUILDER_POS = ["X", "graph", "n_features", "n_features_per_vertex"]
CINV = "(cinv : Arr → Option Nat → Except PyErr Mat)"
SVD = "(svd : Mat → Option (Mat × List Rat × Mat))"
ARGSORT = "(argsort : List Nat → List Nat)"

VEC_ATTRS = ["n_samples", "n_features", "n_features_per_vertex", "graph", "mode", "n_components", "sparse", "dtype", "bias",
             "is_incremental", "mean_vector", "precision", "_covariance_matrices"]
# keyword form of the one call every constructor receives (the keywords are sorted by the translator)
CTOR_CALL = ("$c($X, $g, $nf, $k, dtype=$d, n_components=$n, bias=$b, return_covariances=$rc, verbose=$v)")
CTOR_TMPL = "callCtor cinv argsort {c} {rc} (PyData.toMat {X}) {g} {nf} {k} {d} {n} {b}"
VEC_INIT_PARAMS = ["samples", "graph", "n_samples", "mode", "n_components", "dtype", "sparse", "bias", "incremental"]


def items():
    """[(lean signature ending in `:=`, thunk -> body text, stub body)]"""
    from menpo.model import gmrf as G
    from menpo.model import pca as PCA
    out = []

    def add(sig, stub, thunk):
        def safe():
            # whatever goes wrong while reading the live source (a routine that no longer exists, a changed class
            # layout) is an untranslatable source, i.e. a broken obligation - never a crash of the harness
            try:
                return thunk()
            except P.Untranslatable:
                raise
            except Exception as e:
                raise P.Untranslatable("%s: %s" % (type(e).__name__, e))
        out.append((sig, safe, stub))

    def T(**kw):
        return P.Translator2T(rules(**kw))

    # ---- _covariance_matrix_inverse: both branches, the try / except around the truncated-SVD formula
    INV = [("np.atleast_2d($x)", "(atleast2d {x})"),
           ("np.linalg.inv($x)", "npInv {x}", "bind"),
           ("np.linalg.svd($x)", "npSvd svd {x}", "bind"),
           ("$s[:, :$n]", "(colsTo {s} {n})"),
           ("$d[:$n, :]", "(rowsTo {d} {n})"),
           ("$v[:$n]", "(takeTo {v} {n})"),
           ("np.diag(1 / $v)", "(diagRecip {v})"),
           ("$a.dot($b)", "(matDot {a} {b})")]
    add("def genCovInverse %s (covmat : Arr) (ncomponents : Option Nat) : Except PyErr Mat :=" % SVD,
        ".error .valueError",
        lambda: T(extra_expr=INV, catch=["LinAlgError"]).function(
            G._covariance_matrix_inverse, {"cov_mat": "covmat", "n_components": "ncomponents"}, ind=1))

    # ---- the four assembly routines, each for return_covariances = False / True
    def builder(fn, args):
        P.check_params(fn, BUILDER_POS)
        node, _src = P.source_ast(fn)
        return T().function_node(unroll_literal_loops(node, module_helpers()), args, ind=1)

    for rc, suffix, res in (("false", "", "%s"), ("true", "RC", "(%s × List Arr)")):
        args = dict(BUILDER_ARGS, return_covariances=rc)
        add("def genCreateDense%s %s %s : Except PyErr %s :=" % (suffix, CINV, BUILDER_SIG % "(mode : ModeS) ", res % "Mat"),
            ".error .valueError",
            lambda args=args: builder(G._create_dense_precision, dict(args, mode="mode")))
        add("def genCreateSparse%s %s %s %s : Except PyErr %s :=" % (suffix, CINV, ARGSORT, BUILDER_SIG % "(mode : ModeS) ",
                                                                    res % "BSR"),
            ".error .valueError",
            lambda args=args: builder(G._create_sparse_precision, dict(args, mode="mode")))
        add("def genCreateDenseDiag%s %s %s : Except PyErr %s :=" % (suffix, CINV, BUILDER_SIG % "", res % "Mat"),
            ".error .valueError",
            lambda args=args: builder(G._create_dense_diagonal_precision, args))
        add("def genCreateSparseDiag%s %s %s %s : Except PyErr %s :=" % (suffix, CINV, ARGSORT, BUILDER_SIG % "", res % "BSR"),
            ".error .valueError",
            lambda args=args: builder(G._create_sparse_diagonal_precision, args))

    # glue (not translated): a constructor VALUE (`_create_…` or `partial(_create_…, mode=…)`) applied to the
    # arguments of the one call site; `mode` of the edge constructors comes from the `partial`
    add("def callCtor %s %s (c : CtorS) (rc : Bool) (X : Mat) (graph : GraphS) (nfeatures nfpv : Nat) (dtype : DType) "
        "(ncomponents : Option Nat) (bias : Bool) : Except PyErr CtorOut :=" % (CINV, ARGSORT), ".error .valueError",
        lambda: "\n".join(
            ["  match c, rc with"] +
            ["  | %s, %s => (%s cinv %s X graph nfeatures nfpv %s dtype ncomponents bias).map %s" % (
                pat, rc, fn + ("RC" if rc == "true" else ""), "argsort" if sparse else "", "m" if edges else "",
                ("fun r => ⟨%s, some r.2⟩" % (wrap % "r.1") if rc == "true" else "fun r => ⟨%s, none⟩" % (wrap % "r")))
             for pat, fn, sparse, edges, wrap in (
                 (".sparseDiag", "genCreateSparseDiag", True, False, ".bsr nfeatures nfpv %s"),
                 (".denseDiag", "genCreateDenseDiag", False, False, ".dense %s"),
                 (".sparseEdges m", "genCreateSparse", True, True, ".bsr nfeatures nfpv %s"),
                 (".denseEdges m", "genCreateDense", False, True, ".dense %s"))
             for rc in ("false", "true")]))

    # ---- _data_to_matrix, GMRFVectorModel.__init__
    DATA = [("len($x)", "(some (PyData.len {x}))"),
            ("isinstance($x, np.ndarray)", "(PyData.isArray {x})"),
            ("np.array($x)[:$n]", "(PyData.arrayTake {x} {n})")]
    add("def genDataToMatrix (data : PyData) (nsamples : Option Nat) : PyData × Option Nat :=", "(data, none)",
        lambda: T(extra_expr=DATA, ret="({e})").function(
            G.GMRFVectorModel._data_to_matrix, {"self": "self", "data": "data", "n_samples": "nsamples"}, ind=1))

    INIT = [("self._data_to_matrix($d, $n)", "(genDataToMatrix {d} {n})"),
            ("$x.shape[1]", "(PyData.shape1 {x})"),
            ("int($a / $b)", "({a} / {b})"),
            ("np.mean($x, axis=0)", "(PyData.mean0 {x})"),
            ("partial(_create_sparse_precision, mode=$m)", "(CtorS.sparseEdges {m})"),
            ("partial(_create_dense_precision, mode=$m)", "(CtorS.denseEdges {m})")]
    INIT_NAMES = {"_create_sparse_diagonal_precision": "CtorS.sparseDiag",
                  "_create_dense_diagonal_precision": "CtorS.denseDiag"}
    attr = {a: a.lstrip("_") + "_attr" for a in VEC_ATTRS}

    def vec_init():
        for fn in (G._create_sparse_precision, G._create_dense_precision, G._create_sparse_diagonal_precision,
                   G._create_dense_diagonal_precision):
            P.check_params(fn, BUILDER_POS)
        r = rules(extra_expr=INIT, names=INIT_NAMES, attr_vars=attr,
                  stmt=[("precision_attr, covariance_matrices_attr = " + CTOR_CALL, ("=precision_attr", "=covariance_matrices_attr"),
                         "(%s).bind CtorOut.unpack" % CTOR_TMPL, "bind"),
                        ("precision_attr = " + CTOR_CALL, "=precision_attr", "(%s).bind CtorOut.asMatrix" % CTOR_TMPL, "bind")],
                  end=".ok ⟨" + ", ".join("{%s}" % attr[a] for a in VEC_ATTRS) + "⟩")
        return P.Translator2T(r).function(
            G.GMRFVectorModel.__init__,
            {"self": "self", "samples": "samples", "graph": "graph", "n_samples": "nsamples", "mode": "mode",
             "n_components": "ncomponents", "dtype": "dtype", "sparse": "sparse", "bias": "bias",
             "incremental": "incremental", "verbose": "false"}, ind=1)
    VEC_SIG = ("(samples : PyData) (graph : GraphS) (nsamples : Option Nat) (mode : ModeS) (ncomponents : Option Nat) "
               "(dtype : DType) (sparse bias incremental : Bool)")
    add("def genVecInit %s %s %s : Except PyErr VecModel :=" % (CINV, ARGSORT, VEC_SIG), ".error .valueError", vec_init)

    # ---- GMRFModel.__init__: as_matrix, then the call of GMRFVectorModel.__init__ in ALL-KEYWORD form (positional
    #      arguments are bound with the live signature of the callee, so a swapped position is a swapped argument)
    CALLEES = {"GMRFVectorModel.__init__": (G.GMRFVectorModel.__init__, False, "GMRFVectorModel__init__"),
               "super(GMRFModel, self).__init__": (G.GMRFVectorModel.__init__, True, "GMRFVectorModel__init__"),
               "super().__init__": (G.GMRFVectorModel.__init__, True, "GMRFVectorModel__init__")}
    VCALL = ("GMRFVectorModel__init__(self=self, samples=$samples, graph=$graph, n_samples=$n_samples, mode=$mode, "
             "n_components=$n_components, dtype=$dtype, sparse=$sparse, bias=$bias, incremental=$incremental, verbose=$verbose)")
    VTMPL = ("genVecInit cinv argsort {samples} {graph} {n_samples} {mode} {n_components} {dtype} {sparse} {bias} "
             "{incremental}")

    def obj_init():
        if G.GMRFModel.__mro__[1] is not G.GMRFVectorModel:
            raise P.Untranslatable("GMRFModel no longer derives from GMRFVectorModel directly")
        r = rules(extra_expr=[("as_matrix($s, length=$n, return_template=True, verbose=$v)", "asMatrixT {s} {n}", "bind"),
                              ("$x.shape[0]", "(some (PyData.len {x}))")],
                  attr_vars={"template_instance": "template_attr"}, callees=CALLEES,
                  stmt=[(VCALL, "=vec_attr", VTMPL, "bind")],
                  end=".ok ({template_attr}, {vec_attr})")
        return P.Translator2T(r).function(
            G.GMRFModel.__init__,
            {"self": "self", "samples": "samples", "graph": "graph", "mode": "mode", "n_components": "ncomponents",
             "dtype": "dtype", "sparse": "sparse", "n_samples": "nsamples", "bias": "bias", "incremental": "incremental",
             "verbose": "false"}, ind=1)
    add("def genObjInit %s %s (samples : List Mat) (graph : GraphS) (mode : ModeS) (ncomponents : Option Nat) (dtype : DType) "
        "(sparse : Bool) (nsamples : Option Nat) (bias incremental : Bool) : Except PyErr (Mat × VecModel) :=" % (CINV, ARGSORT),
        ".error .valueError", obj_init)

    # ---- the defaults of the two constructors (the options a caller does not give)
    def defaults(fn, names):
        d = P.Translator2T(rules()).defaults(fn)
        vals = []
        for n in names:
            if n not in d:
                raise P.Untranslatable("parameter %r of %s has no default" % (n, fn.__qualname__))
            vals.append(DEFAULT_TEXT.get(d[n]))
            if vals[-1] is None:
                raise P.Untranslatable("default %s=%s" % (n, d[n]))
        return "  (" + ", ".join(vals) + ")"
    DEFAULT_TEXT = {"None": "none", "'concatenation'": "ModeS.concatenation", "'subtraction'": "ModeS.subtraction",
                    "np.float64": "DType.float64", "np.float32": "DType.float32", "True": "true", "False": "false",
                    "0": "false", "1": "true"}
    DEF_NAMES = ["n_samples", "mode", "n_components", "dtype", "sparse", "bias", "incremental"]
    DEF_TYPE = "Option Nat × ModeS × Option Nat × DType × Bool × Bool × Bool"
    add("def genVecDefaults : %s :=" % DEF_TYPE, "(none, .other, none, .float32, false, true, true)",
        lambda: defaults(G.GMRFVectorModel.__init__, DEF_NAMES))
    add("def genObjDefaults : %s :=" % DEF_TYPE, "(none, .other, none, .float32, false, true, true)",
        lambda: defaults(G.GMRFModel.__init__, DEF_NAMES))

    # ---- mean(), mahalanobis_distance (both classes), _mahalanobis_distance, principal_components_analysis
    SELF = [("self.mean_vector", "M.mean_vector"), ("self.sparse", "M.sparse"), ("self.precision", "M.precision"),
            ("self.n_samples", "M.n_samples"), ("self.template_instance", "template")]
    add("def genVecMean (M : VecModel) : List Rat :=", "[]",
        lambda: T(extra_expr=SELF, ret="{e}").function(G.GMRFVectorModel.mean, {"self": "self"}, ind=1))
    add("def genObjMean (template : Mat) (M : VecModel) : Mat :=", "[]",
        lambda: T(extra_expr=SELF + [("$t.from_vector($v)", "(fromVectorLike {t} {v})")], ret="{e}").function(
            G.GMRFModel.mean, {"self": "self"}, ind=1))
    MAHAL = SELF + [
        ("np.tile($m[..., None], $n).T", "(tileRows {m} {n})"),
        ("$x.T", "(transposeM {x})"),
        ("$a.dot($b)", "(pyDot {a} {b})"),
        ("np.dot($a, $b)", "(pyDot {a} {b})"),
        ("np.diag($d)", "(diagOf {d})"),
        ("np.einsum('ij,ij->i', $a, $b)", "(rowDots {a} {b})"),
        ("np.sqrt($x)", "(npSqrt sqrt {x})")]
    add("def genMahalanobisCore (sqrt : Rat → Rat) (M : VecModel) (samples : Mat) (subtractmean squareroot : Bool) : MahalOut :=",
        ".vec []",
        lambda: T(extra_expr=MAHAL, ret="(toOut {e})").function(
            G.GMRFVectorModel._mahalanobis_distance,
            {"self": "self", "samples": "samples", "subtract_mean": "subtractmean", "square_root": "squareroot"}, ind=1))
    MCALL = ("self._mahalanobis_distance(samples=$s, subtract_mean=$m, square_root=$r)",
             "(genMahalanobisCore sqrt M (PyData.toMat {s}) {m} {r})")
    add("def genVecMahalanobis (sqrt : Rat → Rat) (M : VecModel) (samples : PyData) (subtractmean squareroot : Bool) : MahalOut :=",
        ".vec []",
        lambda: T(extra_expr=[MCALL, ("self._data_to_matrix($d, $n)", "(genDataToMatrix {d} {n})"),
                              ("len($x.shape)", "(PyData.ndim {x})"),
                              ("$x.ndim", "(PyData.ndim {x})"),          # the same number, by numpy's definition of ndim
                              ("$x[..., None].T", "(PyData.rowVec {x})")], ret="{e}").function(
            G.GMRFVectorModel.mahalanobis_distance,
            {"self": "self", "samples": "samples", "subtract_mean": "subtractmean", "square_root": "squareroot"}, ind=1))
    add("def genObjMahalanobis (sqrt : Rat → Rat) (M : VecModel) (samples : ObjQuery) (subtractmean squareroot : Bool) : MahalOut :=",
        ".vec []",
        lambda: T(extra_expr=[MCALL, ("isinstance($x, list)", "(ObjQuery.isList {x})"),
                              ("as_matrix($s, length=None, return_template=False, verbose=False)", "(ObjQuery.asMatrix {s})"),
                              ("$x.as_vector()[..., None].T", "(ObjQuery.rowVec {x})")], ret="{e}").function(
            G.GMRFModel.mahalanobis_distance,
            {"self": "self", "samples": "samples", "subtract_mean": "subtractmean", "square_root": "squareroot"}, ind=1))
    PCALL = ("init_from_covariance_matrix(cls=self, C=$C, mean=$mean, n_samples=$n, centred=$c, is_inverse=$i, "
             "max_n_components=$k)", "(PcaCall.mk {C} {mean} {n} {c} {i} {k})")
    add("def genVecPca (M : VecModel) (maxncomponents : Option Nat) : PcaCall (List Rat) :=", "⟨.dense [], [], none, false, false, none⟩",
        lambda: T(extra_expr=SELF + [PCALL], ret="{e}", callees={
            "PCAVectorModel.init_from_covariance_matrix": (PCA.PCAVectorModel.init_from_covariance_matrix.__func__, True,
                                                           "init_from_covariance_matrix")}).function(
            G.GMRFVectorModel.principal_components_analysis, {"self": "self", "max_n_components": "maxncomponents"}, ind=1))
    add("def genObjPca (template : Mat) (M : VecModel) (maxncomponents : Option Nat) : PcaCall Mat :=",
        "⟨.dense [], [], none, false, false, none⟩",
        lambda: T(extra_expr=SELF + [PCALL, ("self.mean()", "(genObjMean template M)")], ret="{e}", callees={
            "PCAModel.init_from_covariance_matrix": (PCA.PCAModel.init_from_covariance_matrix.__func__, True,
                                                     "init_from_covariance_matrix")}).function(
            G.GMRFModel.principal_components_analysis, {"self": "self", "max_n_components": "maxncomponents"}, ind=1))
    return out


HEADER = """/- TRANSLATED by harness/trans_c12.py (harness/py2lean2.py, py2lean2w.py, py2lean2t.py) from the SOURCE TEXT of
   menpo/model/gmrf.py of the current working tree on every run of `./check C12`; do not edit.
   GenProps/C12Src.lean proves every definition equal to the Core definition the C12 theorems are about. -/
import MenpoModel.Core.C12Src

set_option linter.unusedVariables false

namespace MenpoModel.Generated.C12Src
open MenpoModel.C12 MenpoModel.C12.Src MenpoModel.Py
"""
FOOTER = "\nend MenpoModel.Generated.C12Src\n"


def translate():
    return translate_or_stub(items(), HEADER, FOOTER)


def generated_files():
    text, reasons = translate()
    return {GEN_REL: text}, reasons


if __name__ == "__main__":
    import sys
    sys.path.insert(0, os.environ.get("MENPO_REPO", "/repo"))
    t, r = translate()
    print(t)
    print("REASONS:", r)
