"""C19 — `menpo.base.LazyList` and the list-building functions of `menpo/io/input/base.py`, TRANSLATED from the
source text of the current working tree into Lean (`Generated/C19Src.lean`) on every run of `./check C19`;
`GenProps/C19Src.lean` proves every translated definition equal to the Core definition the C19 theorems are about,
for all arguments.  Translator: harness/py2lean2.py + harness/py2lean2g.py (generators, nested defs, while with fuel,
effectful / monadic operands); this file is the C19 vocabulary (Core/C19Py.lean, Core/C19PyIO.lean)."""
import os

from . import py2lean2 as P
from . import py2lean2g as G

GEN_REL = os.path.join("MenpoModel", "Generated", "C19Src.lean")
GEN_TARGETS = ["MenpoModel.Generated.C19Src", "MenpoModel.GenProps.C19Src", "MenpoModel.GenProps.C19SrcRefine"]

OBLIGATIONS = ["genInit_eq", "genLen_eq", "genCopy_eq", "genGetitem_eq", "genInitFromIterable_eq", "genInitFromIndexCallable_eq",
               "genDelayed_eq", "genMap_eq", "genRepeat_eq", "genAdd_eq", "genGlobWithSuffix_eq", "genImporterFor_eq",
               "genImportGlob_eq", "genImport_eq", "genAttachLazy_eq",
               # GenProps/C19SrcRefine.lean: the program semantics built from the translated operations
               "importGlobFull_glob", "progSrc_eq_lazy", "src_refines_listLog", "src_refines_list", "src_getitem_int",
               "src_delayed_eval", "src_video_frames", "src_video_frames_plain",
               "opValueSrc_eq", "hrunSrc_eq", "src_history_frame", "genImport_thunk", "genImport_refused"]
FUNCTIONS = ["menpo.base.LazyList.__init__", "LazyList.__len__", "LazyList.copy", "LazyList.__getitem__", "LazyList.init_from_iterable",
             "LazyList.init_from_index_callable", "LazyList.map", "LazyList.map.<locals>.delayed", "LazyList.repeat",
             "LazyList.__add__", "menpo.io.input.base.glob_with_suffix", "importer_for_filepath",
             "_import_glob_lazy_list", "_import", "_import_lazylist_attach_landmarks"]

COMMON = [
    ("$x._callables", "{x}.callables"),
    ("isinstance($x, collections_abc.Iterable)", "{x}.iterable"),
    ("len($x)", "(PyLen.len {x})"),
    ("list($x)", "(Py.list {x})"),
    ("Copyable.copy($x)", "(LL.fresh {x})"),
]
SET_CALLABLES = [("$x._callables = $v", "x", "(Fresh.setCallables {x} {v})")]
RAISES = {"ValueError": ".error .value", "TypeError": ".error .type", "IndexError": ".error .index"}


GEN = dict(strings="()", inline=True)      # messages are one unit value; same-module helpers are inlined


def rules_getitem():
    return G.Rules2G(**GEN, expr=[
        ("getattr($x, 'ndim', None) != 0", "(!{x}.zeroDim)"),
        ("getattr($x, 'ndim', None) == 0", "{x}.zeroDim"),
        ("isinstance($x, int)", "{x}.isInt"),
        ("hasattr($x, '__index__')", "{x}.hasIndex"),
        ("LazyList($x)", "(LL.newWith genInit {x})"),
        ("$a[$b]", "(PyGetItem.get {a} {b})"),
        ("$t()", "(Py.call {t})"),
    ] + COMMON, iterable="(PyIter.iter {e})", ret="(ToGetRes.ret {e})", raise_=None, raise_by=RAISES)


def rules_plain(ret="{e}", end=None):
    return G.Rules2G(**GEN, expr=COMMON, stmt=SET_CALLABLES, iterable="(PyIter.iter {e})", ret=ret, end=end,
                     raise_=None, raise_by=RAISES)


def rules_ctor():
    return G.Rules2G(**GEN, expr=[
        ("cls($x)", "(LL.newWith genInit {x})"),
        ("partial($f, $x)", "(PyPartial.ap {f} {x})"),
        ("range($n)", "(Py.range {n})"),
    ] + COMMON, iterable="(PyIter.iter {e})", ret="{e}", raise_=None, raise_by=RAISES)


def rules_map():
    return G.Rules2G(**GEN, expr=[
        ("callable($x)", "{x}.callable"),
        ("len(f)", "(MArg.lenE f)", "bind"),
        ("zip($a, $b)", "(PyZip.zip {a} {b})"),
        ("repeat($x)", "(Py.Rep.mk {x})"),
        ("partial(delayed, $g, $x)", "(LThunk.app (ToFnId.fid {g}) {x})"),
        ("partial(_delayed, $g, $x)", "(LThunk.app (ToFnId.fid {g}) {x})"),
        ("$x.copy()", "(LL.fresh (genCopy {x}))"),
    ] + COMMON, stmt=SET_CALLABLES, iterable="(PyIter.iter {e})", ret="(.ok (ToLL.toLL {e}))", raise_=None,
        raise_by=RAISES, skip_defs=["delayed"])


def rules_delayed():
    return G.Rules2G(**GEN, expr=[
        ("$t()", "(Py.callThunk e bad {t})"),
        ("$f($v)", "(Py.callFn e bad {f} {v})"),
    ], ret="{e}", raise_=None, raise_by=RAISES)


def rules_repeat():
    return G.Rules2G(**GEN, expr=[
        ("chain(*$x)", "(Py.chainStar {x})"),
        ("chain.from_iterable($x)", "(Py.chainStar {x})"),
        ("zip(*$x)", "(Py.zipStar {x})"),
        ("$x.copy()", "(LL.fresh (genCopy {x}))"),
    ] + COMMON, stmt=SET_CALLABLES, ret="(ToLL.toLL {e})", raise_=None, raise_by=RAISES,
        binop={P.ast.Mult: "(PyMul.mul {a} {b})"})


def rules_add():
    return G.Rules2G(**GEN, expr=[
        ("isinstance($x, LazyList)", "{x}.isLazy"),
        ("LazyList.init_from_iterable($x)", "(genInitFromIterable {x}.items PFn.none)", "bind"),
        ("LazyList($x)", "(LL.newWith genInit {x})"),
    ] + COMMON, ret="{e}", raise_=None, raise_by=RAISES,
        binop={P.ast.Add: "(PyAdd.add (genAdd fuel) {a} {b})"})


IO_COMMON = [
    ("_possible_extensions_from_filepath($p)", "{p}.exts"),
    ("$e in $m", "(List.contains {m} {e})"),
    ("len($x)", "(PyLen.len {x})"),
    ("list($x)", "(Py.list {x})"),
]


def rules_glob_with_suffix():
    return G.Rules2G(**GEN, expr=[
        ("_pathlib_glob_for_pattern($p, sort=$s)", "(w.listing {s})"),
    ] + IO_COMMON, ret="{e}", raise_=None, raise_by=RAISES)


def rules_importer_for():
    return G.Rules2G(**GEN, expr=[
        ("$m.get($k)", "(Py.dictGet {m} {k})"),
        ("$l.pop(0)", "(List.headD {l} 0)", "mut", "l", "(List.tail {l})"),
    ] + IO_COMMON, ret="{e}", raise_="none", typed=[("_possible_extensions_from_filepath($p)", "extlist")],
        truthy={"extlist": "(Py.truthyList {e})"}, fuel_by_type={"extlist": "({e}.length + 1)"}, fuel_out="none")


def rules_import_glob():
    return G.Rules2G(**GEN, expr=[
        ("glob_with_suffix($p, $m, sort=$s)", "(genGlobWithSuffix w {p} {m} {s})"),
        ("$v <= $n", "(Py.optLe {v} {n})", "bind", {"v": "optint"}),
        ("$l[:$n]", "(Py.sliceTo {l} {n})"),
        ("LazyList($x)", "(LL.newWith genInit {x})", "bind"),
        ("partial(_import, $f, $m, landmark_resolver=$r, landmark_ext_map=$lx, landmark_attach_func=$la, "
         "importer_kwargs=$kw)", "(importThunkSrc {m} {r} {lx} {la} {f})"),
        ("print_progress($x, prefix=$p, n_items=$n)", "(Py.progress {x})"),
    ] + IO_COMMON, stmt=[("random.shuffle($x)", "x", "(w.shuffled {x})")], skip=["print($x)"],
        var_types={"max_assets": "optint"}, truthy={"optint": "(Py.truthyOptInt {e})"}, iterable="(PyIter.iter {e})", genexp="(GlobRes.gen {e})",
        ret="(.ok (ToGlobRes.ret {e}))", raise_=None, raise_by=RAISES)


def rules_attach_lazy():
    return G.Rules2G(**GEN, expr=[
        ("enumerate($x)", "(Py.enumerate {x})"),
        ("range($n)", "(Py.range {n})"),
        ("$x.path", "()"),
        ("partial(landmark_resolver, $p, $i)", "(Py.frameResolver r {i})"),
        ("partial(wrap_landmarks, $l)", "{l}"),
        ("$x.map($fs)", "(genMap {x} (MArg.ofList {fs}))", "bind"),
    ] + IO_COMMON, stmt=[("$l[$k] = $v", "l", "(Py.listSet {l} {k} {v})")], skip_defs=["wrap_landmarks"],
        iterable="(PyIter.iter {e})", ret="(.ok {e})", end="(.ok {built_objects})", raise_=None, raise_by=RAISES,
        match_bind=dict(ok=".ok {x}", err=".error {e}", reraise=".error {e}"))


def rules_import():
    return G.Rules2G(**GEN, expr=[
        ("_norm_path($x)", "{x}"),
        ("$p.is_file()", "(w.isFile {p})"),
        ("importer_for_filepath($p, $m)", "(optE (genImporterFor {p} {m}))", "bind"),
        ("{}", "(some ())"),
        ("$imp($p, asset=$a, **$k)", "(Built.ofImporter w {imp} {p})"),
        ("isinstance($x, list)", "{x}.isList"),
        ("[$x]", "(Built.wrap {x})"),
        ("len($x)", "(Built.len {x})"),
        ("$x[0]", "(Built.first {x})"),
    ], stmt=[("landmark_attach_func($b, $r, landmark_ext_map=$x)", "b", "(Built.attach {b} {r} {x})")],
        skip=["attach_path($x)"], skip_defs=["attach_path"], ret="(.ok {e})", raise_=None, raise_by=RAISES)


HEADER = """/- TRANSLATED by harness/trans_c19.py (harness/py2lean2.py + py2lean2g.py) from the SOURCE TEXT of
   menpo.base.LazyList and menpo.io.input.base of the current working tree on every run of `./check C19`; do not edit.
   GenProps/C19Src.lean proves every definition equal to the Core definition the C19 theorems are about. -/
import MenpoModel.Core.C19Py
import MenpoModel.Core.C19PyIO
set_option linter.unusedVariables false

namespace MenpoModel.Generated.C19Src
open MenpoModel.LazyList MenpoModel.PyData
"""
FOOTER = "\nend MenpoModel.Generated.C19Src\n"


def delayed_node(LL):
    """`delayed`: nested in LazyList.map, or (after an extraction) a function of menpo.base / a static method"""
    try:
        return G.Translator2G.nested(LL.map, "delayed")
    except P.Untranslatable:
        import menpo.base as MB
        for owner in (MB, LL):
            for name in ("delayed", "_delayed"):
                f = getattr(owner, name, None)
                if callable(f):
                    return P.source_ast(getattr(f, "__func__", f))[0]
        raise


def delayed_args(LL):
    """`partial(delayed, g, x)` binds POSITIONALLY: the first parameter of `delayed` is the function, the second the
    wrapped callable, whatever they are called"""
    node = delayed_node(LL)
    a = node.args
    names = [x.arg for x in a.posonlyargs + a.args]
    if len(names) != 2 or a.vararg or a.kwarg or a.kwonlyargs or a.defaults:
        raise P.Untranslatable("signature of delayed changed: %s" % P.ast.unparse(a))
    return node, {names[0]: "f", names[1]: "t"}


def items():
    """[(lean signature ending in `:=`, thunk -> body, stub body)] in dependency order"""
    from menpo.base import LazyList
    LL = LazyList
    out = []

    def add(sig, thunk, stub):
        out.append((sig, thunk, stub))

    add("def genInit (callables : List LThunk) : LL :=",
        lambda: G.Translator2G(rules_plain(ret="(ToLL.toLL {e})", end="(ToLL.toLL {self})")).function(
            LL.__init__, {"self": "(LL.fresh ⟨[]⟩)", "callables": "callables"}), "⟨[]⟩")
    add("def genLen (s : LL) : Nat :=",
        lambda: G.Translator2G(rules_plain()).function(LL.__len__, {"self": "s"}), "0")
    add("def genCopy (s : LL) : LL :=",
        lambda: G.Translator2G(rules_plain(ret="(ToLL.toLL {e})")).function(LL.copy, {"self": "s"}), "⟨[]⟩")
    add("def genGetitem (s : LL) (x : GArg) : Except Err GetRes :=",
        lambda: G.Translator2G(rules_getitem()).function(LL.__getitem__, {"self": "s", "slice_": "x"}),
        ".error .type")
    add("def genInitFromIterable (iterable : List Int) (f : PFn) : Except Err LL :=",
        lambda: G.Translator2G(rules_ctor()).function(
            LL.init_from_iterable.__func__, {"cls": "cls", "iterable": "iterable", "f": "f"}), ".error .type")
    add("def genInitFromIndexCallable (f : PFn) (n : Int) : Except Err LL :=",
        lambda: G.Translator2G(rules_ctor()).function(
            LL.init_from_index_callable.__func__, {"cls": "cls", "f": "f", "n_elements": "n"}), ".error .type")
    add("def genDelayed (e : Env) (bad : Nat → Bool) (f : Nat) (t : LThunk) : Except Err Int × List Ev :=",
        lambda: G.Translator2G(rules_delayed()).function_node(*delayed_args(LL)), "(.error .type, [])")
    add("def genMap (s : LL) (f : MArg) : Except Err LL :=",
        lambda: G.Translator2G(rules_map()).function(LL.map, {"self": "s", "f": "f"}), ".error .type")
    add("def genRepeat (s : LL) (n : Int) : LL :=",
        lambda: G.Translator2G(rules_repeat()).function(LL.repeat, {"self": "s", "n": "n"}), "⟨[]⟩")
    add("def genAdd : Nat → LL → AArg → Except Err LL\n  | 0, _, _ => .error .type\n  | fuel + 1, s, other =>",
        lambda: G.Translator2G(rules_add()).function(LL.__add__, {"self": "s", "other": "other"}, ind=2),
        ".error .type")
    from menpo.io.input import base as IB
    add("def genGlobWithSuffix (w : GlobWorld) (pat : Unit) (known : List Nat) (sort : Bool) : List FileEnt :=",
        lambda: G.Translator2G(rules_glob_with_suffix()).function(
            IB.glob_with_suffix, {"pattern": "pat", "extensions_map": "known", "sort": "sort"}), "[]")
    add("def genImporterFor (f : FileEnt) (known : List Nat) : Option Nat :=",
        lambda: G.Translator2G(rules_importer_for()).function(
            IB.importer_for_filepath, {"filepath": "f", "extensions_map": "known"}), "some 0")
    add("def genImportGlob (w : GlobWorld) (pat : Unit) (known : List Nat) (max : Option Int) (r : Option Nat)\n"
        "    (shuffle asGen : Bool) (lmExt attach : Bool) (kw : Unit) (verbose : Bool) : Except Err GlobRes :=",
        lambda: G.Translator2G(rules_import_glob()).function(
            IB._import_glob_lazy_list,
            {"pattern": "pat", "extension_map": "known", "max_assets": "max", "landmark_resolver": "r",
             "shuffle": "shuffle", "as_generator": "asGen", "landmark_ext_map": "lmExt",
             "landmark_attach_func": "attach", "importer_kwargs": "kw", "verbose": "verbose"}), ".error .type")
    add("def genImport (w : ImportWorld) (f : FileEnt) (known : List Nat) (r : Option Nat) (lmx att asset kw : Option Unit) :\n"
        "    Except Err Built :=",
        lambda: G.Translator2G(rules_import()).function(
            IB._import, {"filepath": "f", "extensions_map": "known", "landmark_resolver": "r", "landmark_ext_map": "lmx",
                         "landmark_attach_func": "att", "asset": "asset", "importer_kwargs": "kw"}), ".error .type")
    add("def genAttachLazy (built : List LL) (r : Option Nat) (lmx : Option Unit) : Except Err (List LL) :=",
        lambda: G.Translator2G(rules_attach_lazy()).function(
            IB._import_lazylist_attach_landmarks,
            {"built_objects": "built", "landmark_resolver": "r", "landmark_ext_map": "lmx"}), ".error .type")
    return out


def translate():
    """(lean text, [reasons why a function could not be translated])"""
    return P.translate_or_stub(items(), HEADER, FOOTER)


def generated_files():
    text, reasons = translate()
    return {GEN_REL: text}, reasons


if __name__ == "__main__":
    import sys
    sys.path.insert(0, os.environ.get("MENPO_REPO", "/repo"))
    t, r = translate()
    print(t)
    print("REASONS", r)
