"""C05 — regenerated method-resolution table (DESIGN 2.3b, Appendix 13 item 2).

Nothing is parsed from source text: for every concrete Vectorizable class exported by
menpo.shape / menpo.image / menpo.transform the class whose ``__dict__`` supplies each of
from_vector, _from_vector_inplace, _as_vector, copy, n_parameters, _set_h_matrix,
set_rotation_matrix is read from the live MRO of the current working tree and written to
lean/MenpoModel/Generated/C05Dispatch.lean.  lean/MenpoModel/GenProps/C05.lean states the
obligations (`decide`) that tie the table to `MenpoModel.C05.expectedDispatch`, over which the Core
model is assembled and the theorems are proved.

A second table, lean/MenpoModel/Generated/C05Effects.lean, is *measured*: specimens of every class are
built through the public constructors, every array they reach is recorded (object identity + bytes), and
`copy()`, `from_vector_inplace(v)` and `from_vector(v)` are run on them.  Per class: which buffers are
fresh in the copy (no shared memory), which old arrays `_from_vector_inplace` changed (written in place),
which attributes refer to a new array afterwards (rebound), whether `from_vector` changed any array of its
receiver, and which arrays of the result still share memory with the receiver.  GenProps/C05.lean proves
that the measured table equals `MenpoModel.C05.expectedEffects`, the table the heap theorems are about.
"""

METHODS = ["from_vector", "_from_vector_inplace", "_as_vector", "copy", "n_parameters", "_set_h_matrix",
           "set_rotation_matrix"]

# the order of MenpoModel.C05.Cls / expectedDispatch
CLS_ORDER = ["PointCloud", "PointUndirectedGraph", "PointDirectedGraph", "PointTree",
             "LabelledPointUndirectedGraph", "TriMesh", "ColouredTriMesh", "TexturedTriMesh",
             "Image", "MaskedImage", "BooleanImage",
             "Homogeneous", "Affine", "Similarity", "Translation", "UniformScale", "NonUniformScale", "Rotation",
             "AlignmentAffine", "AlignmentSimilarity", "AlignmentTranslation", "AlignmentUniformScale",
             "AlignmentRotation"]
SUPPLIERS = ["Copyable", "Vectorizable", "PointCloud", "LabelledPointUndirectedGraph", "TexturedTriMesh",
             "Image", "MaskedImage", "BooleanImage", "Homogeneous", "HomogFamilyAlignment", "Affine",
             "AlignmentAffine", "Similarity", "AlignmentSimilarity", "Translation", "AlignmentTranslation",
             "UniformScale", "AlignmentUniformScale", "NonUniformScale", "Rotation", "AlignmentRotation"]


def live_classes():
    """name -> class, every concrete Vectorizable class the public packages export"""
    import menpo.shape
    import menpo.image
    import menpo.transform
    from menpo.base import Vectorizable
    out = {}
    for mod in (menpo.shape, menpo.image, menpo.transform):
        for n in sorted(dir(mod)):
            c = getattr(mod, n)
            if isinstance(c, type) and issubclass(c, Vectorizable) and c is not Vectorizable:
                out[c.__name__] = c
    return out


def supplier(cls, name):
    for k in cls.__mro__:
        if name in k.__dict__:
            return k.__name__
    return None


def table():
    """list of (class name, [supplier of each METHODS entry or None])"""
    classes = live_classes()
    names = [n for n in CLS_ORDER if n in classes] + sorted(n for n in classes if n not in CLS_ORDER)
    return [(n, [supplier(classes[n], m) for m in METHODS]) for n in names]


def _sup(s):
    if s is None:
        return ".absent"
    return "." + s if s in SUPPLIERS else ".unknown"

# ----------------------------------------------------------------------------- measured effects table

BUFS = ["points", "pixels", "hMatrix", "target", "source", "mask", "carried"]    # MenpoModel.C05.allBufs
_PATH_BUF = {"points": "points", "pixels": "pixels", "_h_matrix": "hMatrix", "_target.points": "target",
             "_source.points": "source", "mask.pixels": "mask"}
N_SPECIMENS = 3


def buf_of_path(path):
    return _PATH_BUF.get(path, "carried")


def leaves(o, path="", out=None, seen=None):
    """every ndarray the object reaches: {attribute path: array}"""
    import numpy as np
    import scipy.sparse as sp
    if out is None:
        out, seen = {}, set()
    if isinstance(o, np.ndarray):
        out[path] = o
    elif sp.issparse(o):
        for k in ("data", "indices", "indptr", "row", "col"):
            if isinstance(getattr(o, k, None), np.ndarray):
                out[path + "." + k] = getattr(o, k)
    elif isinstance(o, dict):
        for k, v in o.items():
            leaves(v, path + "[%r]" % (k,), out, seen)
    elif isinstance(o, (list, tuple)):
        for i, v in enumerate(o):
            leaves(v, path + "[%d]" % i, out, seen)
    elif hasattr(o, "__dict__") and id(o) not in seen:
        seen.add(id(o))
        for k, v in sorted(o.__dict__.items()):
            leaves(v, (path + "." if path else "") + k, out, seen)
    return out


def specimens(name):
    """deterministic recipes (harness.c05 generators, fixed seed): landmarks attached wherever the class can
    carry them, vectorizable dimension, MaskedImage with an all-true and with a partial mask"""
    import random
    from . import c05
    rng = random.Random("C05-effects-" + name)
    out, want_masks = [], ["all", "sparse", "sparse"]
    for _ in range(4000):
        if len(out) == N_SPECIMENS:
            break
        rc = c05.gen_recipe(rng, name)
        rc.pop("life", None)
        if not c05.vectorizable_dim(rc):
            continue
        if name not in c05.XFS and not rc.get("landmarks"):
            continue
        if name in c05.IMAGES:
            if rc.get("dtype") not in ("float64", "bool"):
                continue
            flat = _flat(rc["mask"]) if "mask" in rc else None
            if name == "MaskedImage":
                kind = want_masks[len(out)]
                if kind == "all" and not all(flat):
                    continue
                if kind == "sparse" and (all(flat) or not any(flat)):
                    continue
            if name == "BooleanImage" and len(flat) < 2:
                continue
        out.append(rc)
    return out


def _flat(x):
    return [z for y in x for z in _flat(y)] if isinstance(x, list) else [x]


def other_vector(o, name):
    """a right-length vector differing from the object's own in every entry"""
    import numpy as np
    from . import c05
    own = np.array(o.as_vector())
    if name in ("Rotation", "AlignmentRotation"):
        for q in c05.unit_quaternions():
            q = np.array(q, dtype=float)
            q /= np.sqrt(q.dot(q))
            if np.min(np.abs(q - own)) > 0.05:
                return q
    if own.dtype == bool:
        return ~own
    return (own + 1).astype(own.dtype)


def measure(name):
    """the effects row of one class: dict of sorted buffer-name lists (union over the specimens)"""
    import warnings
    import numpy as np
    from . import c05
    row = {k: set() for k in ("has", "notfresh", "fviWrites", "fviRebinds", "fvWrites", "fvShares")}
    for rc in specimens(name):
        o = c05.build(rc)
        L = leaves(o)
        row["has"] |= {buf_of_path(p) for p in L}
        # copy()
        LC = leaves(o.copy())
        for p, a in L.items():
            if p not in LC or a.size == 0 or np.shares_memory(LC[p], a):
                row["notfresh"].add(buf_of_path(p))
        # from_vector_inplace on a specimen of its own
        s = c05.build(rc)
        v = other_vector(s, name)
        LS = leaves(s)
        snap = {p: a.tobytes() for p, a in LS.items()}
        with warnings.catch_warnings():
            warnings.simplefilter("ignore")
            s.from_vector_inplace(v)
        LA = leaves(s)
        for p, a in LS.items():
            if a.tobytes() != snap[p]:
                row["fviWrites"].add(buf_of_path(p))
            if p not in LA or not np.shares_memory(LA[p], a):
                row["fviRebinds"].add(buf_of_path(p))
        # from_vector on a specimen of its own
        s = c05.build(rc)
        v = other_vector(s, name)
        LS = leaves(s)
        snap = {p: a.tobytes() for p, a in LS.items()}
        r = s.from_vector(v)
        for p, a in LS.items():
            if a.tobytes() != snap[p] or p not in leaves(s) or leaves(s)[p] is not a:
                row["fvWrites"].add(buf_of_path(p))
        for p, a in leaves(r).items():
            if any(np.shares_memory(a, b) for b in LS.values()):
                row["fvShares"].add(buf_of_path(p))
    order = lambda xs: [b for b in BUFS if b in xs]
    return {"has": order(row["has"]), "fresh": order(row["has"] - row["notfresh"]),
            "fviWrites": order(row["fviWrites"]), "fviRebinds": order(row["fviRebinds"]),
            "fvWrites": order(row["fvWrites"]), "fvShares": order(row["fvShares"])}


_EFFECTS = {}


def effects():
    """[(class name, measured row)] in table order; cached per process"""
    key = tuple(n for n, _ in table())
    if key not in _EFFECTS:
        rows = []
        for n in key:
            try:
                rows.append((n, measure(n)))
            except Exception as e:       # a class the specimen builder cannot handle: an unknown row
                rows.append((n, {"error": "%s: %s" % (type(e).__name__, e)}))
        _EFFECTS[key] = rows
    return _EFFECTS[key]


def _bl(xs):
    return "[" + ", ".join("." + x for x in xs) + "]"


def effects_lean():
    rows = effects()
    body, comment = [], []
    for n, r in rows:
        c = "." + n if n in CLS_ORDER else ".unknown"
        if "error" in r:
            body.append("  ⟨.unknown, [], [], [], [], [], []⟩")
            comment.append("--   %s: NOT MEASURED (%s)" % (n, r["error"][:200].replace("\n", " ")))
            continue
        body.append("  ⟨%s, %s⟩" % (c, ", ".join(_bl(r[k]) for k in
                                                 ("has", "fresh", "fviWrites", "fviRebinds", "fvWrites", "fvShares"))))
    return ("/- REGENERATED by harness/extract_c05.py on every run of `./check C05`; do not edit.  MEASURED on live\n"
            "   objects of the menpo working tree (%d specimens per class, every reachable array instrumented):\n"
            "   Columns: buffers held, fresh in copy(), written in place by from_vector_inplace, rebound by\n"
            "   from_vector_inplace, receiver arrays changed by from_vector, result arrays of from_vector that share\n"
            "   memory with the receiver -/\n"
            "import MenpoModel.Core.Vectorize\n\n"
            "namespace MenpoModel.C05.Generated\nopen MenpoModel.C05\n\n"
            "def effects : List EffRow := [\n" % N_SPECIMENS + ",\n".join(body) + " ]\n\n"
            + "\n".join(comment) + ("\n\n" if comment else "") + "end MenpoModel.C05.Generated\n")


def lean_files():
    rows = table()
    body = []
    for n, sups in rows:
        c = "." + n if n in CLS_ORDER else ".unknown"
        body.append("  ⟨%s, %s⟩" % (c, ", ".join(_sup(s) for s in sups)))
    comment = "\n".join("--   %s: %s" % (n, ", ".join("%s<-%s" % (m, s) for m, s in zip(METHODS, sups)))
                        for n, sups in rows)
    gen = ("/- REGENERATED by harness/extract_c05.py from the live classes of the menpo working tree on every run\n"
           "   of `./check C05`; do not edit.  Columns: " + ", ".join(METHODS) + " -/\n"
           "import MenpoModel.Core.Vectorize\n\n"
           "namespace MenpoModel.C05.Generated\nopen MenpoModel.C05\n\n"
           "def dispatch : List Row := [\n" + ",\n".join(body) + " ]\n\n"
           + comment + "\n\nend MenpoModel.C05.Generated\n")
    props = ("/- Obligations over the regenerated tables (written by harness/extract_c05.py; the text is constant, the\n"
             "   tables it speaks about are not).  `dispatch_ok` is what makes every theorem of Props/C05.lean, proved\n"
             "   over `expectedDispatch`, a statement about the current class hierarchy; `effects_ok` is what makes the\n"
             "   heap theorems (receiver purity, locality of in-place updates) statements about what the current code\n"
             "   does to its arrays. -/\n"
             "import MenpoModel.Generated.C05Dispatch\nimport MenpoModel.Generated.C05Effects\n\n"
             "namespace MenpoModel.C05.GenProps\nopen MenpoModel.C05\n\n"
             "/-- measured row `e` is within what the model's row `m` allows -/\n"
             "def effSound (e m : EffRow) : Bool :=\n"
             "  e.cls == m.cls && e.fviWrites.all (fun b => m.fviWrites.contains b) &&\n"
             "  m.fresh.all (fun b => e.fresh.contains b) && e.fvWrites.isEmpty\n\n"
             "/-- every concrete Vectorizable class resolves the seven methods exactly as the model assumes -/\n"
             "theorem dispatch_ok : Generated.dispatch = expectedDispatch := by decide\n\n"
             "/-- no Vectorizable class has appeared or disappeared -/\n"
             "theorem dispatch_count : Generated.dispatch.length = 23 := by decide\n\n"
             "/-- for every class, `from_vector` is either a constructor rebuild or `copy()` + an in-place update that\n"
             "writes only into buffers the resolved `copy` makes fresh (receiver purity, see Props/C05.lean) -/\n"
             "theorem dispatch_pure : ∀ r ∈ Generated.dispatch, rowPure r = true := by decide\n\n"
             "/-- what the live objects do to their arrays stays WITHIN what the model allows (one direction only: the\n"
             "property does not say which arrays are shared or rebound, so a safer copy or a rebinding supplier must not\n"
             "raise an alarm): every array a live `_from_vector_inplace` wrote in place is one the model's supplier may\n"
             "write, every array the model takes to be fresh in `copy()` is fresh in the live copy, no `from_vector`\n"
             "wrote to its receiver.  (The exact equality `Generated.effects = expectedEffects` is kept as an informational\n"
             "drift report in GenProps/C05Drift.lean.) -/\n"
             "theorem effects_sound : Generated.effects.length = expectedEffects.length ∧\n"
             "    (List.zipWith effSound Generated.effects expectedEffects).all id = true := by decide\n\n"
             "/-- measured directly: no `from_vector` changed an array of its receiver, and every array a live\n"
             "`_from_vector_inplace` wrote in place is fresh in the live `copy()` of that class -/\n"
             "theorem effects_pure : ∀ e ∈ Generated.effects,\n"
             "    e.fvWrites = [] ∧ e.fviWrites.all (fun b => e.fresh.contains b) = true := by decide\n\n"
             "end MenpoModel.C05.GenProps\n")
    drift = ("/- INFORMATIONAL (not an obligation of the check): the measured effects table is exactly the one the model's\n"
             "   per-supplier tables predict.  When this file stops building while GenProps/C05.lean still builds, the code\n"
             "   shares / rebinds / writes its arrays differently from the model but still within what the heap theorems\n"
             "   need (effects_sound, effects_pure): reported in the evidence as `effects_table_drift`, no alarm. -/\n"
             "import MenpoModel.Generated.C05Effects\n\nnamespace MenpoModel.C05.GenProps\nopen MenpoModel.C05\n\n"
             "theorem effects_ok : Generated.effects = expectedEffects := by decide\n\n"
             "end MenpoModel.C05.GenProps\n")
    return {"MenpoModel/Generated/C05Dispatch.lean": gen, "MenpoModel/Generated/C05Effects.lean": effects_lean(),
            "MenpoModel/GenProps/C05.lean": props, "MenpoModel/GenProps/C05Drift.lean": drift}


TARGETS = ["MenpoModel.Generated.C05Dispatch", "MenpoModel.Generated.C05Effects", "MenpoModel.GenProps.C05"]
N_OBLIGATIONS = 5
