"""C07 — the alignment code TRANSLATED from the source text of the current working tree into Lean
(`lean/MenpoModel/Generated/C07Src.lean`) on every run of `./check C07`; `lean/MenpoModel/GenProps/C07Src.lean` proves
every translated definition equal, for all arguments, to the Core definition the C07 theorems are about.

harness/py2lean2.py (Translator2M) is the translator; this file is the C07 vocabulary: per function a table of rules
`python pattern with $metavariables -> Lean template` over the operations of `Core/C07Align.lean` / `Core/C07Src.lean`.

What is translated (one Lean definition each):
  base.py / alignment.py   Targetable.set_target, _target_setter_with_verification, _sync_target_from_state;
                           Alignment.__init__, aligned_source, alignment_error, _target_setter, _new_target_from_state
  shape/pointcloud.py      PointCloud.centre, PointCloud.norm
  translation.py           AlignmentTranslation.__init__, _sync_state_from_target
  scale.py                 AlignmentUniformScale.__init__, _sync_state_from_target
  affine.py                AlignmentAffine._build_alignment_h_matrix, _set_h_matrix, __init__, _sync_state_from_target
  rotation.py              optimal_rotation_matrix, AlignmentRotation.set_rotation_matrix, __init__, _sync_state_from_target
  similarity.py            procrustes_alignment, AlignmentSimilarity.__init__, _sync_state_from_target
  piecewiseaffine/base.py  alpha_beta, containment_from_alpha_beta, index_alpha_beta (one query point against the
                           triangle list), barycentric_vectors (one triangle), AbstractPWA.__init__,
                           _rebuild_target_vectors, _sync_state_from_target, _apply, PythonPWA.__init__, index_alpha_beta
  thinplatesplines.py      ThinPlateSplines.__init__, _build_coefficients, _sync_state_from_target, _apply
and the defaults of the option parameters.

Besides the rules, some functions need a fact about the live classes that is not in their own text (which method a
`Cls.__init__(self, …)` call ends up in): `_require` checks it on the live MRO, and a failed check makes the function
untranslatable (stub body, broken obligation) — never a crash."""
import os

from . import py2lean2 as P

GEN_REL = os.path.join("MenpoModel", "Generated", "C07Src.lean")
GEN_TARGETS = ["MenpoModel.Generated.C07Src", "MenpoModel.GenProps.C07Src", "MenpoModel.GenProps.C07SrcPwa",
               "MenpoModel.GenProps.C07SrcTps", "MenpoModel.GenProps.C07SrcGpa", "MenpoModel.GenProps.C07SrcProps"]
N_DEFS = 0


def _inplace_map(self, st, rest, scope, ind, ctx):
    ast = P.ast
    if st.orelse or not isinstance(st.target, ast.Name):
        return None
    x = st.target.id
    try:
        names = self.assigned_names(st.body)
    except P.Untranslatable:
        return None
    if names != [x] or x in scope:
        return None
    if self._has(st.body, (ast.Return, ast.Raise, ast.Break, ast.Continue), True):
        return None
    pad = "  " * ind
    it = self.pure(st.iter, scope)
    item = self.fresh(x, scope)
    sc = dict(scope)
    sc[x] = item
    inner = P._Ctx(exit_=lambda v, s_, i: "  " * i + v, end=lambda s_, i: "  " * i + s_[x])
    body = self.block(list(st.body), sc, ind + 2, inner)
    res = self.fresh(x + "s", scope)
    sc2 = dict(scope)
    sc2["\0tmp" + res] = res
    store = ast.Assign(targets=[ast.parse(ast.unparse(st.iter), mode="eval").body], value=ast.Name(id="\0res", ctx=ast.Load()))
    sc2["\0res"] = res
    k = self.block([ast.fix_missing_locations(store)] + rest, sc2, ind, ctx)
    return "%slet %s := List.map (fun %s =>\n%s) %s\n%s" % (pad, res, item, body, it, k)


def _float(n, d):
    return "(%d : Rat)" % n if d == 1 else "((%d : Rat) / %d)" % (n, d)


def R(expr=(), stmt=(), **kw):
    kw.setdefault("ret", "{e}")
    kw.setdefault("raise_", None)
    kw.setdefault("float_", _float)
    binop = {P.ast.Div: "({a} / {b})", P.ast.MatMult: "(mul {a} {b})"}     # `/` and `@`; `+ - *` are the defaults
    binop.update(kw.pop("binop", None) or {})
    return P.Rules2M(expr=expr, stmt=stmt, binop=binop, **kw)


def _fn(cls, name):
    f = cls.__dict__[name]
    if isinstance(f, property):
        return f.fget
    return getattr(f, "__func__", f)


def _require(cond, why):
    if not cond:
        raise P.Untranslatable(why)


def _provider(cls, name):
    for k in cls.__mro__:
        if name in k.__dict__:
            return k
    return None


class T(P.Translator2M):
    """Translator2M plus one generic form (kept here so that the shared file is not edited while other builders use it):
    `a.x, a.y = e1, e2` — a tuple assignment whose targets are attributes / subscripts: all right-hand sides are
    evaluated first (into temporaries), then stored one by one through the statement rules; an all-constant right-hand
    side (`= None, None`) is split directly;
    `a, b, c = <call that may raise>` (bind first, then take apart); `a.x += e` on an attribute;
    `for x in <lvalue>: <in-place statements on x>` = the lvalue is re-bound to the list of the updated elements;
    a generator expression handed to a consumer (`sum(p for p in l)`) is the list of its values;
    a call WITHOUT a rule to a function of the same module / a method of the same class (a helper that a refactoring
    extracted) is translated with the caller's rules and inlined at the call site;
    names without a letter (`_`) get a Lean identifier."""

    _k = 0
    _inplace_map = _inplace_map

    @staticmethod
    def fresh(name, scope):
        # `_` (an ignored component of a tuple) and other names without a letter still need a Lean identifier
        base = name.replace("_", "") or "w"
        if not base[0].isalpha():
            base = "w" + base
        used = set(scope.values())
        k, cand = 0, base + "0"
        while cand in used:
            k += 1
            cand = "%s%d" % (base, k)
        return cand

    def expr(self, node, scope):
        try:
            return P.Translator2M.expr(self, node, scope)
        except P.Untranslatable:
            if isinstance(node, P.ast.GeneratorExp):      # a generator consumed once (`sum(x for ..)`) is the list
                return self.comprehension(node, scope, "list"), ""
            if isinstance(node, P.ast.Call):
                inl = self._inline_call(node, scope)
                if inl is not None:
                    return inl, ""
            raise

    # ---- helpers that a refactoring extracted: a call without a rule to a function of the same module / a method of
    # ---- the same class is translated with the caller's rules and inlined at the call site (pure helpers that return)
    _fn_stack = ()

    def function(self, fn, arg_names, ind=2, allow_unused=()):
        old = self._fn_stack
        self._fn_stack = old + (fn,)
        try:
            return P.Translator2M.function(self, fn, arg_names, ind=ind, allow_unused=allow_unused)
        finally:
            self._fn_stack = old

    @staticmethod
    def _pure_lvalue(node):
        ast = P.ast
        while isinstance(node, ast.Attribute):
            node = node.value
        return isinstance(node, ast.Name)

    def _splice_call(self, call):
        """statements of a helper called as a statement, its parameters replaced by the (side-effect free) arguments"""
        ast = P.ast
        if len(self._fn_stack) > 3:
            return None
        r = self._resolve_callee(call.func)
        if r is None:
            return None
        f, recv, _static = r
        if f in self._fn_stack:
            return None
        cnode, _src = P.source_ast(f)
        a = cnode.args
        if a.vararg or a.kwarg or a.kwonlyargs or a.posonlyargs or call.keywords:
            return None
        params = [x.arg for x in a.args]
        args = ([recv] if recv is not None else []) + list(call.args)
        if len(args) != len(params):
            return None
        if not all(self._pure_lvalue(x) or isinstance(x, ast.Constant) for x in args):
            return None
        body = [b for b in cnode.body if not (isinstance(b, ast.Expr) and isinstance(b.value, ast.Constant))]
        if any(isinstance(n_, (ast.Return, ast.Yield, ast.YieldFrom)) for b in body for n_ in ast.walk(b)):
            return None
        assigned = set(P.Translator2.assigned_names(self, body))
        if assigned & set(params):
            return None                                   # the helper rebinds a parameter: not a plain in-place helper
        T._k += 1
        ren = {n_: "%s_h%d" % (n_, T._k) for n_ in assigned}
        sub = dict(zip(params, args))

        class Sub(ast.NodeTransformer):
            def visit_Name(self_, node):
                if node.id in sub:
                    return ast.copy_location(ast.parse(ast.unparse(sub[node.id]), mode="eval").body, node)
                if node.id in ren:
                    return ast.copy_location(ast.Name(id=ren[node.id], ctx=node.ctx), node)
                return node
        import copy as _copy
        return [ast.fix_missing_locations(Sub().visit(_copy.deepcopy(b))) for b in body]

    def _resolve_callee(self, func):
        """(python function, lean text of the receiver or None) for `helper(..)` / `self.helper(..)` / `Cls.helper(..)`"""
        import inspect
        import sys
        if not self._fn_stack:
            return None
        cur = self._fn_stack[-1]
        glob = getattr(cur, "__globals__", {})
        ast = P.ast
        if isinstance(func, ast.Name):
            f = glob.get(func.id)
            if inspect.isfunction(f) and f.__module__ == cur.__module__:
                return f, None, False
            return None
        if isinstance(func, ast.Attribute) and isinstance(func.value, ast.Name):
            qual = getattr(cur, "__qualname__", "")
            if "." not in qual:
                return None
            owner = getattr(sys.modules.get(cur.__module__), qual.split(".")[0], None)
            if owner is None:
                return None
            if func.value.id in ("self", "cls") or func.value.id == owner.__name__:
                raw = None
                for k in owner.__mro__:
                    if func.attr in k.__dict__:
                        raw = k.__dict__[func.attr]
                        break
                if raw is None or getattr(getattr(raw, "__func__", raw), "__module__", None) != cur.__module__:
                    return None
                static = isinstance(raw, staticmethod)
                f = getattr(raw, "__func__", raw)
                if not inspect.isfunction(f):
                    return None
                return f, (None if static else func.value), static
        return None

    def _inline_call(self, node, scope):
        ast = P.ast
        if len(self._fn_stack) > 3:
            return None
        r = self._resolve_callee(node.func)
        if r is None:
            return None
        f, recv, _static = r
        if f in self._fn_stack:
            return None                                   # recursion is the caller's business (a rule)
        cnode, _src = P.source_ast(f)
        a = cnode.args
        if a.vararg or a.kwarg or a.kwonlyargs or a.posonlyargs:
            return None
        params = [x.arg for x in a.args]
        sc = {}
        if recv is not None:
            if not params:
                return None
            sc[params[0]] = self.pure(recv, scope)
            params = params[1:]
        if len(node.args) > len(params):
            return None
        given = {}
        for p_, v_ in zip(params, node.args):
            given[p_] = v_
        for kw_ in node.keywords:
            if kw_.arg is None or kw_.arg not in params or kw_.arg in given:
                return None
            given[kw_.arg] = kw_.value
        defaults = dict(zip(params[len(params) - len(a.defaults):], a.defaults))
        for p_ in params:
            if p_ in given:
                sc[p_] = self.pure(given[p_], scope)
            elif p_ in defaults:
                sc[p_] = self.pure(defaults[p_], scope)
            else:
                return None
        # keep the caller's names out of the helper's way: helper locals are made fresh against both scopes
        shadow = dict(scope)
        shadow.update(sc)
        old = self._fn_stack
        self._fn_stack = old + (f,)
        saved = (self.r.ret, self.r.raise_, self.r.raise_by, self.r.end)
        # the helper's value is used as an operand: it returns the bare value and may not raise
        self.r.ret, self.r.raise_, self.r.raise_by, self.r.end = "{e}", None, {}, None
        try:
            def _exit(v, s_, i):
                if v is None:
                    raise P.Untranslatable("helper %s may raise" % f.__name__)
                return "  " * i + v
            ctx = P._Ctx(exit_=_exit,
                         end=lambda s_, i: (_ for _ in ()).throw(P.Untranslatable("helper %s falls off its end" % f.__name__)))
            body = self.block(list(cnode.body), shadow, 0, ctx)
        finally:
            self._fn_stack = old
            self.r.ret, self.r.raise_, self.r.raise_by, self.r.end = saved
        return "(" + body.replace("\n", "\n  ") + ")"

    def _block1(self, stmts, scope, ind, ctx):
        ast = P.ast
        st = stmts[0] if stmts else None
        if (isinstance(st, ast.Assign) and len(st.targets) == 1 and isinstance(st.targets[0], (ast.Tuple, ast.List))
                and not all(isinstance(e, ast.Name) for e in st.targets[0].elts)):
            tg = st.targets[0].elts
            if not (isinstance(st.value, (ast.Tuple, ast.List)) and len(st.value.elts) == len(tg)):
                raise P.Untranslatable("tuple assignment `%s`" % ast.unparse(st))
            if all(isinstance(v, ast.Constant) for v in st.value.elts):
                new = [ast.Assign(targets=[t], value=v) for t, v in zip(tg, st.value.elts)]
            else:
                T._k += 1
                tmps = ["tup%d_%d" % (T._k, i) for i in range(len(tg))]
                new = [ast.Assign(targets=[ast.Name(id=n, ctx=ast.Store())], value=v) for n, v in zip(tmps, st.value.elts)]
                new += [ast.Assign(targets=[t], value=ast.Name(id=n, ctx=ast.Load())) for t, n in zip(tg, tmps)]
            return self.block([ast.fix_missing_locations(x) for x in new] + list(stmts[1:]), scope, ind, ctx)
        # `a.x += e` on an attribute
        if isinstance(st, ast.AugAssign) and not isinstance(st.target, ast.Name):
            load = ast.parse(ast.unparse(st.target), mode="eval").body
            new = ast.Assign(targets=[st.target], value=ast.BinOp(left=load, op=st.op, right=st.value))
            return self.block([ast.fix_missing_locations(new)] + list(stmts[1:]), scope, ind, ctx)
        # `for x in IT: [t = ..;] L.append(E)`  ->  L = L + [E for x in IT]   (loop and comprehension are one canonical form;
        # assignments to fresh locals in front of the append are the element's own temporaries)
        if isinstance(st, ast.For) and not st.orelse and st.body:
            last, pre = st.body[-1], st.body[:-1]
            if (isinstance(last, ast.Expr) and isinstance(last.value, ast.Call) and isinstance(last.value.func, ast.Attribute)
                    and last.value.func.attr == "append" and isinstance(last.value.func.value, ast.Name)
                    and last.value.func.value.id in scope and len(last.value.args) == 1 and not last.value.keywords
                    and all(isinstance(b, ast.Assign) and len(b.targets) == 1 and isinstance(b.targets[0], ast.Name)
                            and b.targets[0].id not in scope for b in pre)):
                lst = last.value.func.value.id
                it = self.pure(st.iter, scope)
                item = self.fresh("it", scope)
                sc_i = dict(scope)
                sc_i["\0tmp" + item] = item
                lines, sc_i = self.bind_target(st.target, item, sc_i)
                saved = (self.r.ret, self.r.end)
                self.r.ret, self.r.end = "{e}", None
                try:
                    inner = P._Ctx(exit_=lambda v, s_, i: "  " * i + v,
                                   end=lambda s_, i: (_ for _ in ()).throw(P.Untranslatable("append loop")))
                    ret = ast.fix_missing_locations(ast.Return(value=last.value.args[0]))
                    body = self.block(list(pre) + [ret], sc_i, ind + 2, inner)
                finally:
                    self.r.ret, self.r.end = saved
                lets = "".join("  " * (ind + 2) + l + "\n" for l in lines)
                val = "(List.append %s (List.map (fun %s =>\n%s%s) %s))" % (scope[lst], item, lets, body, it)
                fresh = self.fresh(lst, scope)
                sc = dict(scope)
                sc[lst] = fresh
                return "%slet %s := %s\n%s" % ("  " * ind, fresh, val, self.block(list(stmts[1:]), sc, ind, ctx))
        # `helper(lvalue, args)` as a STATEMENT, without a rule, for a helper of the same module / class that only runs
        # statements on its parameters: the helper's body is spliced in with the arguments substituted for its parameters
        if isinstance(st, ast.Expr) and isinstance(st.value, ast.Call) and not any(P.match(p_, st, {}) for p_, _r, _t in self.r.stmt):
            sp = self._splice_call(st.value)
            if sp is not None:
                return self.block(sp + list(stmts[1:]), scope, ind, ctx)
        # `c = type(x)` ... `c(args)`: a class-valued temporary is propagated to where it is called (rules speak of `type(x)(..)`)
        if (isinstance(st, ast.Assign) and len(st.targets) == 1 and isinstance(st.targets[0], ast.Name)
                and isinstance(st.value, ast.Call) and isinstance(st.value.func, ast.Name) and st.value.func.id == "type"
                and len(st.value.args) == 1 and not st.value.keywords and self._pure_lvalue(st.value.args[0])):
            name, val = st.targets[0].id, st.value
            rest = list(stmts[1:])
            if name not in self.assigned_names(rest):
                class Sub(ast.NodeTransformer):
                    def visit_Name(self_, node):
                        if node.id == name and isinstance(node.ctx, ast.Load):
                            return ast.copy_location(ast.parse(ast.unparse(val), mode="eval").body, node)
                        return node
                rest = [ast.fix_missing_locations(Sub().visit(x)) for x in rest]
                return self.block(rest, scope, ind, ctx)
        # `for x in <lvalue>: <statements that only update x in place>`  ->  <lvalue> = [updated x for x in <lvalue>]
        if isinstance(st, ast.For):
            m = self._inplace_map(st, list(stmts[1:]), scope, ind, ctx)
            if m is not None:
                return m
        # `a, b, c = <call that may raise>`: bind the value first, then take it apart
        if (isinstance(st, ast.Assign) and len(st.targets) == 1 and isinstance(st.targets[0], (ast.Tuple, ast.List))
                and all(isinstance(e, ast.Name) for e in st.targets[0].elts)
                and any(flag == "bind" and P.match(pat, st.value, {}) for pat, _t, flag in self.r.expr)):
            T._k += 1
            tmp = "tupv%d" % T._k
            new = [ast.Assign(targets=[ast.Name(id=tmp, ctx=ast.Store())], value=st.value),
                   ast.Assign(targets=[st.targets[0]], value=ast.Name(id=tmp, ctx=ast.Load()))]
            return self.block([ast.fix_missing_locations(x) for x in new] + list(stmts[1:]), scope, ind, ctx)
        return P.Translator2M._block1(self, stmts, scope, ind, ctx)

# ---------------------------------------------------------------------------------------------- shared vocabulary
POINTS = [("$x.points", "{x}")]
OBJ = [("$s.source", "(ops.source {s})"), ("$s.target", "(ops.target {s})")]
HOBJ = [("$s.source", "({s}).source"), ("$s.target", "({s}).target"),
        ("$s.rotation", "({s}).rotation"), ("$s.allow_mirror", "({s}).allowMirror")]
SHAPE = [("$x.centre()", "(genPointCloudCentre {x})"), ("$x.norm()", "(genPointCloudNorm ext {x})"),
         ("$x.n_dims", "(nDims {x})")]
# one word for the matrix product however it is spelled (np.dot / .dot / @ - the last through the `@` operator rule)
LINALG = [("np.dot($a, $b)", "(mul {a} {b})"), ("$a.dot($b)", "(mul {a} {b})"), ("$a.T", "(tr {a})")]


def items():
    """[(lean signature ending in `:=`, thunk -> body text, stub body)] in definition order"""
    import importlib
    import menpo.base as mb
    import menpo.transform  # noqa: F401
    mod = importlib.import_module
    al = mod("menpo.transform.base.alignment")
    aff = mod("menpo.transform.homogeneous.affine")
    rot = mod("menpo.transform.homogeneous.rotation")
    sim = mod("menpo.transform.homogeneous.similarity")
    sc = mod("menpo.transform.homogeneous.scale")
    tr = mod("menpo.transform.homogeneous.translation")
    hb = mod("menpo.transform.homogeneous.base")
    from menpo.shape import PointCloud
    out = []

    def add(sig, thunk, stub):
        out.append((sig, thunk, stub))

    # ------------------------------------------------------------------ shape/pointcloud.py
    shp = R(expr=POINTS + [("np.mean($x, axis=0)", "(centroid {x})"), ("$s.centre()", "(genPointCloudCentre {s})"),
                           ("np.linalg.norm($x, **$kw)", "(ext.frob {x})")])
    add("def genPointCloudCentre {n d : Nat} (self : Mat n d) : Vec d :=",
        lambda: T(shp).function(_fn(PointCloud, "centre"), {"self": "self"}, ind=1), "fun _ => 0")
    add("def genPointCloudNorm {n d : Nat} (ext : Ext) (self : Mat n d) : Rat :=",
        lambda: T(shp).function(_fn(PointCloud, "norm"), {"self": "self", "kwargs": "kwargs"}, ind=1), "0")

    # ------------------------------------------------------------------ menpo/base.py (Targetable), alignment.py
    base = R(expr=OBJ + POINTS + [
        ("$s.apply($x)", "(ops.apply {s} {x})"),
        ("$s.aligned_source()", "(genAlignedSource ops {s})"),
        ("$s._new_target_from_state()", "(genNewTargetFromState ops {s})"),
        ("np.linalg.norm($x)", "(ext.frob {x})")],
        stmt=[("$s._verify_source_and_target($a, $b)", "s", "{s}"),       # dimensions agree by typing
              ("$s._verify_target($t)", "s", "{s}"),
              ("$s._source = $v", "s", "(ops.setSource {s} {v})"),
              ("$s._target = $v", "s", "(ops.setTarget {s} {v})"),
              ("$s._target_setter($t)", "s", "(genTargetSetter ops {s} {t})"),
              ("$s._target_setter_with_verification($t)", "s", "(genTargetSetterWithVerification ops {s} {t})"),
              ("$s._sync_state_from_target()", "s", "(sync {s})")],
        end="{self}")
    OP = "{Obj Src Tgt : Type} (ops : ObjOps Obj Src Tgt)"
    add("def genAlignmentInit %s (self : Obj) (source : Src) (target : Tgt) : Obj :=" % OP,
        lambda: T(base).function(_fn(al.Alignment, "__init__"), {"self": "self", "source": "source", "target": "target"}, ind=1),
        "self")
    add("def genAlignedSource %s (self : Obj) : Tgt :=" % OP,
        lambda: T(base).function(_fn(al.Alignment, "aligned_source"), {"self": "self"}, ind=1), "ops.target self")
    add("def genAlignmentError {Obj Src : Type} {n d : Nat} (ext : Ext) (ops : ObjOps Obj Src (Mat n d)) (self : Obj) : Rat :=",
        lambda: T(base).function(_fn(al.Alignment, "alignment_error"), {"self": "self"}, ind=1), "0")
    add("def genTargetSetter %s (self : Obj) (newtarget : Tgt) : Obj :=" % OP,
        lambda: T(base).function(_fn(al.Alignment, "_target_setter"), {"self": "self", "new_target": "newtarget"}, ind=1), "self")
    add("def genNewTargetFromState %s (self : Obj) : Tgt :=" % OP,
        lambda: T(base).function(_fn(al.Alignment, "_new_target_from_state"), {"self": "self"}, ind=1), "ops.target self")
    add("def genTargetSetterWithVerification %s (self : Obj) (newtarget : Tgt) : Obj :=" % OP,
        lambda: T(base).function(_fn(mb.Targetable, "_target_setter_with_verification"),
                                 {"self": "self", "new_target": "newtarget"}, ind=1), "self")
    add("def genSyncTargetFromState %s (self : Obj) : Obj :=" % OP,
        lambda: T(base).function(_fn(mb.Targetable, "_sync_target_from_state"), {"self": "self"}, ind=1), "self")
    add("def genSetTarget %s (sync : Obj → Obj) (self : Obj) (newtarget : Tgt) : Obj :=" % OP,
        lambda: T(base).function(_fn(mb.Targetable, "set_target"), {"self": "self", "new_target": "newtarget"}, ind=1), "self")

    # ------------------------------------------------------------------ the plain transforms' constructors (base classes)
    # `setH` / `setRot` = the object's own `_set_h_matrix` / `set_rotation_matrix` (dynamic dispatch as a parameter)
    tl = mod("menpo.transform.homogeneous.translation")
    CT = "{n d : Nat} (setH : HObj n d → HMat d → Bool → Bool → HObj n d)"
    def ctor_stmts():
        return [("$s._h_matrix = None", "s", "{s}"),
                ("$s._set_h_matrix($h, copy=$c, skip_checks=$k)", "s", "(setH {s} {h} {c} {k})"),
                ("Homogeneous.__init__($s, $h, copy=$c, skip_checks=$k)", "s", "(genHomogeneousCtor setH {s} {h} {c} {k})"),
                ("Affine.__init__($s, $h, copy=$c, skip_checks=$k)", "s", "(genAffineCtor setH {s} {h} {c} {k})"),
                ("Similarity.__init__($s, $h, copy=$c, skip_checks=$k)", "s", "(genSimilarityCtor setH {s} {h} {c} {k})"),
                ("$s.set_rotation_matrix($v, skip_checks=$k)", "s", "(setRot {s} {v} {k})"),
                ("$h[:-1, -1] = $v", "h", "(setTransCol {h} {v})")]
    ctor = R(expr=[("np.asarray($x)", "{x}"), ("$v.shape[0]", "(vlen {v})"), ("np.eye($k)", "(one : Mat {k} {k})")],
             stmt=[("$s._h_matrix = None", "s", "{s}"),
                   ("$s._set_h_matrix($h, copy=$c, skip_checks=$k)", "s", "(setH {s} {h} {c} {k})"),
                   ("Homogeneous.__init__($s, $h, copy=$c, skip_checks=$k)", "s", "(genHomogeneousCtor setH {s} {h} {c} {k})"),
                   ("Affine.__init__($s, $h, copy=$c, skip_checks=$k)", "s", "(genAffineCtor setH {s} {h} {c} {k})"),
                   ("Similarity.__init__($s, $h, copy=$c, skip_checks=$k)", "s", "(genSimilarityCtor setH {s} {h} {c} {k})"),
                   ("$s.set_rotation_matrix($v, skip_checks=$k)", "s", "(setRot {s} {v} {k})"),
                   ("$h[:-1, -1] = $v", "h", "(setTransCol {h} {v})")],
             end="{self}")
    HP = {"self": "self", "h_matrix": "hmatrix", "copy": "copy", "skip_checks": "skipchecks"}
    for lean, cls_, in (("genHomogeneousCtor", hb.Homogeneous), ("genAffineCtor", aff.Affine), ("genSimilarityCtor", sim.Similarity)):
        add("def %s %s (self : HObj n d) (hmatrix : HMat d) (copy skipchecks : Bool) : HObj n d :=" % (lean, CT),
            lambda cls_=cls_: T(ctor).function(_fn(cls_, "__init__"), HP, ind=1), "HObj.blank")
    add("def genTranslationCtor %s (self : HObj n d) (translation : Vec d) (skipchecks : Bool) : HObj n d :=" % CT,
        lambda: T(ctor).function(_fn(tl.Translation, "__init__"), {"self": "self", "translation": "translation",
                                                                    "skip_checks": "skipchecks"}, ind=1), "HObj.blank")
    rctor = R(expr=[("$v.shape[0]", "(rowsOf {v})"), ("np.eye($k)", "(one : Mat {k} {k})")], stmt=ctor_stmts(), end="{self}")
    add("def genRotationCtor %s (setRot : HObj n d → Mat d d → Bool → HObj n d) (self : HObj n d) (rotationmatrix : Mat d d) "
        "(skipchecks : Bool) : HObj n d :=" % CT,
        lambda: T(rctor).function(_fn(rot.Rotation, "__init__"), {"self": "self", "rotation_matrix": "rotationmatrix",
                                                                   "skip_checks": "skipchecks"}, ind=1), "HObj.blank")

    def skip_default(cls_):
        return lean_bool(T(R()).defaults(_fn(cls_, "__init__")).get("skip_checks"))

    # ------------------------------------------------------------------ the homogeneous family: shared pieces
    def homog_init_stmt():
        # `HomogFamilyAlignment.__init__` is `Alignment.__init__` (the class adds no constructor of its own)
        _require(_provider(hb.HomogFamilyAlignment, "__init__") is al.Alignment,
                 "HomogFamilyAlignment.__init__ is no longer Alignment.__init__")
        return ("HomogFamilyAlignment.__init__($s, $a, $b)", "s", "(genAlignmentInit HObj.ops {s} {a} {b})")

    def pure_setter(cls):
        # the constructor of the plain transform stores the matrix through `_set_h_matrix`; for this alignment class
        # that is the plain setter (no re-sync of the target)
        _require(_provider(cls, "_set_h_matrix") in (aff.Affine, hb.Homogeneous),
                 "%s._set_h_matrix is no longer the plain Affine setter" % cls.__name__)

    HSIG = "{n d : Nat} (ext : Ext)"

    # ------------------------------------------------------------------ translation.py
    def translation_rules():
        pure_setter(tr.AlignmentTranslation)
        return R(expr=HOBJ + SHAPE,
                 stmt=[homog_init_stmt(),
                       ("Translation.__init__($s, $v)", "s",
                        "(genTranslationCtor plainSetH {s} {v} %s)" % skip_default(tr.Translation)),
                       ("$s.h_matrix[:-1, -1] = $v", "s", "(HObj.setH {s} (setTransCol ({s}).h {v}))")],
                 end="{self}")
    add("def genTranslationInit %s (self : HObj n d) (source target : Mat n d) : HObj n d :=" % HSIG,
        lambda: T(translation_rules()).function(_fn(tr.AlignmentTranslation, "__init__"),
                                                {"self": "self", "source": "source", "target": "target"}, ind=1), "self")
    add("def genTranslationSync %s (self : HObj n d) : HObj n d :=" % HSIG,
        lambda: T(translation_rules()).function(_fn(tr.AlignmentTranslation, "_sync_state_from_target"), {"self": "self"}, ind=1),
        "self")

    # ------------------------------------------------------------------ scale.py
    def scale_rules():
        pure_setter(sc.AlignmentUniformScale)
        return R(expr=HOBJ + SHAPE,
                 stmt=[homog_init_stmt(),
                       ("UniformScale.__init__($s, $v, $n)", "s", "(HObj.setH {s} (scaleH (d := {n}) {v}))"),
                       ("np.fill_diagonal($s.h_matrix, $v)", "s", "(HObj.setH {s} (fillDiagonal ({s}).h {v}))"),
                       ("$s.h_matrix[-1, -1] = $v", "s", "(HObj.setH {s} (setLastDiag ({s}).h {v}))")],
                 end="{self}")
    add("def genScaleInit %s (self : HObj n d) (source target : Mat n d) : HObj n d :=" % HSIG,
        lambda: T(scale_rules()).function(_fn(sc.AlignmentUniformScale, "__init__"),
                                          {"self": "self", "source": "source", "target": "target"}, ind=1), "self")
    add("def genScaleSync %s (self : HObj n d) : HObj n d :=" % HSIG,
        lambda: T(scale_rules()).function(_fn(sc.AlignmentUniformScale, "_sync_state_from_target"), {"self": "self"}, ind=1),
        "self")

    # ------------------------------------------------------------------ affine.py
    def affine_rules():
        # `Affine.__init__` stores the matrix through `self._set_h_matrix`, which for this class is its own override
        _require(_provider(aff.AlignmentAffine, "_set_h_matrix") is aff.AlignmentAffine,
                 "AlignmentAffine no longer overrides _set_h_matrix")
        return R(expr=HOBJ + LINALG + [
            ("$x.h_points()", "(hpoints {x})"),
            ("np.linalg.solve($g, $y)", "(solveChecked {g} {y})", "bind"),
            ("$s._build_alignment_h_matrix($a, $b)", "(genAffineBuildH {a} {b})", "bind")],
            stmt=[homog_init_stmt(),
                  ("Affine._set_h_matrix($s, $v, copy=$c, skip_checks=$k)", "s", "(HObj.setH {s} {v})"),
                  ("Affine.__init__($s, $v, copy=False, skip_checks=True)", "s", "(genAffineCtor genAffineSetH {s} {v} false true)"),
                  ("$s._sync_target_from_state()", "s", "(genSyncTargetFromState HObj.ops {s})"),
                  ("$s._target = $v", "s", "(HObj.ops.setTarget {s} {v})")],
            ret="some ({e})", end="some {self}")
    add("def genAffineBuildH {n d : Nat} (source target : Mat n d) : Option (HMat d) :=",
        lambda: T(affine_rules()).function(_fn(aff.AlignmentAffine, "_build_alignment_h_matrix"),
                                           {"source": "source", "target": "target"}, ind=1), "none")

    def affine_plain():
        r = affine_rules()
        r.ret, r.end = "{e}", "{self}"
        return r
    add("def genAffineSetH {n d : Nat} (self : HObj n d) (value : HMat d) (copy skipchecks : Bool) : HObj n d :=",
        lambda: T(affine_plain()).function(_fn(aff.AlignmentAffine, "_set_h_matrix"),
                                           {"self": "self", "value": "value", "copy": "copy", "skip_checks": "skipchecks"}, ind=1),
        "self")
    add("def genAffineInit {n d : Nat} (self : HObj n d) (source target : Mat n d) : Option (HObj n d) :=",
        lambda: T(affine_rules()).function(_fn(aff.AlignmentAffine, "__init__"),
                                           {"self": "self", "source": "source", "target": "target"}, ind=1), "none")
    add("def genAffineSync {n d : Nat} (self : HObj n d) : Option (HObj n d) :=",
        lambda: T(affine_rules()).function(_fn(aff.AlignmentAffine, "_sync_state_from_target"), {"self": "self"}, ind=1), "none")

    # ------------------------------------------------------------------ rotation.py
    kabsch = R(expr=POINTS + LINALG + [
        ("np.linalg.svd($m)", "(ext.svd {m})"), ("np.linalg.det($m)", "(det {m})"), ("np.sign($x)", "(signQ {x})"),
        ("$u.shape[0]", "(rowsOf {u})"), ("np.eye($k)", "(one : Mat {k} {k})")],
        stmt=[("$e[-1, -1] = $v", "e", "(setLastDiag {e} {v})")])
    add("def genOptimalRotationMatrix %s (source target : Mat n d) (allowmirror : Bool) : Mat d d :=" % HSIG,
        lambda: T(kabsch).function(rot.optimal_rotation_matrix,
                                   {"source": "source", "target": "target", "allow_mirror": "allowmirror"}, ind=1),
        "fun _ _ => 0")

    def rotation_rules():
        # `Rotation.__init__` sets the identity matrix through the plain setter and then calls
        # `self.set_rotation_matrix`, which for this class is its own override (it re-syncs the target)
        pure_setter(rot.AlignmentRotation)
        _require(_provider(rot.AlignmentRotation, "set_rotation_matrix") is rot.AlignmentRotation,
                 "AlignmentRotation no longer overrides set_rotation_matrix")
        return R(expr=HOBJ + [
            ("optimal_rotation_matrix($a, $b, allow_mirror=$m)", "(genOptimalRotationMatrix ext {a} {b} {m})")],
            stmt=[homog_init_stmt(),
                  ("Rotation.set_rotation_matrix($s, $v, skip_checks=$k)", "s", "(HObj.setH {s} (setLinPart ({s}).h {v}))"),
                  ("Rotation.__init__($s, $v)", "s",
                   "(genRotationCtor plainSetH (genRotationSetRotationMatrix ext) {s} {v} %s)" % skip_default(rot.Rotation)),
                  ("$s._sync_target_from_state()", "s", "(genSyncTargetFromState HObj.ops {s})"),
                  ("$s._target = $v", "s", "(HObj.ops.setTarget {s} {v})"),
                  ("$s.allow_mirror = $v", "s", "(HObj.setAllowMirror {s} {v})")],
            end="{self}")
    add("def genRotationSetRotationMatrix %s (self : HObj n d) (value : Mat d d) (skipchecks : Bool) : HObj n d :=" % HSIG,
        lambda: T(rotation_rules()).function(_fn(rot.AlignmentRotation, "set_rotation_matrix"),
                                             {"self": "self", "value": "value", "skip_checks": "skipchecks"}, ind=1), "self")
    add("def genRotationInit %s (self : HObj n d) (source target : Mat n d) (allowmirror : Bool) : HObj n d :=" % HSIG,
        lambda: T(rotation_rules()).function(_fn(rot.AlignmentRotation, "__init__"),
                                             {"self": "self", "source": "source", "target": "target",
                                              "allow_mirror": "allowmirror"}, ind=1), "self")
    add("def genRotationSync %s (self : HObj n d) : HObj n d :=" % HSIG,
        lambda: T(rotation_rules()).function(_fn(rot.AlignmentRotation, "_sync_state_from_target"), {"self": "self"}, ind=1),
        "self")

    # ------------------------------------------------------------------ similarity.py
    proc = R(expr=SHAPE + [
        ("Translation($v, skip_checks=True)", "(translationH {v})"),
        ("UniformScale($s, $n, skip_checks=True)", "(scaleH (d := {n}) {s})"),
        ("Similarity.init_identity($n)", "(one : HMat {n})"),
        ("Rotation($m, skip_checks=True)", "(rotationH {m})"),
        ("optimal_rotation_matrix($a, $b, allow_mirror=$m)", "(genOptimalRotationMatrix ext {a} {b} {m})"),
        ("$p.apply($x)", "(applyH {p} {x})"),
        ("$t.pseudoinverse()", "(translationInv {t})")],
        stmt=[("$p.compose_before_inplace($t)", "p", "(mul {t} {p})")])
    add("def genProcrustesAlignment %s (source target : Mat n d) (rotation allowmirror : Bool) : HMat d :=" % HSIG,
        lambda: T(proc).function(sim.procrustes_alignment,
                                 {"source": "source", "target": "target", "rotation": "rotation",
                                  "allow_mirror": "allowmirror"}, ind=1), "fun _ _ => 0")

    def similarity_rules():
        pure_setter(sim.AlignmentSimilarity)
        return R(expr=HOBJ + [
            ("procrustes_alignment($a, $b, rotation=$r, allow_mirror=$m)", "(genProcrustesAlignment ext {a} {b} {r} {m})"),
            ("$x.h_matrix", "{x}")],
            stmt=[homog_init_stmt(),
                  ("Similarity.__init__($s, $v, copy=False, skip_checks=True)", "s", "(genSimilarityCtor plainSetH {s} {v} false true)"),
                  ("$s._set_h_matrix($v, copy=False, skip_checks=True)", "s", "(HObj.setH {s} {v})"),
                  ("$s.rotation = $v", "s", "(HObj.setRotation {s} {v})"),
                  ("$s.allow_mirror = $v", "s", "(HObj.setAllowMirror {s} {v})")],
            end="{self}")
    add("def genSimilarityInit %s (self : HObj n d) (source target : Mat n d) (rotation allowmirror : Bool) : HObj n d :=" % HSIG,
        lambda: T(similarity_rules()).function(_fn(sim.AlignmentSimilarity, "__init__"),
                                               {"self": "self", "source": "source", "target": "target", "rotation": "rotation",
                                                "allow_mirror": "allowmirror"}, ind=1), "self")
    add("def genSimilaritySync %s (self : HObj n d) : HObj n d :=" % HSIG,
        lambda: T(similarity_rules()).function(_fn(sim.AlignmentSimilarity, "_sync_state_from_target"), {"self": "self"}, ind=1),
        "self")
    # ------------------------------------------------------------------ homogeneous/base.py: copy, pseudoinverse
    def pinv_rules():
        # every alignment class of the family takes copy / pseudoinverse from HomogFamilyAlignment
        for c in (tr.AlignmentTranslation, sc.AlignmentUniformScale, aff.AlignmentAffine, rot.AlignmentRotation,
                  sim.AlignmentSimilarity):
            _require(_provider(c, "pseudoinverse") is hb.HomogFamilyAlignment and _provider(c, "copy") is hb.HomogFamilyAlignment,
                     "%s no longer takes copy / pseudoinverse from HomogFamilyAlignment" % c.__name__)
        return R(expr=[("$s.__class__.__new__($s.__class__)", "(HObj.blank : HObj n d)"),
                       ("$s.__dict__.copy()", "{s}"), ("$s._h_matrix.copy()", "({s}).h"),
                       ("$s.copy()", "(genHomogCopy {s})"),
                       ("$s._h_matrix_pseudoinverse()", "(hinv ({s}).h)"),
                       ("$s._target", "({s}).target"), ("$s._source", "({s}).source")],
                 stmt=[("$s.__dict__ = $v", "s", "{v}"),             # every attribute of the original (shallow)
                       ("$s._h_matrix = $v", "s", "(HObj.setH {s} {v})"),
                       ("$s._source = $v", "s", "(HObj.ops.setSource {s} {v})"),
                       ("$s._target = $v", "s", "(HObj.ops.setTarget {s} {v})")])
    add("def genHomogCopy {n d : Nat} (self : HObj n d) : HObj n d :=",
        lambda: T(pinv_rules()).function(_fn(hb.HomogFamilyAlignment, "copy"), {"self": "self"}, ind=1), "HObj.blank")
    add("def genHomogPinv {n d : Nat} (hinv : HMat d → HMat d) (self : HObj n d) : HObj n d :=",
        lambda: T(pinv_rules()).function(_fn(hb.HomogFamilyAlignment, "pseudoinverse"), {"self": "self"}, ind=1), "HObj.blank")

    # ------------------------------------------------------------------ piecewiseaffine/base.py
    pw = mod("menpo.transform.piecewiseaffine.base")
    V0 = "(⟨0, 0⟩ : V2)"
    # alpha_beta for ONE triangle (i, ij, ik : V2) and ONE point
    ab = R(expr=[("$p[..., None] - $i", "(V2.sub {p} {i})"),
                 ('np.einsum("dt, dt -> t", $a, $b)', "(V2.dot {a} {b})"),
                 ('np.einsum("vdt, dt -> vt", $a, $b)', "(V2.dot {a} {b})")])
    add("def genAlphaBeta (i ij ik points : V2) : Rat × Rat :=",
        lambda: T(ab).function(pw.alpha_beta, {"i": "i", "ij": "ij", "ik": "ik", "points": "points"}, ind=1), "(0, 0)")
    # containment_from_alpha_beta for ONE point: alpha, beta = its rows over the triangle list
    cont = R(expr=[("$a >= 0", "(geZero {a})"), ("$a + $b <= 1", "(sumLeOne {a} {b})"),
                   ("np.logical_and($a, $b)", "(andL {a} {b})"),
                   ("np.any($x, axis=1)", "(List.any {x} id)"),
                   ("~$x", "(!{x})"), ("np.any($x)", "{x}"),        # the mask of ONE query point is a single Boolean
                   ("np.nonzero($x)", "((), nonzeroL {x})"),
                   ("np.zeros($a.shape[0])", "(0 : Nat)"), ("$x.astype(np.uint32)", "{x}")],
             stmt=[("$idx[$pi] = $ti", "idx", "(lastWriteOr {idx} {ti})")],
             ret="some ({e})", raise_by={"TriangleContainmentError": "none"})
    add("def genContainment (alpha beta : List Rat) : Option Nat :=",
        lambda: T(cont).function(pw.containment_from_alpha_beta, {"alpha": "alpha", "beta": "beta"}, ind=1), "none")
    # index_alpha_beta for ONE point against the per-triangle vectors
    iab = R(expr=[("alpha_beta($i, $ij, $ik, $p)",
                   "(List.unzip (zip3With (fun a b c => genAlphaBeta a b c {p}) {i} {ij} {ik}))"),
                  ("np.arange($p.shape[0])", "()"),
                  ("containment_from_alpha_beta($a, $b)", "(genContainment {a} {b})", "bind"),
                  ("$a[$e, $k]", "(List.getD {a} {k} 0)")],
            ret="some ({e})")
    add("def genIndexAlphaBeta (i ij ik : List V2) (points : V2) : Option (Nat × Rat × Rat) :=",
        lambda: T(iab).function(pw.index_alpha_beta, {"i": "i", "ij": "ij", "ik": "ik", "points": "points"}, ind=1), "none")
    # the three corners of every triangle, one word each; `a - b` on per-triangle vectors is the Np instance on List V2
    corners = [("$t[:, 0]", "(cornerI {t})"), ("$t[:, 1]", "(cornerJ {t})"), ("$t[:, 2]", "(cornerK {t})"),
               ("$x[0]", "(cornerI {x})"), ("$x[1]", "(cornerJ {x})"), ("$x[2]", "(cornerK {x})")]
    bary = R(expr=[("np.transpose($p[$t], axes=[1, 2, 0])", "(cornersOf {p} {t})")] + corners)
    add("def genBarycentricVectors (points : Nat → V2) (trilist : List Tri) : List V2 × List V2 × List V2 :=",
        lambda: T(bary).function(pw.barycentric_vectors, {"points": "points", "trilist": "trilist"}, ind=1), "([], [], [])")

    def pwa_rules(**kw):
        _require(_provider(pw.AbstractPWA, "trilist") is pw.AbstractPWA and isinstance(pw.AbstractPWA.__dict__["trilist"], property),
                 "AbstractPWA.trilist is no longer a property of AbstractPWA")
        kw.setdefault("end", "{self}")
        return R(expr=corners + [("$s.source.trilist", "(({s}).source).trilist"), ("$s.source.points", "(({s}).source).points"),
                       ("$s.target.points", "({s}).target"), ("$s.source", "({s}).source"),
                       ("$s.trilist", "(genPwaTrilist {s})"),
                       ("$s.n_dims", "(2 : Nat)"),
                       ("isinstance($x, TriMesh)", "({x}).isTriMesh"),
                       ("TriMesh($x.points)", "(SrcShape.mesh ⟨({x}).points, delaunay ({x}).points⟩)"),
                       ("$s.target.points[$t]", "(cornersOf ({s}).target {t})"),
                       ("barycentric_vectors($p, $t)", "(genBarycentricVectors {p} {t})"),
                       ("index_alpha_beta($s.s, $s.sij, $s.sik, $p)", "(genIndexAlphaBeta ({s}).s ({s}).sij ({s}).sik {p})"),
                       ("$s.index_alpha_beta($x)", "(indexAB {s} {x})", "bind"),
                       ("$s.ti[$k]", "(List.getD ({s}).ti {k} %s)" % V0), ("$s.tij[$k]", "(List.getD ({s}).tij {k} %s)" % V0),
                       ("$s.tik[$k]", "(List.getD ({s}).tik {k} %s)" % V0),
                       ("$a[:, None] * $v", "(V2.smul {a} {v})")],
                 stmt=[("Alignment.__init__($s, $a, $b)", "s", "(genAlignmentInit PwaObj.ops {s} {a} {b})"),
                       ("super(PythonPWA, $s).__init__($a, $b)", "s", "(genPwaInit delaunay {s} {a} {b})", "bind"),
                       ("$s.ti = None", "s", "{s}"), ("$s.tij = None", "s", "{s}"), ("$s.tik = None", "s", "{s}"),
                       ("$s.ti = $v", "s", "{{ {s} with ti := {v} }}"), ("$s.tij = $v", "s", "{{ {s} with tij := {v} }}"),
                       ("$s.tik = $v", "s", "{{ {s} with tik := {v} }}"),
                       ("$s.s = $v", "s", "{{ {s} with s := {v} }}"), ("$s.sij = $v", "s", "{{ {s} with sij := {v} }}"),
                       ("$s.sik = $v", "s", "{{ {s} with sik := {v} }}"),
                       ("$s._rebuild_target_vectors()", "s", "(genPwaRebuildTargetVectors {s})")],
                 binop={P.ast.Add: "(V2.add {a} {b})"}, **kw)
    add("def genPwaTrilist (self : PwaObj) : List Tri :=",
        lambda: T(pwa_rules()).function(_fn(pw.AbstractPWA, "trilist"), {"self": "self"}, ind=1), "[]")
    add("def genPwaRebuildTargetVectors (self : PwaObj) : PwaObj :=",
        lambda: T(pwa_rules()).function(_fn(pw.AbstractPWA, "_rebuild_target_vectors"), {"self": "self"}, ind=1), "self")
    add("def genPwaSync (self : PwaObj) : PwaObj :=",
        lambda: T(pwa_rules()).function(_fn(pw.AbstractPWA, "_sync_state_from_target"), {"self": "self"}, ind=1), "self")
    add("def genPwaInit (delaunay : (Nat → V2) → List Tri) (self : PwaObj) (source : SrcShape) (target : Nat → V2) : Option PwaObj :=",
        lambda: T(pwa_rules(ret="some ({e})", end="some {self}", raise_by={"ValueError": "none"})).function(
            _fn(pw.AbstractPWA, "__init__"), {"self": "self", "source": "source", "target": "target"}, ind=1), "none")
    add("def genPwaApply (indexAB : PwaObj → V2 → Option (Nat × Rat × Rat)) (self : PwaObj) (x : V2) : Option V2 :=",
        lambda: T(pwa_rules(ret="some ({e})")).function(_fn(pw.AbstractPWA, "_apply"), {"self": "self", "x": "x", "kwargs": "kwargs"},
                                                         ind=1, allow_unused=("kwargs",)), "none")
    add("def genPythonPwaInit (delaunay : (Nat → V2) → List Tri) (self : PwaObj) (source : SrcShape) (target : Nat → V2) : Option PwaObj :=",
        lambda: T(pwa_rules(ret="some ({e})", end="some {self}")).function(
            _fn(pw.PythonPWA, "__init__"), {"self": "self", "source": "source", "target": "target"}, ind=1), "none")
    add("def genPythonPwaIndexAlphaBeta (self : PwaObj) (points : V2) : Option (Nat × Rat × Rat) :=",
        lambda: T(pwa_rules()).function(_fn(pw.PythonPWA, "index_alpha_beta"), {"self": "self", "points": "points"}, ind=1), "none")

    def pwa_pinv_rules():
        return R(expr=[("$s.target.points", "({s}).target"), ("$s.source.points", "(({s}).source).points"),
                       ("$s.source.trilist", "(({s}).source).trilist"),
                       ("TriMesh($p, $t)", "(SrcShape.mesh ⟨{p}, {t}⟩)"), ("PointCloud($p)", "{p}"),
                       ("type($s)($a, $b)", "(genPythonPwaInit delaunay PwaObj.blank {a} {b})", "bind")],
                 ret="some ({e})")
    add("def genPwaPinv (delaunay : (Nat → V2) → List Tri) (self : PwaObj) : Option PwaObj :=",
        lambda: T(pwa_pinv_rules()).function(_fn(pw.AbstractPWA, "pseudoinverse"), {"self": "self"}, ind=1), "none")

    # ------------------------------------------------------------------ thinplatesplines.py
    tp = mod("menpo.transform.thinplatesplines")

    def tps_rules(**kw):
        kw.setdefault("end", "{self}")
        return R(expr=[("$s.source.points", "({s}).source"), ("$s.target.points", "({s}).target"), ("$x.points", "{x}"),
                       ("$s.n_dims", "(2 : Nat)"), ("$s.n_points", "(nPoints ({s}).source)"),
                       ("R2LogR2RBF($x)", "(rbf {x})"),
                       ("$s.kernel.apply($x)", "(({s}).kernel.app {x})"),
                       ("$s.min_singular_val", "({s}).minSing"),
                       ("$s.k", "({s}).k"), ("$s.p", "({s}).p"), ("$s.l", "({s}).l"), ("$s.v", "({s}).v"), ("$s.y", "({s}).y"),
                       ("np.concatenate([$a, $b], axis=1)", "(hcat {a} {b})"), ("np.hstack([$a, $b])", "(hcat {a} {b})"),
                       ("np.concatenate([$a, $b], axis=0)", "(vcat {a} {b})"),
                       ("np.ones([$a, $b])", "(onesM : Mat {a} {b})"), ("np.zeros([$a, $b])", "(zerosM : Mat {a} {b})"),
                       ("$x.T.copy()", "(tr {x})"), ("$x.T", "(tr {x})"),
                       ("np.linalg.svd($m)", "(ext.svd {m})"),
                       ("$v.shape[0]", "(vlen {v})"), ("$v < $t", "(belowV {v} {t})"), ("sum($b)", "(countTrue {b})"),
                       ("$u[:, :$k]", "(colsTo {k} {u})"), ("$s[:$k, None]", "(ColK.mk {k} {s})"),
                       ("$v[:$k, :]", "(rowsTo {k} {v})"),
                       ("$a.dot($b)", "(mul {a} {b})"), ("np.dot($a, $b)", "(mul {a} {b})"),
                       ("$p.shape[1]", "(nDims {p})"),
                       ("$p[..., 0][:, None]", "(colOf {p} 0)"), ("$p[..., 1][:, None]", "(colOf {p} 1)"),
                       ("$s.coefficients", "({s}).coefficients"),
                       ("$c[-3]", "(rowFromEnd {c} 2)"), ("$c[-2]", "(rowFromEnd {c} 1)"), ("$c[-1]", "(rowFromEnd {c} 0)"),
                       ("$c[-3:]", "(rowFromEnd {c} 2, rowFromEnd {c} 1, rowFromEnd {c} 0)"),
                       ("$c[:-3]", "(rowsButLast3 {c})"),
                       ],
                 stmt=[("Alignment.__init__($s, $a, $b)", "s", "(genAlignmentInit TpsObj.ops {s} {a} {b})"),
                       ("$s.min_singular_val = $v", "s", "{{ {s} with minSing := {v} }}"),
                       ("$s.kernel = $v", "s", "{{ {s} with kernel := (AsKern.get {v}) }}"),
                       ("$s.k = $v", "s", "{{ {s} with k := {v} }}"), ("$s.p = $v", "s", "{{ {s} with p := {v} }}"),
                       ("$s.l = $v", "s", "{{ {s} with l := {v} }}"),
                       ("$s.v = None", "s", "{s}"), ("$s.y = None", "s", "{s}"), ("$s.coefficients = None", "s", "{s}"),
                       ("$s.v = $v", "s", "{{ {s} with v := {v} }}"), ("$s.y = $v", "s", "{{ {s} with y := {v} }}"),
                       ("$s.coefficients = $v", "s", "{{ {s} with coefficients := {v} }}"),
                       ("$s._build_coefficients()", "s", "(genTpsBuildCoefficients ext {s})")],
                 **kw)
    add("def genTpsBuildCoefficients {n : Nat} (ext : Ext) (self : TpsObj n) : TpsObj n :=",
        lambda: T(tps_rules()).function(_fn(tp.ThinPlateSplines, "_build_coefficients"), {"self": "self"}, ind=1), "self")
    add("def genTpsSync {n : Nat} (ext : Ext) (self : TpsObj n) : TpsObj n :=",
        lambda: T(tps_rules()).function(_fn(tp.ThinPlateSplines, "_sync_state_from_target"), {"self": "self"}, ind=1), "self")
    add("def genTpsInit {n : Nat} (ext : Ext) (rbf : Mat n 2 → Kern n) (self : TpsObj n) (source target : Mat n 2) "
        "(kernel : Option (Kern n)) (minsingularval : Rat) : Option (TpsObj n) :=",
        lambda: T(tps_rules(ret="some ({e})", end="some {self}", raise_by={"ValueError": "none"})).function(
            _fn(tp.ThinPlateSplines, "__init__"),
            {"self": "self", "source": "source", "target": "target", "kernel": "kernel", "min_singular_val": "minsingularval"}, ind=1),
        "none")
    add("def genTpsApply {n m : Nat} (self : TpsObj n) (points : Mat m 2) : Option (Mat m 2) :=",
        lambda: T(tps_rules(ret="some ({e})", raise_by={"ValueError": "none"})).function(
            _fn(tp.ThinPlateSplines, "_apply"), {"self": "self", "points": "points", "kwargs": "kwargs"}, ind=1,
            allow_unused=("kwargs",)), "none")
    add("def genTpsPinv {n : Nat} (ext : Ext) (rbf : Mat n 2 → Kern n) (rekern : Kern n → Mat n 2 → Kern n) (self : TpsObj n) : "
        "Option (TpsObj n) :=",
        lambda: T(R(expr=[("$s.target.points", "({s}).target"), ("$s.target", "({s}).target"), ("$s.source", "({s}).source"),
                          ("$s.min_singular_val", "({s}).minSing"),
                          ("type($s.kernel)($x)", "(rekern ({s}).kernel {x})"),
                          ("ThinPlateSplines($a, $b, kernel=$k, min_singular_val=$m)",
                           "(genTpsInit ext rbf TpsObj.blank {a} {b} (some {k}) {m})", "bind")],
                    ret="some ({e})")).function(_fn(tp.ThinPlateSplines, "pseudoinverse"), {"self": "self"}, ind=1), "none")

    # ------------------------------------------------------------------ groupalign/base.py, groupalign/procrustes.py
    gb = mod("menpo.transform.groupalign.base")
    gp = mod("menpo.transform.groupalign.procrustes")
    go = mod("menpo.shape.groupops")

    def gpa_rules(**kw):
        # `t.set_target(x)` on a member is `Targetable.set_target` followed by the similarity's own re-fit, and a member is
        # built with the default `rotation` of `AlignmentSimilarity`
        _require(_provider(sim.AlignmentSimilarity, "set_target") is mb.Targetable,
                 "AlignmentSimilarity.set_target is no longer Targetable.set_target")
        _require(_provider(sim.AlignmentSimilarity, "_sync_state_from_target") is sim.AlignmentSimilarity,
                 "AlignmentSimilarity no longer has its own _sync_state_from_target")
        _require(_provider(gp.GeneralizedProcrustesAnalysis, "__init__") is gp.GeneralizedProcrustesAnalysis
                 and gp.GeneralizedProcrustesAnalysis.__mro__[1] is gb.MultipleAlignment,
                 "GeneralizedProcrustesAnalysis no longer derives directly from MultipleAlignment")
        rot_default = lean_bool(T(R()).defaults(_fn(sim.AlignmentSimilarity, "__init__")).get("rotation"))
        kw.setdefault("end", "{self}")
        return R(expr=[("len($x)", "(List.length {x})"),
                       ("$x[0].n_points", "(n)"), ("$x[0].n_dims", "(d)"), ("$s.n_dims", "(d != 0)"),
                       ("$s.n_sources", "({s}).nSources"), ("$s.sources", "({s}).sources"),
                       ("$s.transforms", "({s}).transforms"), ("$s.target.points", "({s}).target"),
                       ("$s.target", "({s}).target"),
                       ("$s.initial_target_scale", "({s}).initialTargetScale"),
                       ("$s.n_iterations", "({s}).nIterations"), ("$s.max_iterations", "({s}).maxIterations"),
                       ("sum($l)", "(sumL {l})"),
                       ("PointCloud($x, copy=False)", "{x}"), ("PointCloud($x)", "{x}"),
                       ("$t.aligned_source()", "(genAlignedSource HObj.ops {t})"),
                       ("$x.points", "{x}"), ("$x.norm()", "(genPointCloudNorm ext {x})"),
                       ("mean_pointcloud($l)", "(genMeanPointcloud {l})"),
                       ("scale_about_centre($p, $k)", "(scaleAboutCentreH {p} {k})"),
                       ("np.linalg.norm($x)", "(ext.frob {x})"),
                       ("AlignmentSimilarity($a, $b, allow_mirror=$m)",
                        "(genSimilarityInit ext HObj.blank {a} {b} %s {m})" % rot_default),
                       ("$s._recursive_procrustes()", "(rec {s})", "bind")],
                 stmt=[("super(GeneralizedProcrustesAnalysis, $s).__init__($a, target=$t)", "s",
                        "(genMultipleAlignmentInit {s} {a} {t})", "bind"),
                       ("$s.n_sources = $v", "s", "{{ {s} with nSources := {v} }}"),
                       ("$s.n_points = $v", "s", "{s}"), ("$s.n_dims = $v", "s", "{s}"),
                       ("$s.sources = $v", "s", "{{ {s} with sources := {v} }}"),
                       ("$s.target = $v", "s", "{{ {s} with target := (AsPts.get {v}) }}"),
                       ("$s.transforms = $v", "s", "{{ {s} with transforms := {v} }}"),
                       ("$s.initial_target_scale = $v", "s", "{{ {s} with initialTargetScale := {v} }}"),
                       ("$s.n_iterations = $v", "s", "{{ {s} with nIterations := {v} }}"),
                       ("$s.max_iterations = $v", "s", "{{ {s} with maxIterations := {v} }}"),
                       ("$s.converged = $s._recursive_procrustes()", "s",
                        "(let r := rec {s}; {{ r.2 with converged := r.1 }})"),
                       ("$t._apply_inplace($x)", "x", "(applyH {t} {x})"),
                       ("$t.set_target($x)", "t", "(genSetTarget HObj.ops (genSimilaritySync ext) {t} {x})")],
                 raise_by={"ValueError": "none", "AssertionError": "none"}, **kw)

    mean_rules = R(expr=[("PointCloud($x, copy=False)", "{x}"), ("sum($g)", "(sumL {g})"), ("len($l)", "(List.length {l})"),
                         ("$x.points", "{x}"),
                         ("$a.from_vector($b.as_vector())", "{b}"),       # the same points in the class of the first element
                         ("$l[0]", "(List.headD {l} (fun _ _ => 0))")])
    add("def genMeanPointcloud {n d : Nat} (pointclouds : List (Mat n d)) : Mat n d :=",
        lambda: T(mean_rules).function(go.mean_pointcloud, {"pointclouds": "pointclouds"}, ind=1), "fun _ _ => 0")
    add("def genMultipleAlignmentInit {n d : Nat} (self : GObj n d) (sources : List (Mat n d)) (target : Option (Mat n d)) : "
        "Option (GObj n d) :=",
        lambda: T(gpa_rules(ret="some ({e})", end="some {self}")).function(
            _fn(gb.MultipleAlignment, "__init__"), {"self": "self", "sources": "sources", "target": "target"}, ind=1), "none")
    add("def genGpaRecursiveProcrustes {n d : Nat} (ext : Ext) (rec : GObj n d → Bool × GObj n d) (self : GObj n d) : "
        "Bool × GObj n d :=",
        lambda: T(gpa_rules(ret="({e}, {self})")).function(_fn(gp.GeneralizedProcrustesAnalysis, "_recursive_procrustes"),
                                                           {"self": "self"}, ind=1), "(false, self)")
    add("def genGpaInit {n d : Nat} (ext : Ext) (rec : GObj n d → Bool × GObj n d) (self : GObj n d) "
        "(sources : List (Mat n d)) (target : Option (Mat n d)) (allowmirror : Bool) : Option (GObj n d) :=",
        lambda: T(gpa_rules(ret="some ({e})", end="some {self}")).function(
            _fn(gp.GeneralizedProcrustesAnalysis, "__init__"),
            {"self": "self", "sources": "sources", "target": "target", "allow_mirror": "allowmirror"}, ind=1), "none")
    return out


def lean_bool(text):
    if text == "True":
        return "true"
    if text == "False":
        return "false"
    raise P.Untranslatable("default `%s` is not a Boolean literal" % text)


HEADER = """/- TRANSLATED by harness/trans_c07.py (harness/py2lean2.py) from the SOURCE TEXT of the current working tree on every
   run of `./check C07`: the alignment constructors and re-fits, optimal_rotation_matrix, procrustes_alignment, the
   Alignment / Targetable plumbing, the piecewise-affine and thin-plate-spline formulas.  Do not edit.
   GenProps/C07Src.lean proves each definition equal to the Core definition the C07 theorems are about. -/
import MenpoModel.Core.C07Src
import MenpoModel.Core.PyLoop
set_option linter.unusedVariables false

namespace MenpoModel.Generated.C07
open MenpoModel.C07 MenpoModel.C07.Np
"""
FOOTER = "end MenpoModel.Generated.C07\n"


def generated_files():
    """({relative path: text}, [reasons of the definitions that could not be translated])"""
    global N_DEFS
    T._k = 0
    its = items()
    N_DEFS = len(its)
    text, reasons = P.translate_or_stub(its, HEADER, FOOTER)
    return {GEN_REL: text}, reasons


if __name__ == "__main__":
    import sys
    sys.path.insert(0, os.environ.get("MENPO_REPO", "/repo"))
    files, why = generated_files()
    print(files[GEN_REL])
    print("UNTRANSLATABLE:", why, file=sys.stderr)
