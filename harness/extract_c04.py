"""C04 — regenerated tables (DESIGN.md 2.3b).

Introspects the *live* classes of menpo.transform (nothing is parsed from source text) and emits
lean/MenpoModel/Generated/C04Tables.lean:

* `dispatch`    for every invertible transform class the model covers: the class whose `__dict__` supplies
                `pseudoinverse`, `_h_matrix_pseudoinverse` (`-` if the class has none) and `has_true_inverse` along the
                MRO, and the value `has_true_inverse` takes on a populated instance.  The model's `pinvH` is assembled
                from exactly this table (`Core/C04Homog.lean: implOf`).
* `pinvWrites`  for every class the instance attributes that `pseudoinverse()` (and `has_true_inverse`,
                `pseudoinverse_vector`) rebinds, adds, removes or modifies in place, measured on live objects in several
                states of life (fresh, applied, re-targeted, asked before).  The operation-sequence theorems need it to
                be empty for every class: no memo.
* `familyClasses`  every subclass of Homogeneous that menpo.transform defines, so that a new family class the model does
                not know breaks an obligation instead of going unnoticed.

`lean/MenpoModel/GenProps/C04.lean` obliges the tables to equal the ones the theorems are about.
Run as a script (`/venv/bin/python -m harness.extract_c04`, cwd /verif, menpo importable) to rewrite the file.
"""
import os

ORDER = ["Homogeneous", "Affine", "Similarity", "Rotation", "Translation", "UniformScale", "NonUniformScale",
         "AlignmentAffine", "AlignmentSimilarity", "AlignmentRotation", "AlignmentTranslation",
         "AlignmentUniformScale"]
WARPS = ["PythonPWA", "CachedPWA", "ThinPlateSplines"]
GEN_REL = os.path.join("MenpoModel", "Generated", "C04Tables.lean")
GEN_TARGETS = ["MenpoModel.Generated.C04Tables", "MenpoModel.GenProps.C04"]
N_OBLIGATIONS = 5


def classes():
    import menpo.transform as T
    from menpo.transform.piecewiseaffine.base import PythonPWA, CachedPWA
    out = {n: getattr(T, n) for n in ORDER if hasattr(T, n)}
    out.update({"PythonPWA": PythonPWA, "CachedPWA": CachedPWA, "ThinPlateSplines": T.ThinPlateSplines})
    return out


def family_classes():
    """every subclass of Homogeneous defined under menpo.transform (alignment mix-ins excluded: they are no
    Homogeneous)"""
    from menpo.transform.homogeneous.base import Homogeneous
    import menpo.transform  # noqa: F401  (makes sure every module is imported)
    seen, todo = {}, [Homogeneous]
    while todo:
        c = todo.pop()
        if c.__module__.startswith("menpo.transform"):
            seen[c.__name__] = c
        todo.extend(c.__subclasses__())
    return sorted(seen)


def invertible_classes():
    """every subclass of the Invertible mix-in that is loaded with menpo.transform: a new invertible warp class the model
    has no theorems for must break an obligation (`invertible_ok`), not go unnoticed"""
    from menpo.transform.base.invertible import Invertible
    import menpo.transform  # noqa: F401
    seen, todo = {}, [Invertible]
    while todo:
        c = todo.pop()
        seen[c.__name__] = c
        todo.extend(c.__subclasses__())
    return sorted(seen)


def supplier(cls, name):
    for k in cls.__mro__:
        if name in vars(k):
            return k.__name__
    return "-"


def _clouds(d, k=0):
    import numpy as np
    from menpo.shape import PointCloud
    if d == 2:
        src = np.array([[0.0, 0.0], [1.0, 0.0], [0.0, 1.0], [2.0, 3.0], [-1.0, 2.0]])
        lin = np.array([[0.6, -0.8], [0.8, 0.6]])
    else:
        src = np.array([[0.0, 0.0, 0.0], [1.0, 0.0, 0.5], [0.0, 1.0, 1.0], [2.0, 3.0, -1.0], [-1.0, 2.0, 2.0]])
        lin = np.array([[0.6, -0.8, 0.0], [0.8, 0.6, 0.0], [0.0, 0.0, 1.0]])
    tgt = src.dot(lin.T) * (1.5 + k) + 0.25 + 0.5 * k
    tgt[0, 0] += 0.125 * (k + 1)
    return PointCloud(src), PointCloud(tgt)


def make_instance(name, d, k=0):
    """a populated, non-singular instance of class `name` in dimension d (k selects other parameters)"""
    import numpy as np
    import menpo.transform as T
    from menpo.shape import TriMesh, PointCloud
    from menpo.transform.piecewiseaffine.base import PythonPWA, CachedPWA
    src, tgt = _clouds(d, k)
    if name in ("Homogeneous", "Affine", "Similarity"):
        h = np.eye(d + 1)
        h[:d, :d] *= 2.0 + k
        h[:d, d] = np.arange(1.0, d + 1) + k
        return getattr(T, name)(h)
    if name == "Rotation":
        r = np.eye(d)
        r[:2, :2] = [[0.6, -0.8], [0.8, 0.6]] if k == 0 else [[0.0, -1.0], [1.0, 0.0]]
        return T.Rotation(r)
    if name == "Translation":
        return T.Translation(np.arange(1.0, d + 1) + k)
    if name == "UniformScale":
        return T.UniformScale(2.0 + k, d)
    if name == "NonUniformScale":
        return T.NonUniformScale(np.arange(2.0, d + 2) + k)
    if name.startswith("Alignment"):
        return getattr(T, name)(src, tgt)
    if d != 2:
        return None
    if name in ("PythonPWA", "CachedPWA"):
        cls = {"PythonPWA": PythonPWA, "CachedPWA": CachedPWA}[name]
        s = np.array([[0.0, 0.0], [1.0, 0.0], [1.0, 1.0], [0.0, 1.0]])
        t = np.array([[0.0, 0.0], [2.0, 0.0], [3.0 + k, 2.0], [0.0, 1.0]])
        return cls(TriMesh(s, np.array([[0, 1, 2], [0, 2, 3]])), PointCloud(t))
    if name == "ThinPlateSplines":
        return T.ThinPlateSplines(src, tgt)
    return None


def dispatch_table():
    rows = []
    cl = classes()
    for n in ORDER + WARPS:
        c = cl.get(n)
        if c is None:
            rows.append((n, "?", "?", "?", False))
            continue
        t = make_instance(n, 2)
        try:
            hti = t.has_true_inverse is True
        except Exception:
            hti = False
        rows.append((n, supplier(c, "pseudoinverse"), supplier(c, "_h_matrix_pseudoinverse"),
                     supplier(c, "has_true_inverse"), hti))
    return rows


def _outer_state(obj):
    """{place: identity} of everything a memo could hide in OUTSIDE the instance: the class dictionaries along the MRO and
    the globals of the modules that define them (menpo's own only; dunder names such as __warningregistry__ excluded)"""
    import sys
    out = {}
    for k in type(obj).__mro__:
        if not k.__module__.startswith("menpo"):
            continue
        for a, v in vars(k).items():
            if not a.startswith("__"):
                out["class %s.%s" % (k.__name__, a)] = id(v)
                if isinstance(v, (dict, list, set)):
                    out["class %s.%s (size)" % (k.__name__, a)] = len(v)
        m = sys.modules.get(k.__module__)
        for a, v in (vars(m).items() if m is not None else ()):
            if not a.startswith("__"):
                out["module %s.%s" % (k.__module__, a)] = id(v)
                if isinstance(v, (dict, list, set)):
                    out["module %s.%s (size)" % (k.__module__, a)] = len(v)
    return out


def _outer_writes(obj, action):
    before = _outer_state(obj)
    try:
        action()
    except Exception:      # noqa: BLE001
        pass
    after = _outer_state(obj)
    return sorted(k for k in set(before) | set(after) if before.get(k) != after.get(k))


def write_table():
    """class name -> attributes written by pseudoinverse() & friends, measured on live objects in several lives"""
    import warnings
    import numpy as np
    from . import common
    table = {}
    for n in ORDER + WARPS:
        w = set()
        for d in (2, 3):
            for k in (0, 1):
                t = make_instance(n, d, k)
                if t is None:
                    continue
                x = np.array([[0.25, 0.5, 0.125][:d], [0.5, 0.25, 0.75][:d]])
                other = make_instance(n, d, 1 - k)
                acts = [lambda: t.pseudoinverse(), lambda: t.has_true_inverse, lambda: t.pseudoinverse(),
                        lambda: t.pseudoinverse().apply(x)]
                if hasattr(t, "pseudoinverse_vector") and hasattr(t, "as_vector"):
                    def pv():
                        return t.pseudoinverse_vector(t.as_vector())
                    acts.append(pv)
                with warnings.catch_warnings():
                    warnings.simplefilter("ignore")
                    for a in acts:
                        w.update(common.attr_writes(t, a))
                        w.update(_outer_writes(t, a))          # class attributes / module globals (a memo kept outside)
                    # a second life: apply, re-target / re-parametrise (not measured), then ask again (measured)
                    try:
                        t.apply(x)
                    except Exception:      # noqa: BLE001
                        pass
                    try:
                        if hasattr(t, "set_target"):
                            t.set_target(other.target)
                        else:
                            t.from_vector_inplace(other.as_vector())
                    except Exception:      # noqa: BLE001
                        pass
                    for a in acts:
                        w.update(common.attr_writes(t, a))
        table[n] = sorted(w)
    return table


def lean_str(s):
    return '"%s"' % s


def render(rows, writes, fam):
    drows = ",\n   ".join("⟨%s, %s, %s, %s, %s⟩" % (lean_str(a), lean_str(b), lean_str(c), lean_str(e), "true" if f else "false")
                          for a, b, c, e, f in rows)
    wrows = ",\n   ".join("(%s, [%s])" % (lean_str(n), ", ".join(lean_str(a) for a in writes[n])) for n in ORDER + WARPS)
    return ("/- REGENERATED by harness/extract_c04.py from the live menpo classes on every run.  Do not edit. -/\n"
            "import MenpoModel.Core.C04Ops\n\nnamespace MenpoModel.Generated.C04\nopen MenpoModel.C04\n\n"
            "/-- (class, supplier of pseudoinverse, of _h_matrix_pseudoinverse, of has_true_inverse, its value) -/\n"
            "def dispatch : List DispatchRow :=\n  [%s]\n\n"
            "/-- instance attributes written by pseudoinverse() / has_true_inverse / pseudoinverse_vector -/\n"
            "def pinvWrites : WriteTable :=\n  [%s]\n\n"
            "/-- every subclass of Homogeneous defined under menpo.transform -/\n"
            "def familyClasses : List String :=\n  [%s]\n\n"
            "/-- every subclass of the Invertible mix-in that is loaded with menpo.transform -/\n"
            "def invertibleClasses : List String :=\n  [%s]\n\n"
            "end MenpoModel.Generated.C04\n" % (drows, wrows, ", ".join(lean_str(f) for f in fam),
                                                 ", ".join(lean_str(f) for f in invertible_classes())))


def generate():
    rows, writes, fam = dispatch_table(), write_table(), family_classes()
    return render(rows, writes, fam), rows, writes, fam


if __name__ == "__main__":
    import sys
    root = os.path.dirname(os.path.dirname(os.path.abspath(__file__)))
    sys.path.insert(0, os.environ.get("MENPO_REPO", "/repo"))
    text, rows, writes, fam = generate()
    path = os.path.join(root, "lean", GEN_REL)
    with open(path, "w") as f:
        f.write(text)
    print("wrote", path)
