"""C14 — the Python-level logic of menpo/shape/graph.py TRANSLATED from the source text of the current working tree
into Lean (`Generated/C14Src.lean`) on every run; `GenProps/C14Src*.lean` prove every translated definition equal to
the hand-written Core definition the C14 theorems are about, for all arguments.

harness/py2lean2.py + harness/py2lean2w.py are the translator; this file is the C14 vocabulary: which numpy / scipy
expression of graph.py stands for which operation of the Core model (`Core/C14Graph.lean`, `Core/C14Src.lean`).
Conventions of the vocabulary:
  * `self` / an adjacency matrix is the model graph `g : Graph` (stored entries `g.w i j`); `self._directed` is the
    Boolean `directed`; the points of a Point* object are a list `pts`;
  * vertices are natural numbers, Python's `-` is integer subtraction (`n_vertices - 1` is `-1` for the empty graph);
    `_check_vertex` is translated a second time with an integer argument (negative vertices);
  * a function that may raise returns `Option _` (`none` = the ValueError), one that cannot returns the value;
  * sets are lists (membership only is observed), dicts are association lists with the newest binding first;
  * scipy.sparse.csgraph calls are the Core reference algorithms of the same name (contract parameters of the
    model, validated against scipy on every case by the correspondence).
"""
import os

from . import py2lean2w as P

GEN_REL = os.path.join("MenpoModel", "Generated", "C14Src.lean")
GEN_TARGETS = ["MenpoModel.Generated.C14Src", "MenpoModel.GenProps.C14Src", "MenpoModel.GenProps.C14SrcProps"]
# the equality obligations `translated definition = Core definition, for all arguments` of GenProps/C14Src.lean
OBLIGATIONS = ["genCheckVertex_eq", "genCheckVertexI_eq", "genIsEdge_eq", "genNeighbours_eq", "genChildren_eq",
               "genParents_eq", "genNNeighbours_eq", "genNChildren_eq", "genNParents_eq", "genEdgesD_eq", "genEdgesU_eq",
               "genEdges_eq", "genNEdges_eq", "genIsolated_eq", "genIsolatedVertices_eq", "genHasIsolatedVertices_eq",
               "genGetAdjacencyList_eq", "genGetPredecessorsList_eq", "genDfs_eq", "genHasCycles_eq", "genHasCyclesM_eq",
               "genIsTree_eq", "genFindAllPaths_eq", "genNPaths_eq", "genIsLeaf_eq", "genLeaves_eq", "genNLeaves_eq",
               "genParent_eq", "genIsSymmetric_eq", "genGraphInit_eq", "genUndirectedGraphInit_eq", "genDirectedGraphInit_eq",
               "genTreeInit_eq", "genDepthOfVertex_eq", "genVerticesAtDepth_eq", "genNVerticesAtDepth_eq",
               "genConvertEdges_eq", "genConvertEdgesSym_eq", "genMask_eq", "genFromMaskD_eq", "genFromMaskU_eq", "genFromMaskT_eq"]
N_OBLIGATIONS = len(OBLIGATIONS)
N_DEFS = 42   # `def gen...` of the generated file (one of them, genEdges, is dispatch glue)

INT_SUB = {P.ast.Sub: "(({a} : Int) - ({b} : Int))"}

# ---------------------------------------------------------------------------------------------- the vocabulary

MATRIX = [
    ("self.n_vertices", "g.n"),
    ("self.vertices", "(List.range g.n)"),
    ("self.n_points", "pts.length"),
    ("self.points", "pts"),
    ("self.adjacency_matrix", "g"),
    ("self._directed", "directed"),
    ("self.root_vertex", "root"),
    ("self.predecessors_list", "(Graph.predList g)"),
    ("$A[$i, :].nonzero()[1]", "(Graph.row {A} {i})"),
    ("$A[:, $j].nonzero()[0]", "(Graph.col {A} {j})"),
    ("$A.nonzero()[0]", "(nz0 {A})"),
    ("$A.nonzero()[1]", "(nz1 {A})"),
    ("$A.nonzero()", "(Graph.nz {A})"),
    ("$A[$i, :]", "(rowVec {A} {i})"),
    ("$A[:, $j]", "(colVec {A} {j})"),
    ("$A[$i, $j]", "(Graph.w {A} {i} {j})"),
    ("$x.shape[0]", "(shape0 {x})"),
    ("range($n)", "(List.range {n})"),
    ("list($x)", "{x}"),
    ("len($x)", "(List.length {x})"),
    ("$x not in $s", "(!(List.contains {s} {x}))"),
    ("$x in $s", "(List.contains {s} {x})"),
    ("$l[$i]", "(pyGet {l} {i})"),
    ("$a + [$x]", "({a} ++ [{x}])"),
    ("zip($a, $b)", "(List.zip {a} {b})"),
    ("bool($x)", "(pyBool {x})"),
]

CALLS = [
    # methods of the same classes: the translated definitions (skip_checks of the callee written out)
    ("self.children($v)", "genChildren g {v} false", "bind"),
    ("self.children($v, skip_checks=$s)", "genChildren g {v} {s}", "bind"),
    ("self.parents($v)", "genParents g {v} false", "bind"),
    ("self.parents($v, skip_checks=$s)", "genParents g {v} {s}", "bind"),
    ("self.neighbours($v)", "genNeighbours g {v} false", "bind"),
    ("self.neighbours($v, skip_checks=$s)", "genNeighbours g {v} {s}", "bind"),
    ("self.is_leaf($v)", "genIsLeaf g {v} false", "bind"),
    ("self.n_children($v)", "genNChildren g {v} false", "bind"),
    ("self.n_children($v, skip_checks=$s)", "genNChildren g {v} {s}", "bind"),
    ("self.n_parents($v)", "genNParents g {v} false", "bind"),
    ("self.n_parents($v, skip_checks=$s)", "genNParents g {v} {s}", "bind"),
    ("self.n_neighbours($v)", "genNNeighbours g {v} false", "bind"),
    ("self.n_neighbours($v, skip_checks=$s)", "genNNeighbours g {v} {s}", "bind"),
    ("self.is_edge($u, $v)", "genIsEdge g {u} {v} false", "bind"),
    ("self.is_edge($u, $v, skip_checks=$s)", "genIsEdge g {u} {v} {s}", "bind"),
    ("self.isolated_vertices()", "(genIsolatedVertices g)"),
    ("_isolated_vertices($A)", "(genIsolated {A})"),
    ("self.has_isolated_vertices()", "(genHasIsolatedVertices g)"),
    ("self.get_adjacency_list()", "(genGetAdjacencyList g)"),
    ("self.has_cycles()", "(genHasCyclesM g directed)"),
    ("_has_cycles($l, $d)", "(genHasCycles {l} {d})"),
    ("self.leaves", "genLeaves g", "bind"),
    ("self.vertices_at_depth($d)", "genVerticesAtDepth g root {d}", "bind"),
    ("self.depth_of_vertex($v, skip_checks=$s)", "genDepthOfVertex g root {v} {s}", "bind"),
    ("self.is_leaf($v, skip_checks=$s)", "genIsLeaf g {v} {s}", "bind"),
    ("self.edges", "(genEdges g directed)"),
    ("self.n_edges", "(genNEdges g directed)"),
]

GUARDS = [
    ("self._check_vertex($v)", "(genCheckVertex g {v}).isSome"),
]


def resolver_for(cls):
    """extracted helpers: a module-level function of graph.py / a method of the class (or its bases in graph.py) that
    the vocabulary has no rule for is inlined by the translator"""
    import inspect
    from menpo.shape import graph as G

    def resolve(name, is_method):
        if is_method:
            for c in (cls.__mro__ if cls is not None else ()):
                f = c.__dict__.get(name)
                if f is not None and c.__module__ == G.__name__:
                    if isinstance(f, (staticmethod, classmethod)):
                        return None
                    return f if inspect.isfunction(f) else None
            return None
        f = getattr(G, name, None)
        return f if inspect.isfunction(f) and f.__module__ == G.__name__ else None
    return resolve


def rules(extra_expr=(), stmt=(), guard=(), names=None, ret="some ({e})", raise_="none", cls=None, **kw):
    return P.Rules2W(expr=list(extra_expr) + CALLS + MATRIX, stmt=list(stmt), guard=list(guard) + GUARDS,
                     names=names or {}, ret=ret, raise_=raise_, binop=INT_SUB, resolver=resolver_for(cls), **kw)


LIST_STMT = [
    ("$l.append($x)", "l", "({l} ++ [{x}])"),
]


# ---------------------------------------------------------------------------------------------- the definitions

def items():
    """[(lean signature ending in `:=`, thunk -> body text, stub body)]"""
    from menpo.shape import graph as G
    out = []

    def add(sig, stub, thunk):
        out.append((sig, thunk, stub))

    class T(object):
        """translator whose rules know the class of the method it translates (helpers of that class are inlined)"""

        def __init__(self, **kw):
            self.kw = kw

        def function(self, fn, arg_names, ind=2, allow_unused=()):
            qn = getattr(fn, "__qualname__", "")
            cls = getattr(G, qn.split(".")[0], None) if "." in qn else None
            return P.Translator2W(rules(cls=cls if isinstance(cls, type) else None, **self.kw)).function(
                fn, arg_names, ind, allow_unused)

    GV = {"self": "g", "vertex": "vertex", "skip_checks": "skipchecks"}
    # ---- guards and plain queries
    add("def genCheckVertex (g : Graph) (vertex : Nat) : Option Unit :=", "some ()",
        lambda: T(end="some ()").function(G.Graph._check_vertex, {"self": "g", "vertex": "vertex"}, ind=1))
    add("def genCheckVertexI (g : Graph) (vertex : Int) : Option Unit :=", "some ()",
        lambda: T(end="some ()").function(G.Graph._check_vertex, {"self": "g", "vertex": "vertex"}, ind=1))
    add("def genIsEdge (g : Graph) (vertex1 vertex2 : Nat) (skipchecks : Bool) : Option Bool :=", "none",
        lambda: T().function(G.Graph.is_edge, {"self": "g", "vertex_1": "vertex1", "vertex_2": "vertex2",
                                               "skip_checks": "skipchecks"}, ind=1))
    add("def genNeighbours (g : Graph) (vertex : Nat) (skipchecks : Bool) : Option (List Nat) :=", "none",
        lambda: T().function(G.UndirectedGraph.neighbours, GV, ind=1))
    add("def genChildren (g : Graph) (vertex : Nat) (skipchecks : Bool) : Option (List Nat) :=", "none",
        lambda: T().function(G.DirectedGraph.children, GV, ind=1))
    add("def genParents (g : Graph) (vertex : Nat) (skipchecks : Bool) : Option (List Nat) :=", "none",
        lambda: T().function(G.DirectedGraph.parents, GV, ind=1))
    add("def genNNeighbours (g : Graph) (vertex : Nat) (skipchecks : Bool) : Option Nat :=", "none",
        lambda: T().function(G.UndirectedGraph.n_neighbours, GV, ind=1))
    add("def genNChildren (g : Graph) (vertex : Nat) (skipchecks : Bool) : Option Nat :=", "none",
        lambda: T().function(G.DirectedGraph.n_children, GV, ind=1))
    add("def genNParents (g : Graph) (vertex : Nat) (skipchecks : Bool) : Option Nat :=", "none",
        lambda: T().function(G.DirectedGraph.n_parents, GV, ind=1))

    # ---- isolated vertices (sets are lists: only membership is observed)
    SETS = [("set(range($n))", "(List.range {n})"), ("set($x)", "{x}"),
            ("$a.difference($b)", "(List.filter (fun x => !(List.contains {b} x)) {a})"),
            ("$a.intersection($b)", "(List.filter (fun x => List.contains {b} x) {a})")]
    add("def genIsolated (g : Graph) : List Nat :=", "[]",
        lambda: T(extra_expr=SETS, ret="{e}").function(G._isolated_vertices, {"adjacency_matrix": "g"}, ind=1))
    add("def genIsolatedVertices (g : Graph) : List Nat :=", "[]",
        lambda: T(ret="{e}").function(G.Graph.isolated_vertices, {"self": "g"}, ind=1))
    add("def genHasIsolatedVertices (g : Graph) : Bool :=", "false",
        lambda: T(ret="{e}").function(G.Graph.has_isolated_vertices, {"self": "g"}, ind=1))
    # ---- adjacency list, predecessors list (loops over the row-major listing of the stored entries)
    add("def genGetAdjacencyList (g : Graph) : List (List Nat) :=", "[]",
        lambda: T(stmt=[("$l[$i].append($x)", "l", "(appendAt {l} {i} {x})")], ret="{e}").function(
            G.Graph.get_adjacency_list, {"self": "g"}, ind=1))
    add("def genGetPredecessorsList (g : Graph) : List (Option Nat) :=", "[]",
        lambda: T(extra_expr=[("[None] * $n", "(List.replicate {n} none)")],
                  stmt=[("$l[$i] = $x", "l", "(List.set {l} {i} (some {x}))")], ret="{e}").function(
            G.Tree._get_predecessors_list, {"self": "g"}, ind=1))
    # ---- the cycle detector: the nested recursive def with fuel, then the outer loop
    DFS_STATE = "(List Nat × List Nat × List (Nat × Nat) × List (Nat × Nat))"

    def dfs_rules(**kw):
        return rules(
            extra_expr=[("adjacency_list[$i]", "(pyGet adjL {i})"),
                        ("$d.get($k, None) != $y", "(lookup {d} {k} != some {y})"),
                        ("$d.get($k) != $y", "(lookup {d} {k} != some {y})"),
                        ("$d.get($k, None)", "(lookup {d} {k})"),
                        ("$d.get($k)", "(lookup {d} {k})"),
                        ("dfs($x, entered=set(), exited=set(), tree_edges={}, back_edges={})[1]",
                         "(!(List.isEmpty (genDfs adjL directed (2 * adjL.length + 2) {x} ([], [], [], [])).2.2))"),
                        ("dfs($x, set(), set(), {}, {})[1]",
                         "(!(List.isEmpty (genDfs adjL directed (2 * adjL.length + 2) {x} ([], [], [], [])).2.2))"),
                        # the call itself: its value is the pair (tree_edges, back_edges) of the fresh search from x
                        ("dfs($x, entered=set(), exited=set(), tree_edges={}, back_edges={})",
                         "(genDfs adjL directed (2 * adjL.length + 2) {x} ([], [], [], [])).2"),
                        ("dfs($x, set(), set(), {}, {})",
                         "(genDfs adjL directed (2 * adjL.length + 2) {x} ([], [], [], [])).2"),
                        ("len(adjacency_list)", "(List.length adjL)")],
            stmt=[("$d.setdefault($k, set()).add($v)", "d", "(({k}, {v}) :: {d})"),
                  ("$s.add($x)", "s", "({x} :: {s})"),
                  ("$d[$k] = $v", "d", "(({k}, {v}) :: {d})"),
                  ("dfs($y, $e, $x, $t, $b)", ("e", "x", "t", "b"), "(genDfs adjL directed fuel {y} ({e}, {x}, {t}, {b})).1")],
            names={"directed": "directed"}, inner=["dfs"], **kw)

    add("def genDfs (adjL : List (List Nat)) (directed : Bool) : Nat → Nat → %s → %s × (List (Nat × Nat) × List (Nat × Nat))\n"
        "  | 0, _, st => (st, (st.2.2.1, st.2.2.2))\n  | fuel + 1, node, st =>" % (DFS_STATE, DFS_STATE),
        "(st, ([], []))",
        lambda: P.Translator2W(dfs_rules(ret="(({entered}, {exited}, {tree_edges}, {back_edges}), {e})")).function_node(
            P.Translator2W.nested(G._has_cycles, "dfs"),
            {"node": "node", "entered": "st.1", "exited": "st.2.1", "tree_edges": "st.2.2.1", "back_edges": "st.2.2.2"}, ind=2))
    add("def genHasCycles (adjL : List (List Nat)) (directed : Bool) : Bool :=", "false",
        lambda: P.Translator2W(dfs_rules(ret="{e}")).function(
            G._has_cycles, {"adjacency_list": "adjL", "directed": "directed"}, ind=1))
    add("def genHasCyclesM (g : Graph) (directed : Bool) : Bool :=", "false",
        lambda: T(ret="{e}").function(G.Graph.has_cycles, {"self": "g"}, ind=1))
    add("def genNEdges (g : Graph) (directed : Bool) : Nat :=", "0",
        lambda: T(ret="{e}").function(G.Graph.n_edges.fget, {"self": "g"}, ind=1))
    add("def genIsTree (g : Graph) (directed : Bool) : Bool :=", "false",
        lambda: T(extra_expr=[("csgraph.connected_components($A, directed=False, return_labels=False)",
                               "(Graph.nComponents {A})")], ret="{e}").function(G.Graph.is_tree, {"self": "g"}, ind=1))
    # ---- simple paths (recursive method, with fuel)
    add("def genFindAllPaths (g : Graph) : Nat → Nat → Nat → List Nat → List (List Nat)\n"
        "  | 0, _, _, _ => []\n  | fuel + 1, start, end_, path =>", "[]",
        lambda: T(extra_expr=[("self.find_all_paths($v, $e, $p)", "(genFindAllPaths g fuel {v} {e} {p})"),
                              ("path is None", "false")],
                  stmt=LIST_STMT, ret="{e}").function(
            G.Graph.find_all_paths, {"self": "g", "start": "start", "end": "end_", "path": "path"}, ind=2))
    add("def genNPaths (g : Graph) (start end_ : Nat) : Nat :=", "0",
        lambda: T(extra_expr=[("self.find_all_paths($v, $e)", "(genFindAllPaths g (g.n + 2) {v} {e} [])")],
                  ret="{e}").function(G.Graph.n_paths, {"self": "g", "start": "start", "end": "end_"}, ind=1))
    # ---- Tree: leaves, parent, depth
    add("def genIsLeaf (g : Graph) (vertex : Nat) (skipchecks : Bool) : Option Bool :=", "none",
        lambda: T().function(G.Tree.is_leaf, GV, ind=1))
    add("def genLeaves (g : Graph) : Option (List Nat) :=", "none",
        lambda: T(stmt=LIST_STMT).function(G.Tree.leaves.fget, {"self": "g"}, ind=1))
    add("def genNLeaves (g : Graph) : Option Nat :=", "none",
        lambda: T().function(G.Tree.n_leaves.fget, {"self": "g"}, ind=1))
    add("def genParent (g : Graph) (vertex : Nat) (skipchecks : Bool) : Option (Option Nat) :=", "none",
        lambda: T().function(G.Tree.parent, GV, ind=1))

    # ---- the edge arrays, n_edges dispatch on the class (hand-written glue `genEdges` in the footer of the items)
    EDGE = [("np.vstack($p).T", "(List.zip ({p}).1 ({p}).2)"), ("triu($A)", "(Graph.triu {A})")]
    add("def genEdgesU (g : Graph) : List (Nat × Nat) :=", "[]",
        lambda: T(extra_expr=EDGE, ret="{e}").function(G.UndirectedGraph.edges.fget, {"self": "g"}, ind=1))
    add("def genEdgesD (g : Graph) : List (Nat × Nat) :=", "[]",
        lambda: T(extra_expr=EDGE, ret="{e}").function(G.DirectedGraph.edges.fget, {"self": "g"}, ind=1))
    # glue (not translated): `self.edges` resolves to the property of the object's class
    add("def genEdges (g : Graph) (directed : Bool) : List (Nat × Nat) :=", "[]",
        lambda: "  if directed then genEdgesD g else genEdgesU g")
    # ---- Graph.__init__ (the checks; `m` is what the caller handed over), the two flag-setting constructors
    INIT = [("isinstance(adjacency_matrix, (np.ndarray, csr_matrix))", "(m.kind == MatKind.ndarray || m.kind == MatKind.csr)"),
            ("isinstance(adjacency_matrix, (csr_matrix, np.ndarray))", "(m.kind == MatKind.ndarray || m.kind == MatKind.csr)"),
            ("isinstance(adjacency_matrix, np.ndarray)", "(m.kind == MatKind.ndarray)"),
            ("isinstance(adjacency_matrix, csr_matrix)", "(m.kind == MatKind.csr)"),
            ("csr_matrix($x)", "{x}"), ("$x.copy()", "{x}"),
            ("$x.shape[1]", "(RawMat.ncols {x})"), ("$x.shape[0]", "(RawMat.nrows {x})"),
            ("_is_symmetric($x)", "(genIsSymmetric {x})")]
    SYM = [("issparse($x)", "(RawMat.isSparse {x})"), ("($x != $x.T).nnz", "(Graph.asymCount (RawMat.graph {x}))"),
           ("np.count_nonzero($x != $x.T)", "(Graph.asymCount (RawMat.graph {x}))")]
    add("def genIsSymmetric (array : RawMat) : Bool :=", "true",
        lambda: T(extra_expr=SYM, ret="{e}").function(G._is_symmetric, {"array": "array"}, ind=1))
    add("def genGraphInit (directed : Bool) (m : RawMat) (copy skipchecks : Bool) : Option Graph :=", "none",
        lambda: P.Translator2W(rules(cls=G.Graph, extra_expr=INIT, stmt=[("$x.eliminate_zeros()", "x", "(RawMat.eliminateZeros {x})")],
                                     attr_vars={"adjacency_matrix": "self_adjacency_matrix"},
                                     end="RawMat.graphOf {self_adjacency_matrix}")).function(
            G.Graph.__init__, {"self": "g", "adjacency_matrix": "m", "copy": "copy", "skip_checks": "skipchecks"}, ind=1))
    for cls, flag in (("UndirectedGraph", "false"), ("DirectedGraph", "true")):
        def flag_init(cls=cls):
            c = getattr(G, cls)
            if c.__mro__[1] is not G.Graph:
                raise P.Untranslatable("%s no longer derives from Graph directly" % cls)
            r = rules(cls=c, stmt=[("super(%s, self).__init__($A, copy=$c, skip_checks=$s)" % cls, "=graph_attr",
                             "genGraphInit {directed_attr} {A} {c} {s}", "bind"),
                            ("self._directed = $v", "=directed_attr", "{v}")],
                      end="some ({directed_attr}, {graph_attr})")
            return P.Translator2W(r).function(c.__init__, {"self": "g", "adjacency_matrix": "m", "copy": "copy",
                                                           "skip_checks": "skipchecks"}, ind=1)
        add("def gen%sInit (m : RawMat) (copy skipchecks : Bool) : Option (Bool × Graph) :=" % cls, "none", flag_init)
    # ---- Tree.__init__ (its own checks; `g` is the graph DirectedGraph.__init__ has stored), depth, levels
    def tree_init():
        if G.Tree.__mro__[1] is not G.DirectedGraph:
            raise P.Untranslatable("Tree no longer derives from DirectedGraph directly")
        r = rules(cls=G.Tree, extra_expr=[("csgraph.breadth_first_tree($A, $r, directed=True)", "(Graph.bfsTree {A} {r})"),
                              ("(($b != 0) != ($A != 0)).nnz", "(if sameEdgeSet {b} (Graph.edgesD {A}) then 0 else 1)"),
                              ("self.is_tree()", "(genIsTree g true)"),
                              ("self._get_predecessors_list()", "(genGetPredecessorsList g)")],
                  stmt=[("self.root_vertex = $v", "=root_attr", "{v}"),
                        ("self.predecessors_list = $v", "=pred_attr", "{v}")],
                  guard=[("super(Tree, self).__init__($A, copy=$c, skip_checks=$s)",
                          "(genDirectedGraphInit (RawMat.ofGraph {A}) {c} {s}).isSome")],
                  end="some ({root_attr}, {pred_attr})")
        return P.Translator2W(r).function(G.Tree.__init__, {"self": "g", "adjacency_matrix": "g", "root_vertex": "rootvertex",
                                                           "copy": "copy", "skip_checks": "skipchecks"}, ind=1)
    add("def genTreeInit (g : Graph) (rootvertex : Nat) (copy skipchecks : Bool) : Option (Nat × List (Option Nat)) :=",
        "none", tree_init)
    TREE = [("self.predecessors_list[$i]", "Graph.parent g {i}", "bind"),
            ("self.depth_of_vertex($v)", "genDepthOfVertex g root {v} false", "bind")]
    add("def genDepthOfVertex (g : Graph) (root vertex : Nat) (skipchecks : Bool) : Option Nat :=", "none",
        lambda: T(extra_expr=TREE, fuel="(g.n + 1)").function(G.Tree.depth_of_vertex, GV, ind=1))
    add("def genVerticesAtDepth (g : Graph) (root depth : Nat) : Option (List Nat) :=", "none",
        lambda: T(extra_expr=TREE, stmt=LIST_STMT).function(G.Tree.vertices_at_depth, {"self": "g", "depth": "depth"}, ind=1))
    add("def genNVerticesAtDepth (g : Graph) (root depth : Nat) : Option Nat :=", "none",
        lambda: T(extra_expr=TREE).function(G.Tree.n_vertices_at_depth, {"self": "g", "depth": "depth"}, ind=1))
    # ---- masking
    MASK = [("np.nonzero($m)[0]", "(nonzeroIdx {m})"), ("$x[$k, :]", "(pySelRows {x} {k})"),
            ("$x[:, $k]", "(Graph.selCols {x} {k})"), ("np.all($m)", "(List.all {m} id)"),
            ("_mask_adjacency_matrix_and_points($m, $A, $p)", "(genMaskAdjacencyMatrixAndPoints {m} {A} {p})"),
            ("self.copy()", "(g, pts)"),
            ("$r - np.sum(~$m[:$r])", "(rank {m} {r})"),
            ("csgraph.connected_components($A, directed=True)", "(Graph.componentLabels {A})"),
            ("$a == $b", "(pyEq {a} {b})"),
            ("PointUndirectedGraph($p, $A, copy=True, skip_checks=$s)", "pointGraphCtor false {p} {A} {s}", "bind"),
            ("PointDirectedGraph($p, $A, copy=True, skip_checks=$s)", "pointGraphCtor true {p} {A} {s}", "bind"),
            ("PointTree($p, $A, root_vertex=$r, copy=True, skip_checks=$s)", "pointTreeCtor {p} {A} {r} {s}", "bind")]
    add("def genMaskAdjacencyMatrixAndPoints {α : Type} (mask : List Bool) (adjacencymatrix : Graph) (points : List α) : Graph × List α :=",
        "(adjacencymatrix, points)",
        lambda: T(extra_expr=MASK, ret="{e}").function(
            G._mask_adjacency_matrix_and_points,
            {"mask": "mask", "adjacency_matrix": "adjacencymatrix", "points": "points"}, ind=1))
    for cls in ("PointUndirectedGraph", "PointDirectedGraph"):
        add("def genFromMask%s {α : Type} (g : Graph) (pts : List α) (mask : List Bool) : Option (Graph × List α) :=" % cls[5],
            "none", lambda cls=cls: T(extra_expr=MASK).function(getattr(G, cls).from_mask, {"self": "g", "mask": "mask"}, ind=1))
    add("def genFromMaskT {α : Type} (g : Graph) (root : Nat) (pts : List α) (mask : List Bool) : Option (Graph × Nat × List α) :=",
        "none", lambda: T(extra_expr=[("self.copy()", "(g, root, pts)")] + MASK, fuel="(g.n + 1)").function(
            G.PointTree.from_mask, {"self": "g", "mask": "mask"}, ind=1))
    # ---- edge list -> adjacency matrix
    CONV = [("isinstance(edges, list)", "isList"), ("np.array($e)", "{e}"), ("edges is None", "false"),
            ("csr_matrix(($n, $m), dtype=int)", "(zeroGraph {n} {m})"),
            ("csr_matrix(([1] * $k, ($r, $c)), shape=($n, $m))", "(csrOnes {k} {r} {c} {n} {m})"),
            ("$e[:, 0]", "(List.map Prod.fst {e})"), ("$e[:, 1]", "(List.map Prod.snd {e})"),
            ("np.hstack(($a, $b))", "({a} ++ {b})")]
    add("def genConvertEdges (isList : Bool) (edges : List (Nat × Nat)) (nvertices : Nat) : Graph :=", "⟨0, fun _ _ => 0⟩",
        lambda: T(extra_expr=CONV, ret="{e}").function(G._convert_edges_to_adjacency_matrix,
                                                      {"edges": "edges", "n_vertices": "nvertices"}, ind=1))
    add("def genConvertEdgesSym (isList : Bool) (edges : List (Nat × Nat)) (nvertices : Nat) : Graph :=", "⟨0, fun _ _ => 0⟩",
        lambda: T(extra_expr=CONV, stmt=[("$A[$A.nonzero()] = 1", "A", "(Graph.binarize {A})")], ret="{e}").function(
            G._convert_edges_to_symmetric_adjacency_matrix, {"edges": "edges", "n_vertices": "nvertices"}, ind=1))
    name = lambda it: it[0].split()[1]
    pos = {n: i for i, n in enumerate(ORDER)}
    missing = [name(it) for it in out if name(it) not in pos]
    assert not missing, missing
    out.sort(key=lambda it: pos[name(it)])
    return out


# the order of the definitions in the generated file (a definition only uses earlier ones)
ORDER = ["genCheckVertex", "genCheckVertexI", "genIsEdge", "genNeighbours", "genChildren", "genParents", "genNNeighbours",
         "genNChildren", "genNParents", "genEdgesU", "genEdgesD", "genEdges", "genNEdges", "genIsolated",
         "genIsolatedVertices", "genHasIsolatedVertices", "genGetAdjacencyList", "genGetPredecessorsList", "genDfs",
         "genHasCycles", "genHasCyclesM", "genIsTree", "genFindAllPaths", "genNPaths", "genIsLeaf", "genLeaves",
         "genNLeaves", "genParent", "genIsSymmetric", "genGraphInit", "genUndirectedGraphInit", "genDirectedGraphInit", "genTreeInit",
         "genDepthOfVertex", "genVerticesAtDepth", "genNVerticesAtDepth", "genMaskAdjacencyMatrixAndPoints",
         "genFromMaskU", "genFromMaskD", "genFromMaskT", "genConvertEdges", "genConvertEdgesSym"]


HEADER = """/- TRANSLATED by harness/trans_c14.py (harness/py2lean2.py, harness/py2lean2w.py) from the SOURCE TEXT of
   menpo/shape/graph.py of the current working tree on every run of `./check C14`; do not edit.
   GenProps/C14Src.lean proves every definition equal to the Core definition the C14 theorems are about. -/
import MenpoModel.Core.C14Src

set_option linter.unusedVariables false

namespace MenpoModel.Generated.C14
open MenpoModel.C14 MenpoModel.C14.Src
"""
FOOTER = "\nend MenpoModel.Generated.C14\n"


_MODULE_AST = {}


def _fast_source_ast(fn):
    """AST of a function of menpo/shape/graph.py from ONE parse of the module (inspect.getsource re-tokenises the
    file for every function); falls back to the generic route for anything else"""
    import ast
    import inspect
    from . import py2lean
    code = getattr(fn, "__code__", None)
    try:
        path = inspect.getsourcefile(fn)
    except TypeError:
        path = None
    if code is None or path is None:
        return py2lean.source_ast(fn)
    if path not in _MODULE_AST:
        src = open(path).read()
        index = {}
        for node in ast.walk(ast.parse(src)):
            if isinstance(node, (ast.FunctionDef, ast.AsyncFunctionDef)):
                for ln in [node.lineno] + [d.lineno for d in node.decorator_list]:
                    index.setdefault(ln, node)
        _MODULE_AST[path] = index
    node = _MODULE_AST[path].get(code.co_firstlineno)
    if node is None or node.name != code.co_name:
        return py2lean.source_ast(fn)
    return node, None


def generated_files():
    P.source_ast = _fast_source_ast      # py2lean2w's own reference (other translators are not affected)
    try:
        text, reasons = P_translate()
    finally:
        from . import py2lean
        P.source_ast = py2lean.source_ast
    return {GEN_REL: text}, reasons


def P_translate():
    from . import py2lean2
    return py2lean2.translate_or_stub(items(), HEADER, FOOTER)


if __name__ == "__main__":
    t, r = P_translate()
    print(t)
    print("REASONS:", r)
