"""C04 — pseudoinverse really inverts; alignment inverses swap source and target (DESIGN.md section 6, C04).

Three parties per generated case: the real menpo transform and its `pseudoinverse()`; the property oracle
(round trips from both sides, honesty of the inverse object, exchanged end points, reverse-fit equality and exact
landmark return for the interpolating warps — all evaluated on the real objects, independent of the Lean model);
the Lean model (`Core/C04Homog.lean`, `Core/C04Warp.lean`, `Core/C04Ops.lean`, `Core/C04Mesh.lean`) fed with the same
inputs as exact rationals.

Case kinds: hom (one family object, fresh or with a previous life; also `pseudoinverse_vector`), homops / pwaops / tpsops
(one live object and a list of mutators and pseudoinverse() queries, compared query by query with `Live.run` of the
model), pwa (jittered meshes, sources and targets as every shape class), pwax (float-exact lattice meshes: vertices, edge
points, points just outside, index_alpha_beta), tps, tcoords.  Tables regenerated from the live classes on every run:
`harness/extract_c04.py` -> `Generated/C04Tables.lean`, obligations in `GenProps/C04.lean`.
"""
import json
from fractions import Fraction

import numpy as np

from . import common

PROP = "C04"
INFO = dict(
    technique="Lean 4 proof (exact matrix inverse in every dimension tied to Mathlib's nonsingular inverse; class "
              "invariants of all 12 family classes preserved by the coded closed forms and by in-place composition; "
              "invariant by induction over operation lists: pseudoinverse() of an object with any previous life inverts "
              "the current map and exchanges the current end points; barycentric round trip for piecewise affine maps "
              "with the consistency hypothesis decided by a proved, executable separating-line certificate; "
              "interpolation of the thin-plate system; the truncated-SVD solve characterised from numpy's raw SVD "
              "contract; the two kernel classes define the same warp; chains of any length: the reversed chain of "
              "pseudoinverses inverts the chain) + SOURCE-TO-LEAN TRANSLATION: the pseudoinverse code itself (50 functions: "
              "every pseudoinverse / has_true_inverse / _h_matrix_pseudoinverse body, the constructors and properties they "
              "call, the spline and piecewise-affine constructors, alpha_beta / barycentric_vectors / _apply, tcoords.py) "
              "is translated from the source text of the working tree on every run (harness/trans_c04.py on py2lean2) and "
              "62 obligations prove each translated definition equal to the model's, incl. srcPinv_eq: the dispatched "
              "translated pseudoinverse() IS the model's pinv; the property theorems are restated about the translated "
              "code (src_*) + 5 `decide` obligations over tables regenerated "
              "from the live classes on every run (method resolution of pseudoinverse / _h_matrix_pseudoinverse / "
              "has_true_inverse, the set of family classes, the instance attributes pseudoinverse() writes: none) + "
              "model/implementation correspondence on generated transforms and on whole operation sequences + "
              "independent round-trip oracle on the real objects",
    level_text="Theorems over an executable model of pseudoinverse(): for every homogeneous-family class (closed "
               "forms of Translation/UniformScale/NonUniformScale/Rotation, matrix inverse for the others, "
               "HomogFamilyAlignment for the alignments; which class supplies the method is a regenerated table the "
               "model is assembled from) and every dimension the result has the same class, carries exactly the "
               "inverse matrix, is an honest member of the class, has source and target exchanged, undoes apply from "
               "both sides on every point of the domain, and its own pseudoinverse is the original object.  Objects "
               "with a history: over EVERY list of set_target / from_vector_inplace / set_rotation_matrix / "
               "compose_before_inplace / compose_after_inplace / compose_after_from_vector_inplace / pseudoinverse() "
               "calls (every class is proved closed under its in-place compositions; set_h_matrix, which every class "
               "refuses, is exercised as the no-op it must be) each pseudoinverse() inverts the "
               "CURRENT map from both sides and has the CURRENT source and target exchanged; the frame condition this "
               "needs - pseudoinverse() keeps nothing on the instance, its class or its module - is measured on live objects of all 15 classes "
               "on every run and is a `decide` obligation; a memoising pseudoinverse is refuted by a three-step "
               "history.  The same over set_target histories for piecewise affine warps and thin plate splines.  The "
               "piecewise-affine inverse (source trilist on the target points, whatever shape class and triangulation "
               "the target object carries) undoes apply on the whole source and target domain - interior points, "
               "points on shared edges and vertices, whichever containing triangle the last-containing rule picks - of "
               "every mesh that passes an executable certificate (non-degenerate triangles; any two triangles "
               "separated by a line whose contact vertices are shared with equal images), proved sound and run by "
               "the driver on every generated mesh in both directions; index_alpha_beta reports the triangle apply "
               "uses.  A thin-plate spline whose kernel is centred on its source points interpolates, so the reverse "
               "fit returns every landmark, for any radial function; the coefficients `inv_l . y^T` of "
               "_build_coefficients solve the transposed system on the kept right-singular subspace for any factors "
               "meeting the SVD contract, hence exactly when nothing is truncated or the data is attainable; "
               "R2LogR2RBF = 2 R2LogRRBF define the same warp; the inverse as coded before the fix (kernel re-used) "
               "is refuted by a witness.  TRANSLATED, not transcribed: Homogeneous.pseudoinverse / "
               "_h_matrix_pseudoinverse / has_true_inverse / n_dims / h_matrix / __init__ / _set_h_matrix / _apply, "
               "Affine.__init__ / _set_h_matrix / linear_component / translation_component, Similarity.__init__, "
               "Translation / UniformScale / NonUniformScale / Rotation .__init__ and .pseudoinverse, the scale and "
               "rotation_matrix properties, set_rotation_matrix, HomogFamilyAlignment.copy / pseudoinverse, "
               "VInvertible.pseudoinverse_vector, ThinPlateSplines.__init__ / pseudoinverse / has_true_inverse, "
               "AbstractPWA.__init__ / pseudoinverse / has_true_inverse / _apply / _rebuild_target_vectors, alpha_beta, "
               "barycentric_vectors, Targetable.set_target / _target_setter_with_verification / _verify_target, "
               "Alignment._target_setter and the two _sync_state_from_target of the warps (what is proved of them: set_target "
               "replaces _target and nothing else that pseudoinverse() reads - the translated object states carry no derived "
               "cache (coefficients, target vectors, the CachedPWA memo: the statements that rebuild them are skipped words, "
               "both _sync_state_from_target bodies translate to the identity), so src_tps_ops_pinv_sound / "
               "src_pwa_ops_pinv_sound say that pseudoinverse() after any set_target history is the reverse warp of the "
               "CURRENT end points; stale derived state is the oracle's business: tpsops / pwaops), tcoords_to_image_coords, image_coords_to_tcoords - each is read from the source text "
               "of the working tree on every run, rewritten statement by statement into Lean (Generated/C04Src.lean; a "
               "method call on self = the translated body of the class the live MRO table names) and PROVED equal to the "
               "model for all arguments (GenProps/C04Src.lean): Translation(t) = ofAffine 1 t, UniformScale / "
               "NonUniformScale(v) = ofAffine diag(v) 0 (numpy's cycling fill_diagonal plus the corner reset), Rotation(R) = "
               "ofAffine R 0, the six pseudoinverse bodies = pinvHBy with the class and end points the model says, "
               "srcPinv_eq (the translated, dispatched pseudoinverse() is pinv on every well-formed object), the spline "
               "constructor assembles sysL and defaults to a kernel centred on the source, its pseudoinverse is the reverse "
               "fit with a kernel of the same class RE-CENTRED and the same min_singular_val, the PWA pseudoinverse puts "
               "the SOURCE trilist on the target points whatever the target carries, alpha_beta / _apply are Tri.ab / "
               "piece, tcoords is tcoordsToImage and its pinv.  pinv_sound, hom_ops_pinv_sound, pinv_involutive, the "
               "spline reverse fit, the PWA round trip and tcoords_roundtrip are restated ABOUT THE TRANSLATED CODE "
               "(src_pinv_sound ... src_tcoords_roundtrip).  A harmless rewrite (renamed temporary, re-ordered independent "
               "statements, inverted test with swapped arms, keyword order) keeps the proofs; another constructor, a "
               "dropped negation / reciprocal / exchange, a kernel left on the old centres, the target's own trilist, a "
               "tolerance-based factory in the path break them (checked on a scratch worktree: 5 rewrites, 9 changed "
               "decisions; the keyword FLAGS of the constructor calls are part of the pinned call shape: bodies are "
               "translated for skip_checks=True, so dropping that flag - although the checks only validate - is reported as "
               "a broken tie, `no-failing-input-found`; copy= of the freshly computed matrix is accepted either way).  "
               "EXACT vs FLOAT members: `Honest` (orthogonal linear part, exact affine row) is an exact-rational invariant "
               "that float rotations / fitted alignments satisfy only up to rounding (the evidence counts `exact-rational "
               "member: Honest yes/no`); pinv_inverts / src_pinv_inverts therefore prove inverse matrix, exchanged ends and "
               "both round trips from the structural zero pattern alone (`Structural`: nothing for the classes that call "
               "np.linalg.inv, affine row + zero translation + diagonal pattern for the closed forms - every generated "
               "member has it exactly, counted too), and pinv_sound adds that an EXACT member has an exact member as its "
               "inverse; honesty of float inverses is judged numerically by the oracle.  Chains: chain_pinv_sound is about "
               "`chainPinv`, an object menpo does NOT have (TransformChain defines no pseudoinverse): a statement of what "
               "such a method would have to be, not a guarantee about existing code.  Definitional content: in "
               "tps_pinvFixed_reverse_fit / tps_ops_pinv_sound / src_tps_ops_pinv_sound every conjunct except the "
               "conditional landmark return is `rfl` on the definition (the content is that the TRANSLATED pseudoinverse IS "
               "that definition: gen_ThinPlateSplines_pseudoinverse_eq).  The aliasing / non-mutation side (a dropped "
               ".copy(), copy= flags, in-place vs rebinding, object identity) is INVISIBLE to the value-level translation: it "
               "is decided by the oracle and by the measured write tables, not by the translated obligations.  The model is "
               "also tied to /repo by "
               "the regenerated tables and by running the "
               "real classes on generated members of every class, 2-D and 3-D (matrices as C / Fortran / strided / "
               "transposed-view / read-only / int64 / float32 arrays, unimodular integer matrices with condition "
               "numbers up to 1e6, parameters at a tolerance's edge in every run and for every class - per-axis factors "
               "differing by a few parts in a million, magnitudes 2^26..2^33 and 2^-33..2^-26, rotations by 1e-4 rad, "
               "projective rows of 1e-9, round trips then compared RELATIVELY (cond(L)·(|x| + |L^-1 t|)) -, "
               "landmark sets as every one of the 8 shape classes and as int64 arrays, PWA sources "
               "as meshes or as point sets triangulated by the constructor, targets carrying triangulations of their "
               "own), fresh and with previous lives, and diffing inverse matrices, class names, end points, forward "
               "and backward images, whole operation sequences query by query, index_alpha_beta and the containment "
               "error mask on float-exact lattice meshes (bit-exact round trip on vertices, edge points and points "
               "just outside), pseudoinverse_vector, and the coded solve on numpy's SVD factors against the Lean "
               "driver; the oracle decides the property on the real objects.",
    level_note="Trusted: Lean kernel; axioms propext/Classical.choice/Quot.sound; the source-to-Lean translator "
               "(harness/py2lean2.py, harness/trans_c04.py: the rules map each numpy / attribute expression of the "
               "vocabulary to the word of Core/C04Src.lean of the same meaning - np.eye, h[:-1, -1] = t, h[:-1, :-1] = L, "
               "np.fill_diagonal, h.diagonal()[:-1], -v, 1.0 / v, np.linalg.inv = the exact inverse, kernel.apply = the "
               "kernel matrix, np.concatenate = block assembly, np.einsum = dot product, TriMesh(points, trilist) - and "
               "array code is read per point / per triangle); method bodies are specialised to the call shape the "
               "pseudoinverse paths use (copy=False, skip_checks=True: the sanity checks of _set_h_matrix are not "
               "translated); compose_before of two Homogeneous members and the Scale factory in tcoords.py are words "
               "(C03's / C20's subjects); from_vector / as_vector in pseudoinverse_vector are parameters (C05's); the "
               "coarse words (one word for a nested numpy idiom: `np.concatenate([np.ones([n, 1]), points], axis=1)`, "
               "`(h_y / h_y[:, -1][:, None])[:, :-1]`, `np.hstack([x, ones])`, `np.transpose(points[trilist], axes=[1, 2, "
               "0])`, `type(self.kernel)(points)`, `index_alpha_beta` as a parameter of _apply, `_build_coefficients()` and "
               "`_rebuild_target_vectors()` as no-ops on the translated state) are trusted vocabulary; numpy's advanced "
               "assignment `index[point_index] = tri_index` keeps the LAST write for repeated indices (the model's "
               "last-containing-triangle rule; the comparison accepts any containing triangle on shared edges / vertices); "
               "totalisations outside the quantifier: `triOf` reads a missing vertex as the origin, 1/0 = 0 in the "
               "closed-form scale inverses and in alpha_beta (a degenerate triangle then CONTAINS every point; numpy: nan, "
               "contains none) - guarded by the hypotheses det != 0 / NonDegenerate / `certified`; the "
               "Python harness, "
               "harness/extract_c04.py (table extraction: MRO walk over the live classes, common.attr_writes on live "
               "objects) and the driver's parser.  Library contracts (validated numerically on every case): "
               "np.linalg.inv returns B with A.B = 1 (then B is the model's inverse: inv_contract_unique); "
               "np.linalg.svd returns U.diag(s).Vh = L with orthonormal factors and sorted s (re-checked on the system "
               "of every generated spline; truncSVD_kept / truncSVD_full / tps_truncSVD_interpolates derive the rest, "
               "so the former contract 'the truncated-SVD solve returns (L^-1)^T.Y' is a theorem); scipy Delaunay "
               "(sources that are not meshes) is taken as given: the model receives the trilist the object holds; the "
               "radial function values r^2 log r come from the real kernel classes (the theorems hold for every radial "
               "function; log r^2 = 2 log r is checked numerically).  The matrices installed by set_target / "
               "from_vector_inplace are taken from the real object (the fit is C07's subject, the parametrisation "
               "C05's); in-place compositions are computed by the model.  The triangulation certificate is sufficient, "
               "not necessary (15 candidate lines per pair); the evidence counts the generated meshes that pass it "
               "(`pwa:certified-triangulation:1`; all of them on every seed swept so far - a mesh that did not would "
               "only be covered by the hypothesis form of the theorems and by the oracle).  Float rounding is not modelled (exact rationals vs float64 compared to 1e-9 relative, "
               "single-precision parameters to 1e-4 with condition number <= 200), except on the lattice meshes "
               "where every intermediate is exact and the comparison is bit-exact.",
    rule="one case = one transform object (class, dimension, parameters / landmark sets, array form, shape classes) with "
         "its probe points, or one live object with an operation list (mutators and pseudoinverse() queries); distinct "
         "= distinct (class, parameters, points, operations); non-trivial = not the identity map",
    partial=["tps_truncSVD_interpolates / tps_truncSVD_attainable_interpolates take a RATIONAL orthonormal SVD of the spline "
             "system as hypothesis; generic systems have none over Q (singular values are irrational), the only instance "
             "shown is a 2x2 diagonal matrix, and _build_coefficients itself is transcribed (truncInv), tied numerically "
             "(tps_solve_tie), not translated: these two theorems are algebra about the coded formula, not a statement "
             "about executed data",
             "PWA: 'each target landmark returns to its source landmark' is proved per affine piece (pwa_pinv_landmarks); "
             "through the lookup (pinv.apply t_i = s_i whichever containing triangle is picked) it follows from "
             "certified_sound + pwa_pinv_left but is not stated as a theorem; vertices used by no triangle are not covered",
             "the frame condition of the operation-sequence theorems (run_no_writes: the answer is a function of the "
             "current class, h_matrix, _source, _target) is MEASURED, not proved: instance attributes, class "
             "dictionaries along the MRO and the globals of the defining modules are diffed around pseudoinverse() on "
             "live objects; a memo in a closure / functools cache would escape the measurement and is left to the "
             "history generators (homops / tpsops / pwaops)",
             "TPS: solvability of the reverse system is a hypothesis of tps_interpolates / tps_pinvFixed_reverse_fit "
             "(it cannot be derived for an abstract radial function; with the SVD contract it becomes 'every singular "
             "value is non-zero and kept', tps_truncSVD_interpolates); rank-deficient landmark sets, where "
             "min_singular_val truncates, are outside the property's quantifier: the algebraic statements "
             "truncSVD_kept / truncSVD_attainable cover them, the generator does not produce them"],
    assumptions=["pseudoinverse() is a function of the object's current (class, h_matrix, _source, _target / landmarks, "
                 "kernel class, min_singular_val) - measured on instance attributes, class dictionaries and module "
                 "globals, not proved",
                 "aliasing and non-mutation are outside the translated obligations (value-level translation)",
                 "inputs are in general position with bounded condition number, as the property's quantifier states "
                 "(generator enforces it with exact arithmetic on the inputs)"],
    design_ref="DESIGN.md section 6, C04; section 7 item 1; section 14")
IMPORTS = ["MenpoModel.Props.C04", "MenpoModel.GenProps.C04", "MenpoModel.GenProps.C04Src"]
# obligations over the pseudoinverse code TRANSLATED FROM SOURCE on every run (harness/trans_c04.py -> Generated/C04Src.lean)
SRC_THEOREMS = ["MenpoModel.GenProps.C04Src." + t for t in (
    "supOf_ok m_h_matrix_eq m_n_dims_eq m_translation_component_eq m_linear_component_eq m_rotation_matrix_eq "
    "m_scale_u_eq m_scale_v_eq m_set_h_matrix_FT_eq m_set_rotation_matrix_T_eq gen_Homogeneous_init_FT_eq "
    "gen_Affine_init_FT_eq gen_Similarity_init_FT_eq ctor_dyn_FT_eq ctor_Translation_T_eq ctor_UniformScale_T_eq "
    "ctor_NonUniformScale_T_eq ctor_Rotation_T_eq m_h_matrix_pseudoinverse_eq m_has_true_inverse_eq m_copy_eq "
    "gen_Homogeneous_pseudoinverse_eq gen_Translation_pseudoinverse_eq gen_UniformScale_pseudoinverse_eq "
    "gen_NonUniformScale_pseudoinverse_eq gen_Rotation_pseudoinverse_eq gen_HomogFamilyAlignment_pseudoinverse_eq "
    "srcPinv_eq gen_pseudoinverse_vector_eq gen_Homogeneous_apply_eq gen_ThinPlateSplines_has_true_inverse_eq "
    "gen_ThinPlateSplines_init_eq gen_ThinPlateSplines_pseudoinverse_eq src_tps_pinv_eq "
    "gen_AbstractPWA_has_true_inverse_eq gen_AbstractPWA_init_eq gen_AbstractPWA_pseudoinverse_eq src_pwa_pinv_eq "
    "gen_alpha_beta_eq gen_barycentric_vectors_eq gen_rebuild_target_vectors_eq gen_AbstractPWA_apply_eq src_piece_eq "
    "ctor_Homogeneous_default_eq gen_tcoords_to_image_coords_eq gen_image_coords_to_tcoords_eq src_has_true_inverse "
    "src_pinv_sound src_pinv_inverts src_run_eq src_hom_ops_pinv_sound src_pinv_involutive src_tps_pinv_reverse_fit "
    "src_pwa_pinv_roundtrip src_tcoords_roundtrip gen_set_target_tps_eq gen_set_target_pwa_eq src_tps_ops_pinv_sound "
    "src_pwa_ops_pinv_sound srcChainPinv_eq src_chain_pinv_sound").split()]
GEN_THEOREMS = SRC_THEOREMS + [
    "MenpoModel.GenProps.C04.dispatch_ok",
    "MenpoModel.GenProps.C04.family_ok",
    "MenpoModel.GenProps.C04.invertible_ok",
    "MenpoModel.GenProps.C04.pinvWrites_ok",
    "MenpoModel.GenProps.C04.no_writes_live",
    "MenpoModel.GenProps.C04.hom_ops_pinv_sound_live",
    "MenpoModel.GenProps.C04.tps_ops_pinv_sound_live",
    "MenpoModel.GenProps.C04.pwa_ops_pinv_sound_live",
]
THEOREMS = [
    "MenpoModel.C04.inv_two_sided",
    "MenpoModel.C04.inv_contract_unique",
    "MenpoModel.C04.applyH_left_inverse",
    "MenpoModel.C04.pinvH_sound",
    "MenpoModel.C04.pinv_sound",
    "MenpoModel.C04.structural_of_honest",
    "MenpoModel.C04.pinvH_inverts",
    "MenpoModel.C04.pinv_inverts",
    "MenpoModel.C04.affine_total",
    "MenpoModel.C04.rotation_inverse_orientation",
    "MenpoModel.C04.tcoords_roundtrip",
    "MenpoModel.C04.tcoords_formula",
    "MenpoModel.C04.pwa_pinv_left",
    "MenpoModel.C04.pwa_pinv_right",
    "MenpoModel.C04.mesh_pinv",
    "MenpoModel.C04.mesh_pinv_ends",
    "MenpoModel.C04.pwa_pinv_landmarks",
    "MenpoModel.C04.pwa_edge_continuity",
    "MenpoModel.C04.tps_interpolates",
    "MenpoModel.C04.tps_pinvFixed_reverse_fit",
    "MenpoModel.C04.tps_fit_interpolates",
    "MenpoModel.C04.tps_pinvCoded_refuted",
    "MenpoModel.C04.tps_pinvFixed_example",
    # objects with a history (Props/C04Ops.lean)
    "MenpoModel.C04.run_no_writes",
    "MenpoModel.C04.run_no_writes_last",
    "MenpoModel.C04.honest_mul",
    "MenpoModel.C04.good_act",
    "MenpoModel.C04.hom_ops_pinv_sound",
    "MenpoModel.C04.source_invariant",
    "MenpoModel.C04.target_after_set",
    "MenpoModel.C04.memo_refuted",
    "MenpoModel.C04.pinv_involutive",
    "MenpoModel.C04.pinv_after_compose",
    "MenpoModel.C04.tps_ops_pinv_sound",
    "MenpoModel.C04.pwa_ops_pinv_sound",
    "MenpoModel.C04.pwa_ops_roundtrip_certified",
    # chains of any length (Props/C04Chain.lean)
    "MenpoModel.C04.chain_pinv_sound",
    # the triangulation certificate (Props/C04Mesh.lean)
    "MenpoModel.C04.piece_affine",
    "MenpoModel.C04.sepOK_agree",
    "MenpoModel.C04.certified_sound",
    "MenpoModel.C04.pwa_roundtrip_certified",
    "MenpoModel.C04.indexAB_lookup",
    # the spline solve and the kernel classes (Props/C04Tps.lean)
    "MenpoModel.C04.truncSVD_kept",
    "MenpoModel.C04.truncSVD_full",
    "MenpoModel.C04.truncSVD_attainable",
    "MenpoModel.C04.tps_interpolates_of_solution",
    "MenpoModel.C04.tps_truncSVD_interpolates",
    "MenpoModel.C04.tps_truncSVD_attainable_interpolates",
    "MenpoModel.C04.tps_kernel_scale",
] + GEN_THEOREMS

FAMILY = ["Homogeneous", "Affine", "Similarity", "Rotation", "Translation", "UniformScale", "NonUniformScale",
          "AlignmentAffine", "AlignmentSimilarity", "AlignmentRotation", "AlignmentTranslation",
          "AlignmentUniformScale"]
TOL = 1e-9


# ----------------------------------------------------------------------------- exact helpers (generator side)

def F(x):
    return Fraction(x)


def fdet(m):
    """exact determinant of a list-of-lists of Fractions (fraction Gauss)"""
    m = [list(map(F, r)) for r in m]
    n = len(m)
    det = Fraction(1)
    for c in range(n):
        p = next((r for r in range(c, n) if m[r][c] != 0), None)
        if p is None:
            return Fraction(0)
        if p != c:
            m[c], m[p] = m[p], m[c]
            det = -det
        det *= m[c][c]
        for r in range(c + 1, n):
            f = m[r][c] / m[c][c]
            if f:
                m[r] = [a - f * b for a, b in zip(m[r], m[c])]
    return det


def finv(m):
    """exact inverse (Fractions) or None"""
    n = len(m)
    a = [list(map(F, r)) + [F(int(i == j)) for j in range(n)] for i, r in enumerate(m)]
    for c in range(n):
        p = next((r for r in range(c, n) if a[r][c] != 0), None)
        if p is None:
            return None
        a[c], a[p] = a[p], a[c]
        pv = a[c][c]
        a[c] = [v / pv for v in a[c]]
        for r in range(n):
            if r != c and a[r][c] != 0:
                f = a[r][c]
                a[r] = [v - f * w for v, w in zip(a[r], a[c])]
    return [row[n:] for row in a]


def cond_inf(m):
    """exact infinity-norm condition number of a square matrix of Fractions (None if singular)"""
    b = finv(m)
    if b is None:
        return None
    return max(sum(abs(v) for v in r) for r in m) * max(sum(abs(v) for v in r) for r in b)


def dy(rng, kmax=32, mexp=3, nonzero=False):
    return common.dyadic(rng, kmax, mexp, nonzero)


def int_matrix(rng, d, lo=-3, hi=3, detmin=1, detmax=12):
    while True:
        m = [[rng.randint(lo, hi) for _ in range(d)] for _ in range(d)]
        dt = abs(fdet(m))
        if detmin <= dt <= detmax:
            return m


def unimodular(rng, n):
    """an integer matrix of determinant +-1 built from elementary shears, row swaps and sign flips: entries up to a few
    hundred, an exact integer inverse with entries as large - close to singular in floating point terms (condition
    numbers 1e3 .. 1e6), yet a perfectly legal, exactly invertible parameter value"""
    m = [[int(i == j) for j in range(n)] for i in range(n)]
    for _ in range(rng.randint(n + 1, 2 * n + 2)):
        i, j = rng.sample(range(n), 2)
        k = rng.choice([-3, -2, -1, 1, 2, 3])
        u = rng.random()
        if u < 0.75:
            m[i] = [a + k * b for a, b in zip(m[i], m[j])]
        elif u < 0.9:
            m[i], m[j] = m[j], m[i]
        else:
            m[i] = [-a for a in m[i]]
    return m


def rat_rotation(rng, d):
    """exactly orthogonal rational rotation (as Fractions), det +1"""
    if d == 2:
        c, s = common.rat_circle(rng, 8)
        return [[c, -s], [s, c]]
    while True:
        q = [Fraction(rng.randint(-4, 4)) for _ in range(4)]
        n2 = sum(x * x for x in q)
        if n2 != 0:
            break
    w, x, y, z = q
    return [[(w * w + x * x - y * y - z * z) / n2, 2 * (x * y - z * w) / n2, 2 * (x * z + y * w) / n2],
            [2 * (x * y + z * w) / n2, (w * w - x * x + y * y - z * z) / n2, 2 * (y * z - x * w) / n2],
            [2 * (x * z - y * w) / n2, 2 * (y * z + x * w) / n2, (w * w - x * x - y * y + z * z) / n2]]


def fl(m):
    return [[float(v) for v in r] for r in m]


def gen_points(rng, d, k, kmax=40, mexp=2):
    return [[dy(rng, kmax, mexp) for _ in range(d)] for _ in range(k)]


def general_cloud(rng, d, n):
    """n small dyadic points whose homogeneous Gram matrix is well away from singular (exact test)"""
    while True:
        pts = gen_points(rng, d, n, 24, 2)
        a = [[F(v) for v in p] + [F(1)] for p in pts]
        g = [[sum(r[i] * r[j] for r in a) for j in range(d + 1)] for i in range(d + 1)]
        if abs(fdet(g)) >= 50:
            return pts


# ----------------------------------------------------------------------------- end points as every shape class

SHAPE_CLASSES = ["PointCloud", "TriMesh", "ColouredTriMesh", "TexturedTriMesh", "PointUndirectedGraph",
                 "PointDirectedGraph", "PointTree", "LabelledPointUndirectedGraph"]


def gen_shape_spec(rng, n, d, cls=None, trilist=None):
    """JSON-able description of the extra structure (triangles, edges, colours, labels ...) a landmark set of `n`
    points is dressed in.  An alignment's fit must depend on the points only, so every clause of the property has
    to hold whatever shape class carries them."""
    cls = cls or rng.choice(SHAPE_CLASSES)
    spec = _gen_shape_spec(rng, n, d, cls, trilist)
    if rng.random() < 0.25:
        spec["dtype"] = "int64"        # integer-typed landmark arrays (used only where every coordinate is integral)
    return spec


def _gen_shape_spec(rng, n, d, cls, trilist):
    if cls == "PointCloud" or n < 3:
        return {"cls": "PointCloud"}
    if cls in ("TriMesh", "ColouredTriMesh", "TexturedTriMesh"):
        if trilist is None:
            trilist = []
            for _ in range(rng.randint(1, n)):
                trilist.append(rng.sample(range(n), 3))
        return {"cls": cls, "trilist": [list(map(int, t)) for t in trilist]}
    parent = [rng.randrange(i) for i in range(1, n)]          # a random tree rooted in vertex 0
    edges = [[parent[i - 1], i] for i in range(1, n)]
    if cls in ("PointUndirectedGraph", "PointDirectedGraph", "LabelledPointUndirectedGraph"):
        extra = [sorted(rng.sample(range(n), 2)) for _ in range(rng.randint(0, 2))]
        edges = edges + [e for e in extra if e not in edges and e[::-1] not in edges]
    spec = {"cls": cls, "edges": edges}
    if cls == "LabelledPointUndirectedGraph":
        spec["split"] = rng.randint(1, n - 1)
    return spec


def make_shape(spec, pts):
    """the menpo shape object described by `spec` on the points `pts`"""
    import menpo.shape as S
    pts = np.array(pts, dtype=float)
    if (spec or {}).get("dtype") == "int64" and np.array_equal(pts, np.round(pts)):
        pts = pts.astype(np.int64)
    n = len(pts)
    cls = (spec or {}).get("cls", "PointCloud")
    if cls == "PointCloud":
        return S.PointCloud(pts)
    if cls in ("TriMesh", "ColouredTriMesh", "TexturedTriMesh"):
        tl = spec.get("trilist")
        tl = None if tl is None else np.array(tl, dtype=np.int64).reshape(-1, 3)      # None: the mesh's own Delaunay
        if cls == "TriMesh":
            return S.TriMesh(pts, tl)
        if cls == "ColouredTriMesh":
            return S.ColouredTriMesh(pts, tl, colours=np.linspace(0.0, 1.0, n * 3).reshape(n, 3))
        from menpo.image import Image
        return S.TexturedTriMesh(pts, np.linspace(0.0, 1.0, n * 2).reshape(n, 2), Image(np.zeros((1, 4, 4))), tl)
    edges = np.array(spec["edges"], dtype=np.int64).reshape(-1, 2)
    if cls == "PointUndirectedGraph":
        return S.PointUndirectedGraph.init_from_edges(pts, edges)
    if cls == "PointDirectedGraph":
        return S.PointDirectedGraph.init_from_edges(pts, edges)
    if cls == "PointTree":
        return S.PointTree.init_from_edges(pts, edges, root_vertex=0)
    if cls == "LabelledPointUndirectedGraph":
        from collections import OrderedDict
        m = np.zeros(n, dtype=bool)
        m[:spec["split"]] = True
        return S.LabelledPointUndirectedGraph.init_from_edges(pts, edges, OrderedDict([("a", m), ("b", ~m)]))
    raise ValueError(cls)


# ----------------------------------------------------------------------------- recipes -> real objects

def _decoy(a):
    """another non-degenerate point set of the same shape (used as the target of a previous life)"""
    a = np.array(a, dtype=float)
    d = a.shape[1]
    m = np.eye(d) * 1.5
    m[0, -1] = 0.5
    m[-1, 0] = -0.25
    return a.dot(m) + np.arange(d) * 0.75 + 1.0


def build(recipe):
    """rebuild the real transform from a JSON-able recipe (also used by replays).

    recipe["history"] == "pinv-then-update": the object has had a previous life - it was built on other parameters,
    its pseudoinverse() was taken, and only then was it brought to the recipe's parameters through a public mutator
    (set_target for alignments; set_h_matrix / from_vector_inplace otherwise).  Property C08/C05 make it
    indistinguishable from a fresh object, so every C04 clause must hold for it exactly as for a fresh one."""
    t = _build_fresh(recipe)
    LAST_BUILD["history_applied"] = False
    if recipe.get("history") != "pinv-then-update":
        return t
    u = _build_history(recipe, t)
    LAST_BUILD["history_applied"] = u is not t
    return u


LAST_BUILD = {"history_applied": False}


def _build_history(recipe, t):
    import warnings
    from menpo.shape import PointCloud
    from menpo.transform.base import Alignment
    if isinstance(t, Alignment):
        old = dict(recipe)
        old.pop("history")
        key = "target" if recipe["kind"] == "hom" else "tgt"
        old[key] = _decoy(recipe[key]).tolist()
        try:
            u = _build_fresh(old)
        except Exception:
            return t
        try:
            u.pseudoinverse()
        except Exception:
            pass
        u.set_target(make_shape(recipe.get("tgt_as"), recipe[key]))
        return u
    if recipe["kind"] != "hom":
        return t
    old = dict(recipe)
    old.pop("history")
    for k in ("h", "R", "t", "v"):
        if k in old:
            a = np.array(old[k], dtype=float)
            old[k] = (a.T if k == "R" else a * 2.0 + (0.0 if k in ("v",) else 0.0)).tolist()
    if "h" in old:
        a = np.array(recipe["h"], dtype=float)
        a[:-1, -1] += 1.0
        old["h"] = a.tolist()
    if "s" in old:
        old["s"] = float(old["s"]) * 2.0
    try:
        u = _build_fresh(old)
        u.pseudoinverse()
    except Exception:
        return t
    with warnings.catch_warnings():
        warnings.simplefilter("ignore")
        try:
            u.from_vector_inplace(t.as_vector())
            return u
        except Exception:
            pass
        try:
            if getattr(u, "h_matrix_is_mutable", False):
                u.set_h_matrix(np.array(t.h_matrix, dtype=float))
                return u
        except Exception:
            pass
    return t


ARRAY_FORMS = ["C", "C", "F", "strided", "transposed-view", "int", "float32", "readonly"]


def present(a, form):
    """the same numbers as another kind of ndarray: Fortran order, a strided view into a larger buffer, the transpose
    view of the transposed copy, an integer / float32 array (only if that loses nothing), a read-only array"""
    a = np.array(a, dtype=float)
    if form == "F":
        return np.asfortranarray(a)
    if form == "strided":
        big = np.full(tuple(2 * n + 1 for n in a.shape), 7.5)
        sl = tuple(slice(1, None, 2) for _ in a.shape)
        big[sl] = a
        return big[sl]
    if form == "transposed-view":
        return np.array(a.T, order="C").T
    if form == "int":
        return a.astype(np.int64) if np.array_equal(a, np.round(a)) else a
    if form == "int32":
        return a.astype(np.int32) if np.array_equal(a, np.round(a)) else a
    if form == "float32":
        return a.astype(np.float32) if np.array_equal(a.astype(np.float32).astype(float), a) else a
    if form == "readonly":
        a.setflags(write=False)
        return a
    return a


def _build_fresh(recipe):
    import menpo.transform as T
    from menpo.shape import PointCloud, TriMesh
    k = recipe["kind"]
    if k == "hom":
        c = recipe["cls"]
        form = recipe.get("array", "C")
        if c in ("Homogeneous", "Affine", "Similarity"):
            return getattr(T, c)(present(recipe["h"], form))
        if c == "Rotation":
            return T.Rotation(present(recipe["R"], form))
        if c == "Translation":
            return T.Translation(present(recipe["t"], form))
        if c == "UniformScale":
            sv = recipe["s"]
            if form == "int" and float(sv) == int(sv):
                sv = int(sv)
            elif form == "float32":
                sv = np.float32(sv) if float(np.float32(sv)) == float(sv) else float(sv)
            else:
                sv = float(sv)
            return T.UniformScale(sv, int(recipe["d"]))
        if c == "NonUniformScale":
            return T.NonUniformScale(present(recipe["v"], form))
        src = make_shape(recipe.get("src_as"), recipe["source"])
        tgt = make_shape(recipe.get("tgt_as"), recipe["target"])
        return getattr(T, c)(src, tgt, **recipe.get("kwargs", {}))
    if k == "pwa":
        from menpo.transform.piecewiseaffine.base import PythonPWA, CachedPWA
        cls = {"PythonPWA": PythonPWA, "CachedPWA": CachedPWA, "PiecewiseAffine": T.PiecewiseAffine}[recipe["cls"]]
        # the source decides the triangulation: a mesh class carrying `trilist`, or any other shape class (then the
        # constructor triangulates the source points itself: Delaunay, which the generator has reproduced)
        src = make_shape(recipe.get("src_as") or {"cls": "TriMesh", "trilist": recipe["trilist"]}, recipe["src"])
        return cls(src, make_shape(recipe.get("tgt_as"), recipe["tgt"]))
    if k == "tps":
        src = make_shape(recipe.get("src_as"), recipe["src"])
        tgt = make_shape(recipe.get("tgt_as"), recipe["tgt"])
        kern = None if recipe.get("kernel") is None else getattr(T, recipe["kernel"])(src.points)
        if recipe.get("msv") is not None:
            return T.ThinPlateSplines(src, tgt, kernel=kern, min_singular_val=float(recipe["msv"]))
        return T.ThinPlateSplines(src, tgt, kernel=kern)
    if k == "tcoords":
        return T.tcoords_to_image_coords(tuple(recipe["shape"]))
    raise ValueError(k)


def snippet(recipe):
    return ("import sys; sys.path.insert(0, '/verif'); sys.path.insert(0, '/repo'); import numpy as np\n"
            "from harness import c04\nt = c04.build(%r)\np = t.pseudoinverse()" % (recipe,))


# ----------------------------------------------------------------------------- generators

def gen_target(rng, src, d):
    """a target for the landmark set `src`: a known well conditioned similarity-ish map of it plus bounded noise"""
    R = rat_rotation(rng, d)
    k = Fraction(rng.choice([1, 2, 3, 4, 6]), rng.choice([1, 2, 4]))
    t = [F(dy(rng, 24, 2)) for _ in range(d)]
    noise = Fraction(rng.choice([0, 1, 2, 4]), 8)
    tgt = []
    for p in src:
        q = [k * sum(R[i][j] * F(p[j]) for j in range(d)) + t[i] for i in range(d)]
        tgt.append([float(q[i] + noise * F(dy(rng, 8, 3))) for i in range(d)])
    return tgt


EXTREMES = ["near-isotropic", "huge", "tiny"]
DTYPE_CLASSES = ["Homogeneous", "Affine", "Similarity"]          # the classes that keep the caller's array as it comes
DTYPE_FORMS = ["int", "int32", "float32"]


def gen_hom_dtype(rng, cls, d, form):
    """A member of a class that stores the caller's matrix as it comes, given as an INTEGER-dtype (int64 / int32) or
    single-precision array whose inverse has fractional entries (|det| >= 2): the inverse has to come out in floating
    point, whatever dtype the parameters were handed over in."""
    r = {"kind": "hom", "cls": cls, "d": d, "history": None, "array": form, "dtype_case": True}
    if cls == "Homogeneous":
        while True:
            m = int_matrix(rng, d + 1, -3, 3, 2, 24)
            if m[d][d] != 0:
                break
        r["h"] = [[float(v) for v in row] for row in m]
    elif cls == "Affine":
        L = int_matrix(rng, d, -3, 3, 2, 12)
        r["h"] = [[float(L[i][j]) for j in range(d)] + [float(rng.randint(-9, 9))] for i in range(d)] + [[0.0] * d + [1.0]]
    else:
        while True:          # n2·R is an integer matrix for a rational rotation R = (integer matrix) / n2: scale n2 >= 2
            if d == 2:
                a, b = rng.randint(-4, 4), rng.randint(-4, 4)
                n2, M = a * a + b * b, [[a, -b], [b, a]]
            else:
                q = [rng.randint(-2, 2) for _ in range(4)]
                n2 = sum(x * x for x in q)
                w, x, y, z = q
                M = [[w * w + x * x - y * y - z * z, 2 * (x * y - z * w), 2 * (x * z + y * w)],
                     [2 * (x * y + z * w), w * w - x * x + y * y - z * z, 2 * (y * z - x * w)],
                     [2 * (x * z - y * w), 2 * (y * z + x * w), w * w - x * x - y * y + z * z]]
            if 2 <= n2 <= 12:
                break
        r["h"] = [[float(M[i][j]) for j in range(d)] + [float(rng.randint(-9, 9))] for i in range(d)] + [[0.0] * d + [1.0]]
    r["xs"] = gen_points(rng, d, 4)
    r["x2"] = gen_points(rng, d, 3)
    return r


def gen_hom_extreme(rng, cls, d, kind):
    """Members whose parameters are perfectly well conditioned RELATIVE TO ONE ANOTHER but sit where a tolerance-based
    decision (np.allclose in the Scale factory or in a sanity check, an absolute epsilon) would take the wrong turn:
    per-axis factors that differ by a few parts in a million ("near-isotropic": [3.0, 3.00002]), very large or very
    small magnitudes ("huge" / "tiny": a metres -> nanometres conversion), rotations by a tiny angle, a projective row of
    1e-9.  The property quantifies over all non-singular parameter values with bounded condition number - these are."""
    r = {"kind": "hom", "cls": cls, "d": d, "history": rng.choice([None, None, "pinv-then-update"]), "extreme": kind}
    if not cls.startswith("Alignment"):
        r["array"] = rng.choice(["C", "C", "F", "readonly"])
    mag = {"huge": float(2 ** rng.randint(26, 33)), "tiny": float(2.0 ** -rng.randint(26, 33))}.get(kind, 1.0)
    delta = rng.choice([2e-6, 4e-6, 5e-6, 7e-6, 9e-6])

    def factors():
        if kind == "near-isotropic":
            base = rng.choice([1.0, 3.0, 0.5, 7.0, -2.0])
            v = [base] * d
            i = rng.randrange(d)
            v[i] = base * (1.0 + delta)
            if d == 3 and rng.random() < 0.5:
                v[(i + 1) % 3] = base * (1.0 - delta)
            return v
        while True:
            v = [rng.choice([-1, 1]) * rng.choice([1.0, 2.0, 3.0, 5.0, 2.5, 1.5]) for _ in range(d)]
            if len(set(v)) > 1:
                return [x * mag for x in v]

    def small_rotation():
        if d == 2:
            t = Fraction(1, 2 ** rng.randint(8, 14))
            c, s_ = (1 - t * t) / (1 + t * t), 2 * t / (1 + t * t)
            return [[c, -s_], [s_, c]]
        q = [Fraction(2 ** rng.randint(8, 12))] + [Fraction(rng.randint(-2, 2)) for _ in range(3)]
        if all(x == 0 for x in q[1:]):
            q[1] = Fraction(1)
        n2 = sum(x * x for x in q)
        w, x, y, z = q
        return [[(w * w + x * x - y * y - z * z) / n2, 2 * (x * y - z * w) / n2, 2 * (x * z + y * w) / n2],
                [2 * (x * y + z * w) / n2, (w * w - x * x + y * y - z * z) / n2, 2 * (y * z - x * w) / n2],
                [2 * (x * z - y * w) / n2, 2 * (y * z + x * w) / n2, (w * w - x * x - y * y + z * z) / n2]]

    if cls == "NonUniformScale":
        r["v"] = factors()
    elif cls == "UniformScale":
        r["s"] = (1.0 + delta) if kind == "near-isotropic" else rng.choice([-1, 1]) * rng.choice([1.0, 3.0, 5.0]) * mag
    elif cls == "Translation":
        r["t"] = [dy(rng, 60, 3) * (mag if kind != "near-isotropic" else 2.0 ** -20) for _ in range(d)]
    elif cls == "Rotation":
        r["R"] = fl(small_rotation() if kind == "near-isotropic" else rat_rotation(rng, d))
    elif cls in ("Similarity", "Affine", "Homogeneous"):
        if cls == "Similarity":
            R = small_rotation() if kind == "near-isotropic" else rat_rotation(rng, d)
            k = (1.0 + delta) if kind == "near-isotropic" else rng.choice([1.0, 3.0, 5.0]) * mag
            L = [[float(R[i][j]) * k for j in range(d)] for i in range(d)]
        else:
            v = factors()
            if cls == "Homogeneous":
                # a projective matrix is scaled as a whole, below; moderate factors keep the probes inside the domain
                v = [x / mag for x in v] if kind != "near-isotropic" else [x / abs(v[0]) * 1.5 for x in v]
                v = [max(-2.0, min(2.0, x)) if kind != "near-isotropic" else x for x in v]
                if kind != "near-isotropic" and len(set(v)) == 1:
                    v[0] = -v[0]
            L = [[v[i] if i == j else 0.0 for j in range(d)] for i in range(d)]
            if rng.random() < 0.5:          # a shear on top: not diagonal, still the same conditioning
                L[0][1] = v[0] * 0.5
        tmag = mag if (kind != "near-isotropic" and cls != "Homogeneous") else 1.0
        tr_ = [(dy(rng, 8, 2) if cls == "Homogeneous" else dy(rng, 40, 2)) * tmag for _ in range(d)]
        h = [L[i] + [tr_[i]] for i in range(d)] + [[0.0] * d + [1.0]]
        if cls == "Homogeneous":
            h[d][rng.randrange(d)] = 2.0 ** -rng.randint(28, 32)        # a projective row a tolerance would call affine
            if kind != "near-isotropic":          # the same projective map with every entry huge / tiny
                h = [[x * mag for x in row] for row in h]
        r["h"] = h
    else:
        n = rng.randint(d + 1, d + 4)
        src = general_cloud(rng, d, n)
        tgt = gen_target(rng, src, d)
        if kind == "near-isotropic":       # the fit is (nearly) the identity
            tgt = [[float(F(v) + Fraction(rng.randint(-3, 3), 2 ** 22)) for v in p_] for p_ in src]
        else:
            tgt = [[v * mag for v in p_] for p_ in tgt]
        r["source"], r["target"] = src, tgt
        r["src_as"], r["tgt_as"] = gen_shape_spec(rng, n, d), gen_shape_spec(rng, n, d)
        for sp in (r["src_as"], r["tgt_as"]):
            sp.pop("dtype", None)
        if cls == "AlignmentSimilarity":
            r["kwargs"] = {"rotation": True, "allow_mirror": False}
    # probe points away from the origin (relative comparisons)
    r["xs"] = [[rng.choice([-1, 1]) * (1 + rng.randint(1, 40) / 4.0) for _ in range(d)] for _ in range(4)]
    r["x2"] = [[rng.choice([-1, 1]) * (1 + rng.randint(1, 40) / 4.0) for _ in range(d)] for _ in range(3)]
    if cls == "Homogeneous":
        r["xs"] = [[rng.choice([-1, 1]) * rng.randint(1, 8) / 4.0 for _ in range(d)] for _ in range(4)]
        r["x2"] = [[rng.choice([-1, 1]) * rng.randint(1, 8) / 4.0 for _ in range(d)] for _ in range(3)]
    elif kind in ("huge", "tiny") and cls not in ("Translation", "Rotation"):
        r["x2"] = [[v * mag for v in p_] for p_ in r["x2"]]          # points of the TARGET side live at that scale
    return r


def gen_hom(rng, cls=None, d=None, history=True):
    cls = cls or rng.choice(FAMILY)
    d = d or rng.choice([2, 3])
    r = {"kind": "hom", "cls": cls, "d": d, "history": rng.choice([None, "pinv-then-update"]) if history else None}
    if not cls.startswith("Alignment"):
        r["array"] = rng.choice(ARRAY_FORMS)
    if cls == "Homogeneous":
        while True:
            m = unimodular(rng, d + 1) if rng.random() < 0.3 else int_matrix(rng, d + 1, -3, 3, 1, 24)
            if m[d][d] != 0:
                break
        sc = rng.choice([1.0, 1.0, 0.5, 0.25, 2.0])
        r["h"] = [[v * sc for v in row] for row in m]
    elif cls == "Affine":
        L = unimodular(rng, d) if rng.random() < 0.3 else int_matrix(rng, d)
        sc = rng.choice([1.0, 1.0, 0.5, 0.25, 2.0])
        r["h"] = [[L[i][j] * sc for j in range(d)] + [dy(rng, 40, 2)] for i in range(d)] + [[0.0] * d + [1.0]]
    elif cls == "Similarity":
        R = rat_rotation(rng, d)
        k = Fraction(rng.choice([1, 2, 3, 5, 6, 10]), rng.choice([1, 2, 4]))
        if rng.random() < 0.25:            # a mirrored similarity is a legal member too
            R = [[-v for v in R[0]]] + R[1:]
        r["h"] = [[float(k * R[i][j]) for j in range(d)] + [dy(rng, 40, 2)] for i in range(d)] + [[0.0] * d + [1.0]]
    elif cls == "Rotation":
        r["R"] = fl(rat_rotation(rng, d))
    elif cls == "Translation":
        r["t"] = [dy(rng, 60, 3) for _ in range(d)]
    elif cls == "UniformScale":
        r["s"] = rng.choice([-1, 1]) * rng.choice([0.125, 0.25, 0.5, 0.75, 1.5, 2.0, 3.0, 5.0, 7.0, 12.0])
    elif cls == "NonUniformScale":
        while True:
            v = [rng.choice([-1, 1]) * rng.choice([0.125, 0.25, 0.5, 0.75, 1.5, 2.0, 3.0, 5.0, 7.0]) for _ in range(d)]
            if len(set(v)) > 1:
                break
        r["v"] = v
    else:
        n = rng.randint(d + 1, d + 5)          # d + 1 landmarks: the affine fit is exact
        src = general_cloud(rng, d, n)
        r["source"], r["target"] = src, gen_target(rng, src, d)
        if rng.random() < 0.2:         # landmark sets on the integer lattice (go in as int64 arrays where the spec says so)
            r["source"] = [[float(round(2 * v)) for v in p] for p in src]
            r["target"] = [[float(round(2 * v)) for v in p] for p in r["target"]]
        r["src_as"], r["tgt_as"] = gen_shape_spec(rng, n, d), gen_shape_spec(rng, n, d)
        if cls == "AlignmentSimilarity":
            r["kwargs"] = {"rotation": rng.random() < 0.8, "allow_mirror": rng.random() < 0.3}
        elif cls == "AlignmentRotation":
            r["kwargs"] = {"allow_mirror": rng.random() < 0.3}
    r["xs"] = gen_points(rng, d, 4)
    r["x2"] = gen_points(rng, d, 3)
    return r


def jitter(rng, nx, ny):
    return [[i + rng.randint(-4, 4) / 16.0, j + rng.randint(-4, 4) / 16.0] for j in range(ny) for i in range(nx)]


def grid_mesh(rng):
    """jittered unit grid; every cell cut along one of its diagonals (`tris`), and along the other one (`alt`)"""
    nx, ny = rng.randint(2, 4), rng.randint(2, 4)
    tris, alt = [], []
    for j in range(ny - 1):
        for i in range(nx - 1):
            a, b, c, e = j * nx + i, j * nx + i + 1, (j + 1) * nx + i + 1, (j + 1) * nx + i
            pairs = [[[a, b, c], [a, c, e]], [[a, b, e], [b, c, e]]]
            if rng.random() < 0.5:
                pairs.reverse()
            for t in pairs[0]:
                rng.shuffle(t)
                tris.append(t)
            for t in pairs[1]:
                rng.shuffle(t)
                alt.append(t)
    rng.shuffle(tris)
    rng.shuffle(alt)
    return nx, ny, tris, alt


PWA_MAPS = [[[1, 0], [0, 1]], [[2, 0], [0, 1]], [[1, 1], [0, 1]], [[0, -2], [1, 0]], [[1.5, 0.5], [-0.5, 2]],
            [[-1, 0], [0, 1]]]


def pwa_target(rng, nx, ny, src, tris):
    """target points for the mesh (src, tris): another jitter of the grid under an affine map - a warp that is
    piecewise affine but not affine, without folding and clearly non-degenerate (every triangle keeps its orientation
    and an area >= 1/16 before the affine map).  None if this draw folds."""
    base = jitter(rng, nx, ny)
    A = rng.choice(PWA_MAPS)
    b = [dy(rng, 16, 1), dy(rng, 16, 1)]
    s_or = [tri_cross(src, t) for t in tris]
    b_or = [tri_cross(base, t) for t in tris]
    if not (all(abs(v) >= Fraction(1, 8) for v in s_or + b_or) and all((u > 0) == (v > 0) for u, v in zip(s_or, b_or))):
        return None
    return [[A[0][0] * p[0] + A[0][1] * p[1] + b[0], A[1][0] * p[0] + A[1][1] * p[1] + b[1]] for p in base]


def pwa_interior(rng, pts, tris, k=5):
    out = []
    for _ in range(k):
        t = rng.choice(tris)
        while True:
            al, be = rng.randint(1, 6), rng.randint(1, 6)
            if al + be <= 7:
                break
        a, bb, c = (pts[i] for i in t)
        out.append([a[j] + al / 8.0 * (bb[j] - a[j]) + be / 8.0 * (c[j] - a[j]) for j in range(2)])
    return out


def pwa_target_spec(rng, tk, n, tris, alt):
    tcls, _, how = tk.partition(":")
    if how == "same":
        return {"cls": tcls, "trilist": tris}
    if how == "other":
        return {"cls": tcls, "trilist": alt}
    if how == "delaunay":
        return {"cls": tcls, "trilist": None}
    return gen_shape_spec(rng, n, 2, tcls)


def tri_cross(p, t):
    a, b, c = (list(map(F, p[i])) for i in t)
    return (b[0] - a[0]) * (c[1] - a[1]) - (b[1] - a[1]) * (c[0] - a[0])


def bary(p, t, x):
    """exact barycentric coordinates (alpha, beta) of x in triangle t of the point list p"""
    a, b, c = (list(map(F, p[i])) for i in t)
    x = list(map(F, x))
    det = (b[0] - a[0]) * (c[1] - a[1]) - (b[1] - a[1]) * (c[0] - a[0])
    al = ((x[0] - a[0]) * (c[1] - a[1]) - (x[1] - a[1]) * (c[0] - a[0])) / det
    be = ((b[0] - a[0]) * (x[1] - a[1]) - (b[1] - a[1]) * (x[0] - a[0])) / det
    return al, be


def holders(p, tris, x, margin=Fraction(0)):
    """indices of the triangles whose closed hull, enlarged by `margin` in barycentric units, contains x (exact)"""
    out = []
    for k, t in enumerate(tris):
        al, be = bary(p, t, x)
        if al >= -margin and be >= -margin and al + be <= 1 + margin:
            out.append(k)
    return out


def probes_unambiguous(src, tgt, tris, xs, from_src=True):
    """every probe lies clearly inside exactly one triangle of its own mesh, and its image clearly inside exactly one
    triangle of the other mesh (exact arithmetic on the inputs): the round trip is then decided away from every edge,
    where float rounding could pick another triangle or none"""
    m = Fraction(1, 64)
    p, q = (src, tgt) if from_src else (tgt, src)
    for x in xs:
        hs = holders(p, tris, x, m)
        if len(hs) != 1:
            return False
        k = hs[0]
        al, be = bary(p, tris[k], x)
        if min(al, be, 1 - al - be) < m:
            return False
        a, b, c = (list(map(F, q[i])) for i in tris[k])
        y = [a[i] + al * (b[i] - a[i]) + be * (c[i] - a[i]) for i in range(2)]
        if holders(q, tris, y, m) != [k]:
            return False
    return True


PWA_SRC_KINDS = ["TriMesh", "TriMesh", "ColouredTriMesh", "TexturedTriMesh", "delaunay:PointCloud",
                 "delaunay:PointUndirectedGraph", "delaunay:PointTree"]
PWA_TGT_KINDS = ["PointCloud", "TriMesh:same", "TriMesh:other", "TriMesh:other", "TriMesh:delaunay",
                 "ColouredTriMesh:other", "TexturedTriMesh:other", "TexturedTriMesh:same", "PointUndirectedGraph",
                 "PointDirectedGraph", "PointTree", "LabelledPointUndirectedGraph"]


def gen_pwa(rng, history=True):
    """a fold-free piecewise affine warp, not affine as a whole.  The triangulation is the SOURCE's: given by a mesh
    class, or (any other shape class) the Delaunay triangulation the constructor computes.  The target comes as every
    shape class, in particular as meshes carrying a different triangulation of their own, which must not matter."""
    while True:
        nx, ny, tris, alt = grid_mesh(rng)
        src = jitter(rng, nx, ny)
        sk = rng.choice(PWA_SRC_KINDS)
        tk = rng.choice(PWA_TGT_KINDS)
        n = len(src)
        if sk.startswith("delaunay:"):
            from scipy.spatial import Delaunay            # what TriMesh(points) does for a source that is no mesh
            tris = [[int(v) for v in row] for row in Delaunay(np.array(src, dtype=float)).simplices]
            src_as = gen_shape_spec(rng, n, 2, sk.split(":")[1])
        else:
            src_as = {"cls": sk, "trilist": tris}
        tgt = pwa_target(rng, nx, ny, src, tris)
        if tgt is None:
            continue
        r = {"kind": "pwa", "cls": rng.choice(["PythonPWA", "CachedPWA", "PiecewiseAffine"]), "src": src, "tgt": tgt,
             "trilist": tris, "alt": alt, "grid": [nx, ny], "src_as": src_as,
             "tgt_as": pwa_target_spec(rng, tk, n, tris, alt),
             "history": rng.choice([None, "pinv-then-update"]) if history else None}
        r["xs"] = pwa_interior(rng, src, tris)
        r["y2"] = pwa_interior(rng, tgt, tris)
        if probes_unambiguous(src, tgt, tris, r["xs"], True) and probes_unambiguous(src, tgt, tris, r["y2"], False):
            return r


def tps_system_ok(src):
    """conditioning bounded on the input: the spline system of `src` (harness' own construction) has every
    singular value far above the truncation floor (1e-4) and a moderate condition number"""
    p = np.array(src, dtype=float)
    n = len(p)
    r = np.sqrt(((p[:, None, :] - p[None, :, :]) ** 2).sum(-1))
    with np.errstate(divide="ignore", invalid="ignore"):
        k = np.where(r == 0, 0.0, r ** 2 * np.log(np.where(r == 0, 1.0, r)))
    P = np.hstack([np.ones((n, 1)), p])
    L = np.vstack([np.hstack([k, P]), np.hstack([P.T, np.zeros((3, 3))])])
    s = np.linalg.svd(L, compute_uv=False)
    return s.min() >= 5e-2 and s.max() / s.min() <= 1e5


TPS_MAPS = [[[1, 0], [0, 1]], [[2, 0], [0, 1]], [[1, 0.5], [0, 1]], [[0, -1], [1, 0]], [[1.5, 0.5], [-0.5, 1]]]


def tps_target(rng, src):
    """target landmarks for a spline on `src`: an affine image plus bounded noise (so the warp is not affine), points
    well separated and the reverse system well conditioned; None if this draw is not"""
    n = len(src)
    A = rng.choice(TPS_MAPS)
    b = [dy(rng, 8, 1), dy(rng, 8, 1)]
    tgt = [[A[0][0] * p[0] + A[0][1] * p[1] + b[0] + rng.randint(-3, 3) / 8.0,
            A[1][0] * p[0] + A[1][1] * p[1] + b[1] + rng.randint(-3, 3) / 8.0] for p in src]
    if any(sum((a - c) ** 2 for a, c in zip(tgt[i], tgt[j])) < 0.25 for i in range(n) for j in range(i)):
        return None
    return tgt if tps_system_ok(tgt) else None


def gen_tps(rng, history=True):
    while True:
        n = rng.randint(3, 7)          # 3 landmarks: the spline degenerates to the affine map through them
        src = []
        while len(src) < n:
            p = [rng.randint(-12, 12) / 4.0, rng.randint(-12, 12) / 4.0]
            if all((p[0] - q[0]) ** 2 + (p[1] - q[1]) ** 2 >= 1.0 for q in src):
                src.append(p)
        if not tps_system_ok(src):
            continue
        tgt = tps_target(rng, src)
        if tgt is not None:
            break
    return {"kind": "tps", "history": rng.choice([None, "pinv-then-update"]) if history else None,
            "src_as": gen_shape_spec(rng, n, 2), "tgt_as": gen_shape_spec(rng, n, 2),
            "src": src, "tgt": tgt, "kernel": rng.choice([None, "R2LogR2RBF", "R2LogRRBF"]),
            # the truncation floor is an option the inverse has to carry over; all values stay far below the smallest
            # singular value the generator admits (5e-2), so nothing is truncated
            "msv": rng.choice([None, None, 1e-6, 1e-3]),
            "pts": [[rng.randint(-16, 16) / 4.0, rng.randint(-16, 16) / 4.0] for _ in range(3)]}


def gen_tcoords(rng):
    return {"kind": "tcoords", "shape": [rng.randint(2, 40), rng.randint(2, 40)],
            "xs": [[rng.randint(0, 16) / 16.0, rng.randint(0, 16) / 16.0] for _ in range(3)]}


# ----------------------------------------------------------------------------- oracle pieces

def amax(a):
    a = np.asarray(a, dtype=float)
    return float(np.max(np.abs(a))) if a.size else 0.0


TOL32 = 1e-4       # DESIGN section 3: single-precision parameters are compared to 1e-4 relative


def near(a, b, scale, tol=None):
    a, b = np.asarray(a, dtype=float), np.asarray(b, dtype=float)
    if a.shape != b.shape or not (np.all(np.isfinite(a)) and np.all(np.isfinite(b))):
        return False
    return bool(np.all(np.abs(a - b) <= (tol or TOL) * (1.0 + scale)))


def honest(cls_name, h, scale, tol0=TOL):
    """class invariants of a family class, numerically (what it means to be an honest member).  The LINEAR conditions
    (affine bottom row, zero translation, diagonal / uniform linear part) are judged relative to the entries of the matrix
    itself - every coded path produces them exactly -, only the quadratic ones (L·Lᵀ) get the conditioning allowance
    `scale²` (the inverse of a similarity with cond 1e6 is orthogonal to 1e-16·cond²)."""
    d = h.shape[0] - 1
    L, t = h[:d, :d], h[:d, d]
    lin = tol0 * max(amax(L), 1e-300)               # relative to the linear part
    quad = tol0 * (1 + scale * scale)
    # the bottom row multiplies the same coordinates as the linear part: a fitted alignment carries 1e-17 there, its inverse
    # 1e-17·|L^-1| - negligible next to L^-1 itself
    aff = np.all(np.abs(h[d, :d]) <= tol0 * max(abs(h[d, d]), amax(L), 1e-300)) and abs(h[d, d] - 1) <= tol0
    base = cls_name.replace("Alignment", "")
    if base == "Homogeneous":
        return True
    if not aff:
        return False
    if base == "Affine":
        return True
    g = L.dot(L.T)
    k = np.trace(g) / d
    tz = bool(np.all(np.abs(t) <= lin))
    if base == "Similarity":
        return k > 0 and bool(np.all(np.abs(g - k * np.eye(d)) <= quad * k))
    if base == "Rotation":
        return bool(np.all(np.abs(g - np.eye(d)) <= quad)) and tz
    if base == "Translation":
        return bool(np.all(np.abs(L - np.eye(d)) <= tol0))
    if base == "UniformScale":
        return bool(np.all(np.abs(L - L[0, 0] * np.eye(d)) <= lin)) and L[0, 0] != 0 and tz
    if base == "NonUniformScale":
        return bool(np.all(np.abs(L - np.diag(np.diag(L))) <= lin)) and bool(np.all(np.diag(L) != 0)) and tz
    return False


def honest_exact(cls_name, h):
    """the class invariants EXACTLY (rationals of the float entries) - what the hypothesis `Honest` of pinv_sound asks;
    the structural part (`Structural`: affine row, zero translation, diagonal pattern) is what pinv_inverts needs"""
    d = len(h) - 1
    hq = [[F(v) for v in row] for row in h]
    L = [row[:d] for row in hq[:d]]
    t = [row[d] for row in hq[:d]]
    base = cls_name.replace("Alignment", "")
    aff = all(v == 0 for v in hq[d][:d]) and hq[d][d] == 1
    tz = all(v == 0 for v in t)
    diag = all(L[i][j] == 0 for i in range(d) for j in range(d) if i != j)
    g = [[sum(L[i][k] * L[j][k] for k in range(d)) for j in range(d)] for i in range(d)]
    gdiag = all(g[i][j] == 0 for i in range(d) for j in range(d) if i != j) and len({g[i][i] for i in range(d)}) == 1
    generic = cls_name.startswith("Alignment") or base in ("Homogeneous", "Affine", "Similarity")   # np.linalg.inv(h_matrix)
    if base == "Homogeneous":
        return True, True
    if base == "Affine":
        return aff, True
    if base == "Similarity":
        return aff and gdiag and g[0][0] > 0, True
    if base == "Rotation":
        return aff and tz and gdiag and g[0][0] == 1, generic or (aff and tz)
    if base == "Translation":
        ok = aff and diag and all(L[i][i] == 1 for i in range(d))
        return ok, generic or ok
    if base == "UniformScale":
        ok = aff and tz and diag and len({L[i][i] for i in range(d)}) == 1 and L[0][0] != 0
        return ok, generic or ok
    ok = aff and tz and diag and all(L[i][i] != 0 for i in range(d))
    return ok, ok


def family_class_name(obj):
    import menpo.transform as T
    n = type(obj).__name__
    return n if n in FAMILY and getattr(T, n) is type(obj) else None


def exact_domain_ok(h, pts, unit=1):
    """projective members: every probe point keeps its homogeneous coordinate clearly away from 0 (exact); `unit` = the
    magnitude an entry of the matrix has (a projective matrix may be scaled as a whole)"""
    d = len(h) - 1
    for p in pts:
        hp = [F(v) for v in p] + [F(1)]
        w = sum(F(h[d][j]) * hp[j] for j in range(d + 1))
        m = max(abs(sum(F(h[i][j]) * hp[j] for j in range(d + 1))) for i in range(d + 1))
        if abs(w) * 16 < max(m, unit):
            return False
    return True


# ----------------------------------------------------------------------------- cases on the real code

def oracle_hom(ctx, t, cls, d, xs, x2, rp):
    """The property on the real homogeneous-family object `t` AS IT IS NOW (whatever happened to it before):
    has_true_inverse, two-sided round trip, class and honesty of the inverse, current end points exchanged.
    Returns None if the current state is outside the property's quantifier (singular / ill conditioned / probe outside
    the projective domain), {"raised": True} after an oracle failure by exception, else the observations."""
    import menpo.transform as T
    from menpo.transform.base import Alignment
    h = np.array(t.h_matrix, dtype=float)
    if not np.all(np.isfinite(h)):
        return None
    # a transform holding single-precision parameters inverts in single precision (np.linalg.inv keeps the dtype)
    tol = TOL32 if np.asarray(t.h_matrix).dtype == np.float32 else TOL
    if tol == TOL32 and (cond_inf([[F(v) for v in row] for row in h]) or 10 ** 9) > 200:
        return None       # single precision: "bounded condition number" means bounded relative to 1e-7, not to 1e-16
    hq = [[F(v) for v in row] for row in h]
    big = max(amax(h), 1.0)
    extreme = ((rp or {}).get("recipe") or {}).get("extreme")
    cn = cond_inf(hq)
    cL = None
    if extreme and cls != "Homogeneous":
        # parameters at a tolerance's edge (very large / small magnitudes): "bounded condition number" is about the
        # linear part - diag(2e8, 6e8) has condition number 3, whatever the homogeneous corner 1 makes of the full matrix
        cL = cond_inf([row[:d] for row in hq[:d]])
        cn = cL
    if cn is None or cn > 10 ** 6:
        return None       # singular / ill conditioned (e.g. a degenerate alignment): outside the quantifier
    if cls == "Homogeneous" and not exact_domain_ok(h.tolist(), np.asarray(xs).tolist() + np.asarray(x2).tolist(),
                                                    abs(F(h[d][d])) if extreme else 1):
        return None
    site = "C04/hom.pinv"
    is_al = cls.startswith("Alignment")
    if is_al:
        s0, t0 = t.source, t.target
        s0p, t0p = s0.points.copy(), t0.points.copy()
    try:
        hti = t.has_true_inverse
        p = t.pseudoinverse()
        y = t.apply(xs)
        back = p.apply(y)
        y2 = t.apply(x2) if cls == "Homogeneous" else x2
        x3 = p.apply(y2)
        y3 = t.apply(x3)
        ph = np.array(p.h_matrix, dtype=float)
    except Exception as e:
        ctx.fail(site + "/raises", type(e).__name__, "pseudoinverse/apply raised %s: %s on a non-singular %s" % (
            type(e).__name__, e, cls), rp)
        return {"raised": True}
    nrm = None
    if extreme and cls == "Homogeneous" and h[d, d] != 0:
        # a projective matrix means the same map whatever its overall factor: judge it normalised by its corner entry,
        # or the tolerance would scale with a factor that has no effect on any point
        nrm = abs(float(h[d, d]))
        big = max(amax(h) / nrm, 1.0)
    scale = max(big, amax(ph) * (nrm or 1.0), amax(xs), amax(y), amax(x3), amax(y2))
    ctx.check(hti is True, site + "/has_true_inverse", "not-true", "%s.has_true_inverse is %r" % (cls, hti), rp)
    ctx.check(near(back, xs, scale, tol), site + "/left", "roundtrip", "pinv.apply(t.apply(x)) != x for %s %dD: %r vs %r" % (
        cls, d, np.asarray(back).tolist(), np.asarray(xs).tolist()), rp)
    ctx.check(near(y3, y2, scale, tol), site + "/right", "roundtrip", "t.apply(pinv.apply(y)) != y for %s %dD: %r vs %r" % (
        cls, d, np.asarray(y3).tolist(), np.asarray(y2).tolist()), rp)
    if cL is not None:
        # RELATIVE round trips: for an affine map x -> Lx + t the float error of pinv(t(x)) is a few ulps times
        # cond(L)·(|x| + |L^-1 t|), and that of t(pinv(y)) times cond(L)·(|y| + |t|) - never the 1e-9·(largest entry of the
        # matrices) the absolute comparison above allows when the parameters are huge
        L_, t_ = h[:d, :d], h[:d, d]
        cLf = float(cL)
        bl = 1e-9 * cLf * (amax(xs) + amax(np.linalg.solve(L_, t_)))
        br = 1e-9 * cLf * (amax(y2) + amax(t_))
        el, er = amax(np.asarray(back) - xs), amax(np.asarray(y3) - y2)
        ctx.check(el <= bl, site + "/left", "roundtrip-relative",
                  "pinv.apply(t.apply(x)) != x for %s %dD with %s parameters: error %.3g, allowed %.3g (relative); the "
                  "pseudoinverse is a %s with matrix %r" % (cls, d, extreme, el, bl, type(p).__name__, ph.tolist()), rp)
        ctx.check(er <= br, site + "/right", "roundtrip-relative",
                  "t.apply(pinv.apply(y)) != y for %s %dD with %s parameters: error %.3g, allowed %.3g (relative); the "
                  "pseudoinverse is a %s with matrix %r" % (cls, d, extreme, er, br, type(p).__name__, ph.tolist()), rp)
    pname = family_class_name(p)
    ctx.check(pname is not None and isinstance(p, T.Homogeneous), site + "/class", "not-family",
              "pseudoinverse of %s is a %s, not a homogeneous-family class" % (cls, type(p).__name__), rp)
    if pname is not None:
        ctx.check(honest(pname, ph, scale, tol), site + "/class", "dishonest",
                  "pseudoinverse of %s claims class %s but its matrix breaks that class's invariants: %r" % (
                      cls, pname, ph.tolist()), rp)
    if is_al:
        ok = isinstance(p, Alignment) and pname is not None and pname.startswith("Alignment")
        ctx.check(ok, "C04/alignment.pinv/ends", "not-alignment",
                  "pseudoinverse of %s is not an alignment (%s)" % (cls, type(p).__name__), rp)
        if ok:
            sw = (p.source.points.shape == t0p.shape and np.array_equal(p.source.points, t0p)
                  and np.array_equal(p.target.points, s0p))
            ctx.check(sw, "C04/alignment.pinv/ends", "not-swapped",
                      "pseudoinverse of %s does not have source and target exchanged" % cls, rp)
    return {"cls": pname, "h": h, "ph": ph, "y": np.asarray(y), "back": np.asarray(back), "scale": scale, "rp": rp,
            "p": p, "cond": float(cn), "tol": tol, "nrm": nrm}


def case_hom(ctx, r, lines, pend, cid):
    """homogeneous family member: oracle now, model line queued.  Returns False if the recipe is outside the domain"""
    cls, d = r["cls"], r["d"]
    rp = {"recipe": r, "python": snippet(r)}
    t = build(r)
    xs = np.array(r["xs"], dtype=float)
    x2 = np.array(r["x2"], dtype=float)
    obs = oracle_hom(ctx, t, cls, d, xs, x2, rp)
    if obs is None:
        return False
    ctx.count("class:%s/%dD" % (cls, d))
    ctx.count("history:hom:" + str(r.get("history")))
    if r.get("extreme"):
        ctx.count("parameters:%s:%s" % (r["extreme"], cls))
    if r.get("dtype_case"):
        ctx.count("parameters:dtype %s with fractional inverse:%s/%dD" % (np.asarray(t.h_matrix).dtype, cls, d))
    if r.get("history"):
        ctx.count("history:hom:previous-life-%s" % ("applied" if LAST_BUILD.get("history_applied") else
                                                     "not-applicable (class has no public mutator): fresh object"))
    he, hs = honest_exact(cls, obs["h"].tolist())
    ctx.count("exact-rational member: Honest %s, Structural %s" % ("yes" if he else "no", "yes" if hs else "NO"))
    if cls.startswith("Alignment"):
        ctx.count("landmarks:%s/%s" % (t.source.points.dtype, t.target.points.dtype))
        ctx.count("landmarks-as:%s" % type(t.source).__name__)
    if "array" in r:
        ctx.count("array-form:" + r["array"])
    ctx.count("condition:%s" % ("<1e2" if obs.get("cond", 0) < 1e2 else "<1e4" if obs["cond"] < 1e4 else "<=1e6"))
    if obs.get("raised"):
        return True
    obs.pop("p")
    # model line
    lines.append("%s hom %s %d %s %d %s %s" % (cid, cls, d, common.fqs(obs["h"].ravel()), len(xs), common.fqs(xs.ravel()),
                                              common.fqs(np.asarray(obs["y"], dtype=float).ravel())))
    pend[cid] = ("hom", obs)
    if "from_vector" in legal_mutators(cls, d):
        case_pinv_vector(ctx, t, cls, d, xs, rp, lines, pend, cid + "v")
    return True


def case_pinv_vector(ctx, t, cls, d, xs, rp, lines, pend, cid):
    """`VInvertible.pseudoinverse_vector(v)`: the parameter vector of the inverse of the transform `v` denotes.
    Oracle: the object rebuilt from the returned vector undoes the object rebuilt from `v` from both sides and has the
    same class; correspondence: its matrix against the model's pseudoinverse of from_vector(v)."""
    import warnings
    site = "C04/pinv_vector"
    try:
        with warnings.catch_warnings():
            warnings.simplefilter("ignore")
            v = np.array(t.as_vector(), dtype=float)
            w = t.from_vector(v)
            wh = np.array(w.h_matrix, dtype=float)
            cn = cond_inf([[F(x) for x in row] for row in wh])
            if cn is None or cn > 10 ** 6:
                return
            if cls == "Homogeneous" and not exact_domain_ok(wh.tolist(), xs.tolist()):
                return
            pv = t.pseudoinverse_vector(v)
            q = t.from_vector(pv)
            qh = np.array(q.h_matrix, dtype=float)
            y = w.apply(xs)
            back = q.apply(y)
            fwd = w.apply(q.apply(xs)) if cls != "Homogeneous" else None
    except Exception as e:
        ctx.fail(site + "/raises", type(e).__name__, "pseudoinverse_vector raised %s: %s on the parameters of a "
                 "non-singular %s" % (type(e).__name__, e, cls), rp)
        return
    ctx.count("entry:pseudoinverse_vector:%s" % cls)
    scale = max(amax(wh), amax(qh), amax(xs), amax(y), 1.0)
    tol = TOL32 if np.float32 in (np.asarray(w.h_matrix).dtype, np.asarray(q.h_matrix).dtype, np.asarray(pv).dtype) else TOL
    if tol == TOL32 and cn > 200:
        return
    ctx.check(np.asarray(pv).shape == v.shape, site + "/shape", "length", "pseudoinverse_vector returns %r parameters "
              "for a %r-parameter %s" % (np.asarray(pv).shape, v.shape, cls), rp)
    ctx.check(near(back, xs, scale, tol), site + "/left", "roundtrip",
              "from_vector(pseudoinverse_vector(v)) does not undo from_vector(v) for %s %dD" % (cls, d), rp)
    if fwd is not None:
        ctx.check(near(fwd, xs, scale, tol), site + "/right", "roundtrip",
                  "from_vector(v) does not undo from_vector(pseudoinverse_vector(v)) for %s %dD" % (cls, d), rp)
    ctx.check(type(q) is type(t), site + "/class", "other-class", "from_vector(pseudoinverse_vector(v)) is a %s" % type(q).__name__, rp)
    lines.append("%s hom %s %d %s %d %s %s" % (cid, cls, d, common.fqs(wh.ravel()), len(xs), common.fqs(xs.ravel()),
                                              common.fqs(np.asarray(y, dtype=float).ravel())))
    pend[cid] = ("hom", {"cls": cls, "ph": qh, "y": np.asarray(y), "back": np.asarray(back), "scale": scale, "tol": tol,
                         "rp": dict(rp, entry="pseudoinverse_vector")})


def case_tcoords(ctx, r, lines, pend, cid):
    import menpo.transform as T
    rp = {"recipe": r, "python": "from menpo.transform import tcoords_to_image_coords, image_coords_to_tcoords\n"
                                 "shape = %r" % (tuple(r["shape"]),)}
    site = "C04/tcoords"
    shape = tuple(r["shape"])
    xs = np.array(r["xs"], dtype=float)
    try:
        t = T.tcoords_to_image_coords(shape)
        b = T.image_coords_to_tcoords(shape)
        y = t.apply(xs)
        back = b.apply(y)
        fwd = t.apply(b.apply(y * 0.5 + 1.0))
    except Exception as e:
        ctx.fail(site + "/raises", type(e).__name__, "tcoords transforms raised %s for shape %r" % (type(e).__name__, shape), rp)
        return True
    ctx.count("class:tcoords")
    scale = max(shape)
    ctx.check(near(back, xs, scale), site + "/left", "roundtrip",
              "image_coords_to_tcoords(tcoords_to_image_coords(x)) != x for shape %r" % (shape,), rp)
    ctx.check(near(fwd, y * 0.5 + 1.0, scale), site + "/right", "roundtrip",
              "tcoords_to_image_coords(image_coords_to_tcoords(y)) != y for shape %r" % (shape,), rp)
    ctx.check(isinstance(b, T.Homogeneous) and isinstance(t, T.Homogeneous) and b.has_true_inverse is True,
              site + "/class", "not-family", "tcoords transforms are not homogeneous-family members", rp)
    obs = {"th": np.array(t.h_matrix), "bh": np.array(b.h_matrix), "y": np.asarray(y), "back": np.asarray(back),
           "scale": scale, "rp": rp}
    lines.append("%s tcoords %d %d %d %s %s" % (cid, shape[0], shape[1], len(xs), common.fqs(xs.ravel()),
                                                common.fqs(np.asarray(y, dtype=float).ravel())))
    pend[cid] = ("tcoords", obs)
    return True


def oracle_pwa(ctx, t, xs, y2, rp):
    """the property on the real piecewise affine warp `t` as it is now; observations, or {"raised": True}"""
    from menpo.shape import PointCloud, TriMesh
    site = "C04/pwa.pinv"
    try:
        sp, tp, tl = t.source.points.copy(), t.target.points.copy(), np.array(t.trilist).copy()
        hti = t.has_true_inverse
        p = t.pseudoinverse()
        y = t.apply(xs)
        back = p.apply(y)
        x3 = p.apply(y2)
        y3 = t.apply(x3)
        lm = p.apply(tp)
        rev = type(t)(TriMesh(tp, tl), PointCloud(sp))
        rv = rev.apply(y2)
    except Exception as e:
        ctx.fail(site + "/raises", type(e).__name__, "PWA pseudoinverse/apply raised %s on interior points of a "
                 "non-degenerate mesh" % type(e).__name__, rp)
        return {"raised": True}
    scale = max(amax(sp), amax(tp))
    ctx.check(hti is True, site + "/has_true_inverse", "not-true", "PWA.has_true_inverse is %r" % (hti,), rp)
    ctx.check(near(back, xs, scale), site + "/left", "roundtrip", "pinv.apply(t.apply(x)) != x: %r vs %r" % (
        np.asarray(back).tolist(), np.asarray(xs).tolist()), rp)
    ctx.check(near(y3, y2, scale), site + "/right", "roundtrip", "t.apply(pinv.apply(y)) != y: %r vs %r" % (
        np.asarray(y3).tolist(), np.asarray(y2).tolist()), rp)
    ctx.check(type(p) is type(t), site + "/class", "other-class", "pseudoinverse of %s is a %s" % (
        type(t).__name__, type(p).__name__), rp)
    same_tris = sorted(tuple(sorted(int(v) for v in row)) for row in np.array(p.trilist)) == \
        sorted(tuple(sorted(int(v) for v in row)) for row in tl)          # the same triangles (vertex order is immaterial)
    ends = np.array_equal(p.source.points, tp) and np.array_equal(p.target.points, sp) and same_tris
    ctx.check(ends, site + "/ends", "not-swapped", "PWA pseudoinverse is not (target points, source trilist) -> source points", rp)
    ctx.check(near(lm, sp, scale), site + "/landmarks", "missed", "PWA pseudoinverse does not return the target landmarks "
              "to the source landmarks (max miss %.3g)" % amax(np.asarray(lm) - sp), rp)
    ctx.check(near(x3, rv, scale), site + "/reverse-fit", "differs", "PWA pseudoinverse differs from the PWA fitted in "
              "the reverse direction", rp)
    return {"y": np.asarray(y), "back": np.asarray(back), "x3": np.asarray(x3), "scale": scale, "rp": rp,
            "sp": sp, "tp": tp, "tl": tl}


def flat(a):
    return common.fqs(np.asarray(a, dtype=float).ravel())


def case_pwa(ctx, r, lines, pend, cid):
    rp = {"recipe": r, "python": snippet(r)}
    ctx.count("class:%s" % r["cls"])
    ctx.count("pwa:source-as:%s" % (r.get("src_as") or {}).get("cls"))
    ctx.count("pwa:target-as:%s%s" % ((r.get("tgt_as") or {}).get("cls"), "" if (r.get("tgt_as") or {}).get(
        "trilist", 0) == 0 else (":same-trilist" if r["tgt_as"]["trilist"] == r["trilist"] else ":own-trilist")))
    xs = np.array(r["xs"], dtype=float)
    y2 = np.array(r["y2"], dtype=float)
    try:
        t = build(r)
    except Exception as e:
        ctx.fail("C04/pwa.pinv/raises", type(e).__name__, "PWA construction raised %s" % type(e).__name__, rp)
        return True
    obs = oracle_pwa(ctx, t, xs, y2, rp)
    if obs.get("raised"):
        return True
    sp, tp, tl = obs["sp"], obs["tp"], obs["tl"]
    lines.append("%s pwa %d %s %s %d %s %d %s %d %s" % (cid, len(sp), flat(sp), flat(tp), len(tl),
                                                       " ".join(str(int(v)) for v in tl.ravel()), len(xs), flat(xs),
                                                       len(xs) + len(y2), flat(np.vstack([obs["y"], y2]))))
    pend[cid] = ("pwa", obs)
    return True


def kernel_table(kcls, pts, ctrs):
    """phi(q) for every squared distance between `pts` and `ctrs`: q exact, value from the real kernel class"""
    K = kcls(np.array(ctrs, dtype=float)).apply(np.array(pts, dtype=float))
    tab = {}
    for i, p in enumerate(pts):
        for j, c in enumerate(ctrs):
            q = (F(p[0]) - F(c[0])) ** 2 + (F(p[1]) - F(c[1])) ** 2
            if q != 0 and q not in tab:
                tab[q] = F(float(K[i, j]))
    return tab


def tps_miss(r):
    """max distance by which pseudoinverse() misses the source landmarks (real code only); None if it raises"""
    try:
        t = build(r)
        return amax(np.asarray(t.pseudoinverse().apply(t.target.points)) - t.source.points)
    except Exception:
        return None


def shrink_tps(r):
    """drop landmarks one at a time while the failure persists (a spline needs 4 for a non-affine part)"""
    cur = dict(r)
    changed = True
    while changed and len(cur["src"]) > 4:
        changed = False
        for i in range(len(cur["src"])):
            cand = dict(cur, src=cur["src"][:i] + cur["src"][i + 1:], tgt=cur["tgt"][:i] + cur["tgt"][i + 1:],
                        src_as=None, tgt_as=None)
            if not (tps_system_ok(cand["src"]) and tps_system_ok(cand["tgt"])):
                continue
            m = tps_miss(cand)
            if m is not None and m > 1e-3:
                cur, changed = cand, True
                break
    return cur


def oracle_tps(ctx, t, pts, rp, r=None):
    """the property on the real spline `t` as it is now (forward interpolation, reverse fit, landmark return, ends)"""
    import menpo.transform as T
    from menpo.shape import PointCloud
    site = "C04/tps.pinv"
    try:
        sp, tp = t.source.points.copy(), t.target.points.copy()
        fwd = t.apply(sp)
        f_pts = t.apply(pts)
    except Exception as e:
        ctx.fail("C04/tps/raises", type(e).__name__, "ThinPlateSplines construction/apply raised %s" % type(e).__name__, rp)
        return {"raised": True}
    scale = max(amax(sp), amax(tp), amax(pts))
    # the forward spline interpolates (tps_interpolates; also the sanity of the generated system)
    if not near(fwd, tp, scale):        # the forward fit is C07's clause: a correspondence observation here, no verdict
        ctx.mismatch("tps.forward-fit", "ThinPlateSplines(source, target) does not map source landmarks onto target "
                     "landmarks (max miss %.3g)" % amax(np.asarray(fwd) - tp), rp)
    try:
        p = t.pseudoinverse()
        lm = p.apply(tp)
        p_pts = p.apply(pts)
        kcls = type(t.kernel)
        rev = T.ThinPlateSplines(PointCloud(tp), PointCloud(sp), kernel=kcls(tp.copy()),
                                 min_singular_val=t.min_singular_val)
        r_pts = rev.apply(pts)
    except Exception as e:
        ctx.fail(site + "/raises", type(e).__name__, "TPS pseudoinverse/apply raised %s" % type(e).__name__, rp)
        return {"raised": True}
    centres_old = (np.asarray(p.kernel.c).shape == sp.shape and np.array_equal(np.asarray(p.kernel.c), sp))
    pat = "kernel-centred-on-old-source" if centres_old else "missed"
    # the generator bounds the condition number of both spline systems (<= 1e5), so float error stays < 1e-10
    ok_lm = near(lm, sp, scale)
    if r is not None and not ok_lm and not any(f[0] == site + "/landmarks" for f in ctx.failures) and \
            not any(k[0] == site + "/landmarks" for k in ctx.known_seen):
        rmin = shrink_tps(r)
        rp = dict(rp, minimal_recipe=rmin, minimal_python=snippet(rmin) +
                  "\nprint(abs(p.apply(t.target.points) - t.source.points).max())   # required: ~0",
                  minimal_miss=tps_miss(rmin), required="p.apply(t.target.points) == t.source.points")
    ctx.check(ok_lm, site + "/landmarks", pat,
              "TPS pseudoinverse does not send the target landmarks back onto the source landmarks: max miss %.4g "
              "(kernel centres are %s)" % (amax(np.asarray(lm) - sp),
                                           "still the old source points" if centres_old else "re-centred"), rp)
    ok_rev = near(p_pts, r_pts, max(scale, amax(r_pts)))
    ctx.check(ok_rev, site + "/reverse-fit", pat if centres_old else "differs",
              "TPS pseudoinverse is not the spline fitted in the reverse direction: %r vs %r" % (
                  np.asarray(p_pts).tolist(), np.asarray(r_pts).tolist()), rp)
    ctx.check(type(p) is type(t), site + "/class", "other-class", "pseudoinverse of ThinPlateSplines is a %s" % type(p).__name__, rp)
    ctx.check(np.array_equal(p.source.points, tp) and np.array_equal(p.target.points, sp), site + "/ends", "not-swapped",
              "TPS pseudoinverse does not have source and target exchanged", rp)
    # the option is not named by the property (and cannot change a value here: every singular value is far above every
    # floor the generator uses): an observation for the correspondence, not a verdict
    pm, tm = getattr(p, "min_singular_val", None), getattr(t, "min_singular_val", None)
    if pm != tm:
        ctx.mismatch("tps.pinv.options", "TPS pseudoinverse does not keep min_singular_val (%r vs %r)" % (pm, tm), rp)
    return {"fit": np.vstack([fwd, f_pts]), "pinv": np.vstack([lm, p_pts]), "scale": scale, "rp": rp,
            "oracle_ok": ok_lm and ok_rev, "sp": sp, "tp": tp, "kcls": kcls}


def tps_solve_tie(ctx, t, pts, obs, rp):
    """ties of the spline theorems to the code and the library:
    (1) numpy's raw SVD contract on this spline's system matrix (U·diag s·Vh = L, UᵀU = 1, Vh·Vhᵀ = 1, s sorted) — the
        hypotheses of truncSVD_kept / truncSVD_full — and that nothing is truncated (general position);
    (2) the coded formula `U[:, :keep]·(1/s[:keep]·Vh[:keep])·yᵀ` on those factors reproduces `coefficients`
        (the model's `truncInv`), and solves the transposed system as truncSVD_full says;
    (3) tps_kernel_scale: R2LogR2RBF = 2·R2LogRRBF on every distance of the case (contract of log), and the spline and
        its pseudoinverse do not depend on which of the two kernel classes is used."""
    import menpo.transform as T
    from menpo.shape import PointCloud
    L = np.array(t.l, dtype=float)
    n = L.shape[0]
    u, s_, vh = np.linalg.svd(L)
    sc = max(amax(L), 1.0)
    eye = np.eye(n)
    contract = (near(u.dot(np.diag(s_)).dot(vh), L, sc * n) and near(u.T.dot(u), eye, n) and near(vh.dot(vh.T), eye, n)
                and bool(np.all(np.diff(s_) <= 0)) and bool(np.all(s_ > 0)))
    if not contract:
        raise common.Infra("np.linalg.svd broke its contract (U·diag s·Vh = L, orthonormal factors, sorted s) on a "
                           "%dx%d spline system" % (n, n))
    keep = n - int(np.sum(s_ < t.min_singular_val))
    ctx.count("tps.svd: singular values kept %s" % ("all" if keep == n else "%d of %d" % (keep, n)))
    inv_l = u[:, :keep].dot(1.0 / s_[:keep, None] * vh[:keep, :])
    coef = inv_l.dot(np.array(t.y, dtype=float).T)
    csc = max(amax(coef), amax(t.coefficients), 1.0)
    cond = float(s_[0] / s_[keep - 1])
    if not near(coef, t.coefficients, csc * cond * 1e-3):
        ctx.mismatch("tps.coefficients", "coefficients differ from the coded truncated-SVD formula on numpy's factors "
                     "(max diff %.3g)" % amax(coef - np.asarray(t.coefficients)), rp)
    if keep == n and not near(L.T.dot(np.asarray(t.coefficients)), np.array(t.y, dtype=float).T, sc * cond * 1e-3):
        ctx.mismatch("tps.system", "coefficients do not solve Lᵀ·C = Y although every singular value is kept "
                     "(truncSVD_full)", rp)
    # (3) the two kernel classes
    sp, tp = obs["sp"], obs["tp"]
    k1, k2 = T.R2LogRRBF(sp.copy()).apply(np.vstack([tp, pts])), T.R2LogR2RBF(sp.copy()).apply(np.vstack([tp, pts]))
    if not near(k2, 2.0 * k1, max(amax(k2), 1.0)):
        ctx.mismatch("tps.kernel-scale", "R2LogR2RBF is not 2·R2LogRRBF on the distances of this case", rp)
    other = T.R2LogRRBF if obs["kcls"] is T.R2LogR2RBF else T.R2LogR2RBF
    try:
        t2 = T.ThinPlateSplines(PointCloud(sp), PointCloud(tp), kernel=other(sp.copy()), min_singular_val=t.min_singular_val)
        f2 = t2.apply(pts)
        p2 = t2.pseudoinverse().apply(np.vstack([tp, pts]))
    except Exception as e:      # noqa: BLE001
        ctx.mismatch("tps.kernel-scale", "the spline with kernel %s raised %s" % (other.__name__, type(e).__name__), rp)
        return
    n_lm = len(sp)
    tol_sc = max(obs["scale"], amax(obs["pinv"]), amax(obs["fit"])) * 1e2
    if not (near(f2, obs["fit"][n_lm:], tol_sc) and near(p2, obs["pinv"], tol_sc)):
        ctx.mismatch("tps.kernel-scale", "the spline / its pseudoinverse differ between R2LogRRBF and R2LogR2RBF "
                     "(tps_kernel_scale): %r vs %r" % (np.asarray(p2).tolist(), obs["pinv"].tolist()), rp)


def case_tps(ctx, r, lines, pend, cid):
    rp = {"recipe": r, "python": snippet(r)}
    ctx.count("class:ThinPlateSplines/%s" % (r["kernel"] or "default"))
    ctx.count("history:tps:" + str(r.get("history")))
    ctx.count("tps:landmarks:%d/min_singular_val:%s" % (len(r["src"]), r.get("msv")))
    pts = np.array(r["pts"], dtype=float)
    try:
        t = build(r)
    except Exception as e:
        ctx.fail("C04/tps/raises", type(e).__name__, "ThinPlateSplines construction raised %s" % type(e).__name__, rp)
        return True
    obs = oracle_tps(ctx, t, pts, rp, r)
    if obs.get("raised"):
        return True
    sp, tp, kcls = obs["sp"], obs["tp"], obs["kcls"]
    tps_solve_tie(ctx, t, pts, obs, rp)
    # model lines: forward fit, repaired inverse, inverse as coded
    allp = r["src"] + r["tgt"] + r["pts"]
    tab = kernel_table(kcls, allp, r["src"] + r["tgt"])
    tabs = " ".join("%s %s" % (common.fq(q), common.fq(v)) for q, v in tab.items())
    n = len(sp)
    evalp = np.vstack([tp, pts])
    for mode, pp in (("fit", np.vstack([sp, pts])), ("pinvFixed", evalp), ("pinvCoded", evalp)):
        lines.append("%s.%s tps %s %d %s %s %d %s %d %s" % (cid, mode, mode, n, flat(sp), flat(tp), len(tab), tabs,
                                                           len(pp), flat(pp)))
    pend[cid] = ("tps", obs)
    return True


# ----------------------------------------------------------------------------- float-exact meshes: edges, vertices, outside

def gen_pwax(rng):
    """A piecewise affine warp between two row-sheared lattices scaled by powers of two.  Every triangle has a Gram
    determinant that is a power of two, all coordinates are small dyadic numbers, so EVERY intermediate of alpha_beta,
    of the containment test and of _apply is a float64 exactly: points exactly on shared edges, on vertices and just
    outside the mesh are decided by the implementation as by real arithmetic, and the round trip must hold to the bit."""
    nx, ny = rng.randint(2, 4), rng.randint(2, 4)

    def lattice():
        sh = [rng.randint(-1, 1) for _ in range(ny)]
        sc = rng.choice([0.5, 1.0, 2.0])
        t = [rng.randint(-8, 8) / 2.0, rng.randint(-8, 8) / 2.0]
        swap = rng.random() < 0.3
        pts = []
        for j in range(ny):
            for i in range(nx):
                p = [(i + sh[j]) * sc + t[0], j * sc + t[1]]
                pts.append(p[::-1] if swap else p)
        return pts

    src, tgt = lattice(), lattice()
    tris = []
    for j in range(ny - 1):
        for i in range(nx - 1):
            a, b, c, e = j * nx + i, j * nx + i + 1, (j + 1) * nx + i + 1, (j + 1) * nx + i
            for t in ([[a, b, c], [a, c, e]] if rng.random() < 0.5 else [[a, b, e], [b, c, e]]):
                rng.shuffle(t)
                tris.append(t)
    rng.shuffle(tris)
    xs = []
    for _ in range(10):
        t = rng.choice(tris)
        a, b, c = (src[i] for i in t)
        kind = rng.choice(["vertex", "edge", "edge", "interior"])
        if kind == "vertex":
            w = rng.choice([(8, 0, 0), (0, 8, 0), (0, 0, 8)])
        elif kind == "edge":
            u = rng.randint(1, 7)
            w = rng.choice([(u, 8 - u, 0), (0, u, 8 - u), (u, 0, 8 - u)])
        else:
            u = rng.randint(1, 6)
            v = rng.randint(1, 7 - u)
            w = (u, v, 8 - u - v)
        xs.append([(w[0] * a[k] + w[1] * b[k] + w[2] * c[k]) / 8.0 for k in range(2)])
    # outside: beyond a boundary edge by a small dyadic step, and far away
    out = []
    lo = [min(p[k] for p in src) for k in range(2)]
    hi = [max(p[k] for p in src) for k in range(2)]
    for _ in range(3):
        k = rng.randint(0, 1)
        p = [rng.randint(-4, 20) / 4.0, rng.randint(-4, 20) / 4.0]
        p[k] = (lo[k] - rng.choice([1 / 64.0, 0.5, 3.0])) if rng.random() < 0.5 else (hi[k] + rng.choice([1 / 64.0, 0.5, 3.0]))
        out.append(p)
    return {"kind": "pwax", "cls": rng.choice(["PythonPWA", "CachedPWA", "PiecewiseAffine"]), "src": src, "tgt": tgt,
            "trilist": tris, "xs": xs, "out": out}


def case_pwax(ctx, r, lines, pend, cid):
    from menpo.shape import PointCloud, TriMesh
    from menpo.transform.piecewiseaffine.base import TriangleContainmentError
    rp = {"recipe": r, "python": snippet(dict(r, kind="pwa"))}
    site = "C04/pwa.pinv"
    ctx.count("class:%s/exact-lattice" % r["cls"])
    src, tris = r["src"], r["trilist"]
    xs = np.array(r["xs"], dtype=float)
    allp = np.array(r["xs"] + r["out"], dtype=float)
    inside = np.array([len(holders(src, tris, p)) > 0 for p in allp.tolist()])     # exact, independent of the model
    try:
        t = build(dict(r, kind="pwa"))
        p = t.pseudoinverse()
        y = t.apply(xs)
        back = p.apply(y)
        fwd = t.apply(back)
        idx, al, be = t.index_alpha_beta(xs)
    except Exception as e:
        ctx.fail(site + "/raises", type(e).__name__, "PWA pseudoinverse/apply raised %s on points of the closed source "
                 "domain of a lattice mesh (vertices, edge points, interior points)" % type(e).__name__, rp)
        return True
    mask = None
    try:
        t.apply(allp)
    except TriangleContainmentError as e:
        mask = np.asarray(e.points_outside_source_domain, dtype=bool)
    except Exception as e:
        ctx.fail(site + "/raises", type(e).__name__, "PWA apply raised %s instead of TriangleContainmentError" % type(
            e).__name__, rp)
        return True
    ctx.count("pwax:vertex/edge/interior probes", len(xs))
    ctx.check(np.array_equal(back, xs), site + "/left", "roundtrip-exact",
              "pinv.apply(t.apply(x)) != x on vertices / edge points / interior points of a float-exact lattice mesh: "
              "%r vs %r" % (np.asarray(back).tolist(), xs.tolist()), rp)
    ctx.check(np.array_equal(fwd, y), site + "/right", "roundtrip-exact",
              "t.apply(pinv.apply(y)) != y on a float-exact lattice mesh", rp)
    exp_mask = ~inside
    # which points OUTSIDE the domain are reported is not the property's business (it quantifies over the domain): observation
    if not ((mask is None and not exp_mask.any()) or (mask is not None and mask.shape == exp_mask.shape and
                                                      np.array_equal(mask, exp_mask))):
        ctx.mismatch("pwax.domain-mask", "TriangleContainmentError mask %r differs from the exact containment %r (points %r)"
                     % (None if mask is None else mask.tolist(), exp_mask.tolist(), allp.tolist()), rp)
    # the triangles that contain each probe (exact): where there are several (shared edges, vertices) the property does not
    # say which one index_alpha_beta has to report
    obs_holders = [holders(src, tris, p_) for p_ in xs.tolist()]
    obs = {"idx": np.asarray(idx).astype(int), "al": np.asarray(al, dtype=float), "be": np.asarray(be, dtype=float),
           "y": np.asarray(y), "back": np.asarray(back), "mask": mask, "scale": 1.0, "rp": rp, "n_in": len(xs),
           "holders": obs_holders, "src": src, "tris": tris, "xs": xs.tolist()}
    sp, tp, tl = t.source.points, t.target.points, np.array(t.trilist)
    lines.append("%s pwaidx %d %s %s %d %s %d %s" % (cid, len(sp), flat(sp), flat(tp), len(tl),
                                                    " ".join(str(int(v)) for v in tl.ravel()), len(allp), flat(allp)))
    pend[cid] = ("pwax", obs)
    return True


# ----------------------------------------------------------------------------- objects with a history (operation lists)

def legal_mutators(cls, d):
    """the public in-place operations of a family class (set_h_matrix is refused by every class: h_matrix_is_mutable is
    False throughout)"""
    base = cls.replace("Alignment", "")
    m = ["compose_before", "compose_after"]
    if base in ("Homogeneous", "Affine", "Translation", "UniformScale", "NonUniformScale") or \
            (base == "Similarity" and d == 2) or (base == "Rotation" and d == 3):
        m += ["from_vector", "compose_after_from_vector"]
    if base == "Rotation":
        m.append("set_rotation_matrix")
    m.append("set_h_matrix")          # refused by every class today (NotImplementedError): must leave the object as it was
    if cls.startswith("Alignment"):
        m += ["set_target", "set_target", "set_target"]
    return m


def _goal(rng, cls, d):
    """parameters of a member of the non-alignment class `cls` (what a mutator brings in)"""
    g = gen_hom(rng, cls, d, history=False)
    g.pop("xs")
    g.pop("x2")
    return g


def gen_homops(rng, cls=None, d=None):
    """one live object of a family class and a list of operations on it: pseudoinverse() queries (always one at the end,
    usually one at the start - a memo would be taken then) interleaved with every public mutator the class has"""
    cls = cls or rng.choice(FAMILY)
    d = d or rng.choice([2, 3])
    base = cls.replace("Alignment", "")
    init = gen_hom(rng, cls, d, history=False)
    muts = legal_mutators(cls, d)
    ops = []

    def query():
        return ["q", gen_points(rng, d, 3), gen_points(rng, d, 2)]

    if rng.random() < 0.8:
        ops.append(query())
    for _ in range(rng.randint(1, 4)):
        k = rng.choice(muts)
        if k == "set_target":
            ops.append([k, gen_target(rng, init["source"], d), gen_shape_spec(rng, len(init["source"]), d)])
        elif k == "set_rotation_matrix":
            ops.append([k, fl(rat_rotation(rng, d))])
        else:
            partner = rng.choice(["NonUniformScale", "UniformScale"]) if base == "NonUniformScale" and \
                k in ("compose_before", "compose_after") else base
            ops.append([k, _goal(rng, partner, d)])
        u = rng.random()
        if u < 0.5:
            ops.append(query())
        elif u < 0.65:
            ops.append(["apply", gen_points(rng, d, 2)])
    if ops[-1][0] != "q":
        ops.append(query())
    return {"kind": "homops", "cls": cls, "d": d, "init": init, "ops": ops}


def run_mutator(t, op):
    """execute one mutator of an operation list on the real object; returns the matrix of the other operand
    (compositions) or None"""
    import warnings
    from menpo.base import MenpoDeprecationWarning
    k = op[0]
    with warnings.catch_warnings():
        warnings.simplefilter("ignore", MenpoDeprecationWarning)
        if k == "set_target":
            t.set_target(make_shape(op[2], op[1]))
        elif k == "set_rotation_matrix":
            t.set_rotation_matrix(np.array(op[1], dtype=float))
        elif k == "set_h_matrix":
            try:
                t.set_h_matrix(np.array(_build_fresh(op[1]).h_matrix, dtype=float))
            except NotImplementedError:
                return "refused"
        elif k == "from_vector":
            t.from_vector_inplace(_build_fresh(op[1]).as_vector())
        elif k == "compose_before":
            o = _build_fresh(op[1])
            t.compose_before_inplace(o)
            return np.array(o.h_matrix, dtype=float)
        elif k == "compose_after":
            o = _build_fresh(op[1])
            t.compose_after_inplace(o)
            return np.array(o.h_matrix, dtype=float)
        elif k == "compose_after_from_vector":
            v = _build_fresh(op[1]).as_vector()
            m = np.array(t.from_vector(v).h_matrix, dtype=float)
            t.compose_after_from_vector_inplace(v)
            return m
        else:
            raise ValueError(k)
    return None


def run_ops(r):
    """replay helper: the live object of an operation-list recipe after all its operations, and every pseudoinverse"""
    t = _build_fresh(r["init"])
    out = []
    for op in r["ops"]:
        if op[0] == "q":
            out.append(t.pseudoinverse())
        elif op[0] == "apply":
            t.apply(np.array(op[1], dtype=float))
        elif r["kind"] == "homops":
            run_mutator(t, op)
        else:
            t.set_target(make_shape(op[2], op[1]))
    return t, out


def ops_snippet(r):
    return ("import sys; sys.path.insert(0, '/verif'); sys.path.insert(0, '/repo'); import numpy as np\n"
            "from harness import c04\nt, pinvs = c04.run_ops(%r)   # pinvs[k] = the k-th pseudoinverse() taken" % (r,))


class _Ids(object):
    """small integers for landmark sets, by content"""
    def __init__(self):
        self.m = {}

    def __call__(self, pc):
        a = np.ascontiguousarray(pc.points, dtype=float)
        return self.m.setdefault((a.shape, a.tobytes()), len(self.m))


def case_homops(ctx, r, lines, pend, cid):
    cls, d = r["cls"], r["d"]
    rp = {"recipe": r, "python": ops_snippet(r)}
    is_al = cls.startswith("Alignment")
    try:
        t = _build_fresh(r["init"])
    except Exception:      # noqa: BLE001 - construction is C07's subject
        return False
    pid = _Ids()
    h0 = np.array(t.h_matrix, dtype=float)
    head = "%s ops %s %d %s " % (cid, cls, d, common.fqs(h0.ravel()))
    head += ("1 %d %d" % (pid(t.source), pid(t.target))) if is_al else "0"
    toks, obs_list, kinds = [], [], []
    for op in r["ops"]:
        k = op[0]
        if k == "q":
            xs, x2 = np.array(op[1], dtype=float), np.array(op[2], dtype=float)
            obs = oracle_hom(ctx, t, cls, d, xs, x2, dict(rp, query_index=len(obs_list)))
            if obs is None:
                return False
            if obs.get("raised"):
                ctx.count("class:%s/%dD" % (cls, d))
                return True
            pr = obs.pop("p")
            obs["ends"] = (pid(pr.source), pid(pr.target)) if is_al and hasattr(pr, "source") else None
            obs_list.append(obs)
            toks.append("q %d %s" % (len(xs), common.fqs(np.asarray(obs["y"], dtype=float).ravel())))
            continue
        if k == "apply":
            try:
                t.apply(np.array(op[1], dtype=float))
            except Exception as e:      # noqa: BLE001 - apply of a family member is total on affine members
                if cls != "Homogeneous":
                    ctx.fail("C04/hom.pinv/raises", type(e).__name__, "apply raised %s on a %s (between two "
                             "pseudoinverse() queries)" % (type(e).__name__, cls), rp)
                    return True
            continue
        before = pid(t.target) if is_al else None
        try:
            m = run_mutator(t, op)
        except Exception as e:      # noqa: BLE001 - the mutators are the subject of C03 / C05 / C08
            ctx.count("ops:mutator-raised:%s:%s" % (k, type(e).__name__))
            return False
        if isinstance(m, str) and m == "refused":
            kinds.append("set_h_matrix(refused)")       # the model does nothing: the object must be unchanged
            continue
        kinds.append(k)
        h = np.array(t.h_matrix, dtype=float)
        if not np.all(np.isfinite(h)):
            return False
        tid = "-"
        if is_al:
            now = pid(t.target)
            tid = str(now) if (now != before or k == "set_target") else "-"
        if k == "set_target":
            toks.append("st %s %s" % (tid, common.fqs(h.ravel())))
        elif k in ("from_vector", "set_rotation_matrix", "set_h_matrix"):
            toks.append("ss %s %s" % (tid, common.fqs(h.ravel())))
        elif k == "compose_before":
            toks.append("cb %s %s" % (tid, common.fqs(m.ravel())))
        else:
            toks.append("ca %s %s" % (tid, common.fqs(m.ravel())))
    ctx.count("class:%s/%dD" % (cls, d))
    ctx.count("ops:hom:queries", len(obs_list))
    for k in kinds:
        ctx.count("ops:hom:" + k)
    lines.append("%s %d %s" % (head, len(toks), " ".join(toks)))
    pend[cid] = ("homops", {"q": obs_list, "rp": rp, "scale": max(o["scale"] for o in obs_list)})
    return True


def gen_pwaops(rng):
    """a live piecewise affine warp: queries interleaved with set_target (targets of every shape class) and apply"""
    init = gen_pwa(rng, history=False)
    nx, ny = init["grid"]
    src, tris, alt = init["src"], init["trilist"], init["alt"]
    cur = init["tgt"]
    ops = []

    prev = []

    def query():
        for _ in range(50):
            # half of the later queries probe the very points of the first one again: the caching warp class then
            # answers apply() from its memo although the target has changed in between
            xs = prev[0] if prev and rng.random() < 0.5 else pwa_interior(rng, src, tris, 3)
            y2 = pwa_interior(rng, cur, tris, 3)
            if probes_unambiguous(src, cur, tris, xs, True) and probes_unambiguous(src, cur, tris, y2, False):
                prev.append(xs)
                return ["q", xs, y2]
        return None

    if rng.random() < 0.8:
        ops.append(query())
    for _ in range(rng.randint(1, 3)):
        while True:
            tgt = pwa_target(rng, nx, ny, src, tris)
            if tgt is not None:
                break
        cur = tgt
        ops.append(["set_target", tgt, pwa_target_spec(rng, rng.choice(PWA_TGT_KINDS), len(src), tris, alt)])
        u = rng.random()
        if u < 0.5:
            ops.append(query())
        elif u < 0.7:
            ops.append(["apply", pwa_interior(rng, src, tris, 2)])
    if ops[-1] is None or ops[-1][0] != "q":
        ops.append(query())
    if any(o is None for o in ops):
        return gen_pwaops(rng)
    return {"kind": "pwaops", "cls": init["cls"], "init": init, "ops": ops}


def case_pwaops(ctx, r, lines, pend, cid):
    rp = {"recipe": r, "python": ops_snippet(r)}
    ctx.count("class:%s" % r["cls"])
    try:
        t = _build_fresh(r["init"])
        sp0, tp0, tl0 = t.source.points.copy(), t.target.points.copy(), np.array(t.trilist).copy()
    except Exception as e:
        ctx.fail("C04/pwa.pinv/raises", type(e).__name__, "PWA construction raised %s" % type(e).__name__, rp)
        return True
    toks, obs_list = [], []
    for op in r["ops"]:
        if op[0] == "q":
            xs, y2 = np.array(op[1], dtype=float), np.array(op[2], dtype=float)
            obs = oracle_pwa(ctx, t, xs, y2, dict(rp, query_index=len(obs_list)))
            if obs.get("raised"):
                return True
            obs_list.append(obs)
            toks.append("q %d %s" % (len(xs) + len(y2), flat(np.vstack([obs["y"], y2]))))
        elif op[0] == "apply":
            try:
                t.apply(np.array(op[1], dtype=float))
            except Exception as e:      # interior points of a non-degenerate source mesh: apply has to succeed
                ctx.fail("C04/pwa.pinv/raises", type(e).__name__, "PWA apply raised %s on interior points of a "
                         "non-degenerate mesh (between two pseudoinverse() queries)" % type(e).__name__, rp)
                return True
        else:
            try:
                t.set_target(make_shape(op[2], op[1]))
            except Exception as e:
                ctx.fail("C04/pwa.set_target/raises", type(e).__name__, "PWA.set_target raised %s for a %s target" % (
                    type(e).__name__, (op[2] or {}).get("cls")), rp)
                return True
            ctx.count("ops:pwa:set_target:%s" % (op[2] or {}).get("cls"))
            toks.append("st %s" % flat(t.target.points))
    ctx.count("ops:pwa:queries", len(obs_list))
    lines.append("%s pwaops %d %s %s %d %s %d %s" % (cid, len(sp0), flat(sp0), flat(tp0), len(tl0),
                                                    " ".join(str(int(v)) for v in tl0.ravel()), len(toks), " ".join(toks)))
    pend[cid] = ("pwaops", {"q": obs_list, "rp": rp, "scale": max(o["scale"] for o in obs_list)})
    return True


def gen_tpsops(rng):
    """a live spline: queries interleaved with set_target"""
    init = gen_tps(rng, history=False)
    src = init["src"]
    ops = []

    def query():
        return ["q", [[rng.randint(-16, 16) / 4.0, rng.randint(-16, 16) / 4.0] for _ in range(2)]]

    if rng.random() < 0.8:
        ops.append(query())
    for _ in range(rng.randint(1, 2)):
        while True:
            tgt = tps_target(rng, src)
            if tgt is not None:
                break
        ops.append(["set_target", tgt, gen_shape_spec(rng, len(src), 2)])
        if rng.random() < 0.5:
            ops.append(query())
    if ops[-1][0] != "q":
        ops.append(query())
    return {"kind": "tpsops", "init": init, "ops": ops}


def case_tpsops(ctx, r, lines, pend, cid):
    rp = {"recipe": r, "python": ops_snippet(r)}
    init = r["init"]
    ctx.count("class:ThinPlateSplines/%s" % (init["kernel"] or "default"))
    try:
        t = _build_fresh(init)
        sp0, tp0 = t.source.points.copy(), t.target.points.copy()
        kcls = type(t.kernel)
    except Exception as e:
        ctx.fail("C04/tps/raises", type(e).__name__, "ThinPlateSplines construction raised %s" % type(e).__name__, rp)
        return True
    toks, obs_list = [], []
    allp, ctrs = [list(map(float, p)) for p in sp0.tolist()], []
    for op in r["ops"]:
        if op[0] == "q":
            pts = np.array(op[1], dtype=float)
            obs = oracle_tps(ctx, t, pts, dict(rp, query_index=len(obs_list)))
            if obs.get("raised"):
                return True
            obs_list.append(obs)
            ev = np.vstack([obs["tp"], pts])
            allp += ev.tolist()
            ctrs += obs["tp"].tolist()
            toks.append("q %d %s" % (len(ev), flat(ev)))
        else:
            try:
                t.set_target(make_shape(op[2], op[1]))
            except Exception as e:
                ctx.fail("C04/tps.set_target/raises", type(e).__name__, "TPS.set_target raised %s for a %s target" % (
                    type(e).__name__, (op[2] or {}).get("cls")), rp)
                return True
            ctx.count("ops:tps:set_target:%s" % (op[2] or {}).get("cls"))
            toks.append("st %s" % flat(t.target.points))
    ctx.count("ops:tps:queries", len(obs_list))
    tab = kernel_table(kcls, allp, ctrs)
    tabs = " ".join("%s %s" % (common.fq(q), common.fq(v)) for q, v in tab.items())
    lines.append("%s tpsops %d %s %s %d %s %d %s" % (cid, len(sp0), flat(sp0), flat(tp0), len(tab), tabs,
                                                    len(toks), " ".join(toks)))
    pend[cid] = ("tpsops", {"q": obs_list, "rp": rp, "scale": max(o["scale"] for o in obs_list)})
    return True


# ----------------------------------------------------------------------------- model comparison

def parse_groups(reply):
    """`ok a b | c d none | …` -> list of token lists"""
    body = reply[3:] if reply.startswith("ok ") else reply[2:]
    return [g.split() for g in body.split("|")]


def nums(tokens, width):
    """tokens of points (`none` for an undefined point) -> array with nan rows"""
    out, i = [], 0
    while i < len(tokens):
        if tokens[i] == "none":
            out.append([float("nan")] * width)
            i += 1
        else:
            out.append([float(Fraction(x)) for x in tokens[i:i + width]])
            i += width
    return np.array(out, dtype=float).reshape(-1, width)


def compare(ctx, pend, model):
    for cid, (kind, o) in pend.items():
        rp, sc = o["rp"], o["scale"]
        if kind == "hom":
            rep = model[cid]
            d = rp["recipe"]["d"]
            if not rep.startswith("ok"):
                ctx.mismatch("hom", "model says %r, implementation inverted the matrix" % rep, rp)
                continue
            g = parse_groups(rep)
            tl_ = o.get("tol")
            mh = np.array([float(Fraction(x)) for x in g[0]]).reshape(d + 1, d + 1)
            if o.get("nrm"):          # projective matrix with a huge / tiny overall factor: compare normalised
                mh, o["ph"] = mh * o["nrm"], o["ph"] * o["nrm"]
            if not near(mh, o["ph"], max(sc, amax(mh)), tl_):
                ctx.mismatch("hom.h_matrix", "model inverse %r vs implementation %r" % (mh.tolist(), o["ph"].tolist()), rp)
            elif rp["recipe"].get("extreme") and rp["recipe"]["cls"].replace("Alignment", "") in (
                    "UniformScale", "NonUniformScale") and not bool(np.all(np.abs(mh - o["ph"]) <= 1e-9 * np.abs(mh))):
                ctx.mismatch("hom.h_matrix", "model inverse %r vs implementation %r (entry by entry, relative)" % (
                    mh.tolist(), o["ph"].tolist()), rp)
            if o["cls"] != rp["recipe"]["cls"]:
                # the text asks for "an honest member of a homogeneous-family class" (judged by the oracle), not for the same one
                ctx.count("hom.class: inverse of %s is a %s (the model keeps the class)" % (rp["recipe"]["cls"], o["cls"]))
            if not near(nums(g[1], d), o["y"], sc, tl_):
                ctx.mismatch("hom.apply", "model t.apply %r vs implementation %r" % (nums(g[1], d).tolist(), o["y"].tolist()), rp)
            if not near(nums(g[2], d), o["back"], sc, tl_):
                ctx.mismatch("hom.pinv.apply", "model pinv.apply %r vs implementation %r" % (
                    nums(g[2], d).tolist(), o["back"].tolist()), rp)
        elif kind == "tcoords":
            rep = model[cid]
            if not rep.startswith("ok"):
                ctx.mismatch("tcoords", "model says %r" % rep, rp)
                continue
            g = parse_groups(rep)
            mt = np.array([float(Fraction(x)) for x in g[0]]).reshape(3, 3)
            mb = np.array([float(Fraction(x)) for x in g[1]]).reshape(3, 3)
            if not (near(mt, o["th"], sc) and near(mb, o["bh"], sc)):
                ctx.mismatch("tcoords.h_matrix", "model %r / %r vs implementation %r / %r" % (
                    mt.tolist(), mb.tolist(), o["th"].tolist(), o["bh"].tolist()), rp)
            if not (near(nums(g[2], 2), o["y"], sc) and near(nums(g[3], 2), o["back"], sc)):
                ctx.mismatch("tcoords.apply", "model images differ from the implementation's", rp)
        elif kind == "pwa":
            rep = model[cid]
            g = parse_groups(rep)
            ib = np.vstack([o["back"], o["x3"]])
            ctx.count("pwa:certified-triangulation:%s" % (g[2][0] if len(g) > 2 and g[2] else "?"))
            if not (near(nums(g[0], 2), o["y"], sc) and near(nums(g[1], 2), ib, sc)):
                ctx.mismatch("pwa.apply", "model %r / %r vs implementation %r / %r" % (
                    nums(g[0], 2).tolist(), nums(g[1], 2).tolist(), o["y"].tolist(), ib.tolist()), rp)
        elif kind == "pwax":
            rep = model[cid]
            g = rep[3:].split("|") if rep.startswith("ok") else []
            if len(g) != 4:
                ctx.mismatch("pwax", "model answered %r" % rep[:200], rp)
                continue
            toks = g[0].split()
            rows, i = [], 0
            while i < len(toks):
                if toks[i] == "none":
                    rows.append(None)
                    i += 1
                else:
                    rows.append((int(toks[i]), Fraction(toks[i + 1]), Fraction(toks[i + 2])))
                    i += 3
            n_in = o["n_in"]
            m_mask = [x is None for x in rows]
            i_mask = [False] * len(rows) if o["mask"] is None else [bool(v) for v in o["mask"]]
            if m_mask != i_mask:
                ctx.mismatch("pwax.domain", "model containment-error mask %r vs implementation %r" % (m_mask, i_mask), rp)
                continue
            def idx_ok(k):
                # a point in ONE triangle: index, alpha, beta as the model; on a shared edge / vertex: ANY containing
                # triangle (which one numpy's `index[point_index] = tri_index` keeps for repeated indices is the last
                # write - a library behaviour the property does not rely on), alpha and beta those of the triangle reported
                i_ = int(o["idx"][k])
                hs = o["holders"][k]
                if len(hs) == 1:
                    return rows[k] is not None and rows[k][0] == i_ and float(rows[k][1]) == float(o["al"][k]) \
                        and float(rows[k][2]) == float(o["be"][k])
                if i_ not in hs:
                    return False
                ctx.count("pwax:probe on a shared edge/vertex: reported triangle %s the model's" % (
                    "is" if rows[k] is not None and rows[k][0] == i_ else "is not"))
                al_, be_ = bary(o["src"], o["tris"][i_], o["xs"][k])
                return float(al_) == float(o["al"][k]) and float(be_) == float(o["be"][k])
            ok_idx = all(idx_ok(k) for k in range(n_in))
            if not ok_idx:
                ctx.mismatch("pwax.index_alpha_beta", "model (index, alpha, beta) %r vs implementation %r" % (
                    [None if x is None else (x[0], float(x[1]), float(x[2])) for x in rows[:n_in]],
                    list(zip(o["idx"].tolist(), o["al"].tolist(), o["be"].tolist()))), rp)
            ma, mb = nums(g[1].split(), 2)[:n_in], nums(g[2].split(), 2)[:n_in]
            if not (np.array_equal(ma, o["y"]) and np.array_equal(mb, o["back"])):
                ctx.mismatch("pwax.apply", "model images / round trip %r / %r vs implementation %r / %r (exact comparison)" % (
                    ma.tolist(), mb.tolist(), o["y"].tolist(), o["back"].tolist()), rp)
            ctx.count("pwa:certified-triangulation:%s" % g[3].strip())
            if g[3].strip() != "1":
                ctx.mismatch("pwax.certificate", "the lattice mesh (a triangulation by construction) is not certified "
                             "by the model's executable check", rp)
        elif kind == "homops":
            rep = model[cid]
            d = rp["recipe"]["d"]
            g = parse_groups(rep) if rep.startswith("ok") else []
            if len(g) != 4 * len(o["q"]):
                ctx.mismatch("ops.hom", "model answered %r for %d queries" % (rep[:200], len(o["q"])), rp)
                continue
            for qi, q in enumerate(o["q"]):
                cur, ph, ends, ap = g[4 * qi:4 * qi + 4]
                where = "query %d of the operation list" % qi
                mc = np.array([float(Fraction(x)) for x in cur]).reshape(d + 1, d + 1)
                if not near(mc, q["h"], max(q["scale"], amax(mc)), q.get("tol")):
                    ctx.mismatch("ops.hom.state", "%s: model state %r vs implementation h_matrix %r" % (
                        where, mc.tolist(), q["h"].tolist()), rp)
                    break
                if ph == ["singular"]:
                    ctx.mismatch("ops.hom.pinv", "%s: model says singular, implementation inverted" % where, rp)
                    break
                mh = np.array([float(Fraction(x)) for x in ph]).reshape(d + 1, d + 1)
                if not near(mh, q["ph"], max(q["scale"], amax(mh)), q.get("tol")):
                    ctx.mismatch("ops.hom.pinv.h_matrix", "%s: model inverse of the current state %r vs implementation %r" % (
                        where, mh.tolist(), q["ph"].tolist()), rp)
                    break
                if q["cls"] != rp["recipe"]["cls"]:
                    ctx.count("hom.class: inverse of %s is a %s (the model keeps the class)" % (rp["recipe"]["cls"], q["cls"]))
                me = None if ends == ["-"] else (int(ends[0]), int(ends[1]))
                if me != q["ends"]:
                    ctx.mismatch("ops.hom.pinv.ends", "%s: model end points (ids) %r vs implementation %r" % (
                        where, me, q["ends"]), rp)
                    break
                if not near(nums(ap, d), q["back"], q["scale"], q.get("tol")):
                    ctx.mismatch("ops.hom.pinv.apply", "%s: model pinv.apply %r vs implementation %r" % (
                        where, nums(ap, d).tolist(), q["back"].tolist()), rp)
                    break
        elif kind == "pwaops":
            rep = model[cid]
            g = parse_groups(rep) if rep.startswith("ok") else []
            if len(g) != 2 * len(o["q"]):
                ctx.mismatch("ops.pwa", "model answered %r for %d queries" % (rep[:200], len(o["q"])), rp)
                continue
            for qi, q in enumerate(o["q"]):
                ib = np.vstack([q["back"], q["x3"]])
                ctx.count("pwa:certified-triangulation:%s" % (g[2 * qi + 1][0] if g[2 * qi + 1] else "?"))
                if not near(nums(g[2 * qi], 2), ib, q["scale"]):
                    ctx.mismatch("ops.pwa.pinv.apply", "query %d: model pinv.apply %r vs implementation %r" % (
                        qi, nums(g[2 * qi], 2).tolist(), ib.tolist()), rp)
                    break
        elif kind == "tpsops":
            rep = model[cid]
            g = parse_groups(rep) if rep.startswith("ok") else []
            if len(g) != len(o["q"]):
                ctx.mismatch("ops.tps", "model answered %r for %d queries" % (rep[:200], len(o["q"])), rp)
                continue
            for qi, q in enumerate(o["q"]):
                tol_sc = max(q["scale"], amax(q["pinv"]))
                if g[qi] == ["singular"] or not near(nums(g[qi], 2), q["pinv"], tol_sc):
                    if q["oracle_ok"]:
                        ctx.mismatch("ops.tps.pinv", "query %d: model reverse fit of the current state %r vs implementation %r" % (
                            qi, " ".join(g[qi])[:300], q["pinv"].tolist()), rp)
                    break
        elif kind == "tps":
            reps = {m: model["%s.%s" % (cid, m)] for m in ("fit", "pinvFixed", "pinvCoded")}
            tol_sc = max(sc, amax(o["pinv"]), amax(o["fit"]))

            def agrees(mode, arr):
                return reps[mode].startswith("ok") and near(nums(parse_groups(reps[mode])[0], 2), arr, tol_sc)
            if not agrees("fit", o["fit"]):
                ctx.mismatch("tps.apply", "model spline %r vs implementation %r" % (reps["fit"][:300], o["fit"].tolist()), rp)
            if agrees("pinvFixed", o["pinv"]):
                ctx.count("tps.pinv follows: reverse-fit model")
            elif agrees("pinvCoded", o["pinv"]):
                ctx.count("tps.pinv follows: kernel-reuse model (defect, refuted in Lean)")
                if o["oracle_ok"]:     # cannot happen for non-affine data; kept so that a broken tie is never silent
                    ctx.mismatch("tps.pinv", "implementation follows the kernel-reuse model yet passes the oracle", rp)
            else:
                ctx.count("tps.pinv follows: neither model")
                if o["oracle_ok"]:
                    ctx.mismatch("tps.pinv", "model reverse fit %r vs implementation %r" % (
                        reps["pinvFixed"][:300], o["pinv"].tolist()), rp)


# ----------------------------------------------------------------------------- run / search / replay

CASE_FN = {"hom": case_hom, "tcoords": case_tcoords, "pwa": case_pwa, "tps": case_tps,
           "homops": case_homops, "pwaops": case_pwaops, "tpsops": case_tpsops, "pwax": case_pwax}


def nontrivial(r):
    if r["kind"] == "hom":
        c = r["cls"]
        if c == "Translation":
            return any(v != 0 for v in r["t"])
        if c == "UniformScale":
            return r["s"] != 1
        return True
    return True


def sig(r):
    return json.dumps(r, sort_keys=True, default=str)


def gen_case(rng, kind, k):
    if kind == "hom":
        # cycle deterministically through class × dimension so every run covers all 24 combinations
        if (k // 24) % 3 == 1 and FAMILY[k % 12] in DTYPE_CLASSES:
            # every third round: integer-dtype / single-precision parameters with a fractional inverse
            return gen_hom_dtype(rng, FAMILY[k % 12], 2 + (k // 12) % 2, DTYPE_FORMS[(k // 72) % 3])
        if (k // 24) % 3 == 2:        # every third round through class × dimension: parameters at a tolerance's edge
            return gen_hom_extreme(rng, FAMILY[k % 12], 2 + (k // 12) % 2, EXTREMES[(k // 72) % 3])
        return gen_hom(rng, FAMILY[k % 12], 2 + (k // 12) % 2)
    if kind == "homops":
        return gen_homops(rng, FAMILY[k % 12], 2 + (k // 12) % 2)
    return {"tcoords": gen_tcoords, "pwa": gen_pwa, "tps": gen_tps, "pwaops": gen_pwaops, "tpsops": gen_tpsops,
            "pwax": gen_pwax}[kind](rng)


def _classes_named(names):
    """the classes whose objects run the translated definitions / obligations called `names`"""
    out = []

    def add(c):
        if c not in out:
            out.append(c)
    al = [c for c in FAMILY if c.startswith("Alignment")]
    for n in names:
        if "ThinPlateSplines" in n or "tps" in n:
            add("ThinPlateSplines")
        elif "AbstractPWA" in n or "pwa" in n or "alpha_beta" in n or "barycentric" in n or "rebuild" in n or "piece" in n:
            add("AbstractPWA")
        elif "tcoords" in n or "Homogeneous_default" in n:
            add("tcoords")
        elif "HomogFamilyAlignment" in n or "copy" in n:
            for c in al:
                add(c)
        else:
            hit = [c for c in FAMILY if not c.startswith("Alignment") and ("_%s_" % c in n or n.endswith("_" + c + "_T_eq")
                                                                          or "ctor_%s" % c in n)]
            if "NonUniformScale" in n:
                hit = ["NonUniformScale"]
            for c in hit or FAMILY:      # a shared piece (the method table, Homogeneous.*, srcPinv): every class
                add(c)
    return out


def search(ctx):
    """directed search after a broken tie: oracle only, many more cases of every family, until a failure shows"""
    rng = ctx.rng
    dummy_lines, dummy_pend = [], {}
    plan = [("hom", 1200), ("homops", 480), ("pwa", 150), ("pwaops", 60), ("pwax", 80), ("tps", 80), ("tpsops", 40), ("tcoords", 60)]
    # neighbours of the mismatching cases first: same class / kind, fresh parameters
    first = []
    for op, _, rp in ctx.mismatches[:20]:
        rec = (rp or {}).get("recipe") or {}
        if rec.get("kind") in ("hom", "homops"):
            first += [("hom1", rec["cls"], rec["d"])] * 20 + [("homops1", rec["cls"], rec["d"])] * 20
        elif rec.get("kind"):
            first += [(rec["kind"],)] * 20
    # a broken write-table obligation names the classes whose pseudoinverse() now keeps state on the instance: histories of
    # exactly those classes first (query, mutate, query is where a memo shows)
    for bo in ctx.broken_obligations[:3]:
        for c in sorted((bo.get("observed_attribute_writes_of_pseudoinverse") or {})):
            if c in FAMILY:
                first += [("homops1", c, 2)] * 15 + [("homops1", c, 3)] * 15
            elif c == "ThinPlateSplines":
                first += [("tpsops",)] * 20
            elif c in ("PythonPWA", "CachedPWA"):
                first += [("pwaops",)] * 20
    # a broken obligation of the TRANSLATED code names the functions whose source no longer says what the model says:
    # the classes that run them first (ordinary members, members at a tolerance's edge, histories), then the usual plan
    for bo in ctx.broken_obligations[:3]:
        names = [u.split(":")[0] for u in (bo.get("untranslatable") or [])] + list(bo.get("failed_theorems") or [])
        for c in _classes_named(names):
            if c in FAMILY:
                for d_ in (2, 3):
                    first += [("homx", c, d_, k_) for k_ in EXTREMES for _ in range(4)]
                    first += [("hom1", c, d_)] * 10 + [("homops1", c, d_)] * 6
            elif c == "ThinPlateSplines":
                first += [("tps",)] * 25 + [("tpsops",)] * 10
            elif c == "AbstractPWA":
                first += [("pwa",)] * 40 + [("pwax",)] * 20 + [("pwaops",)] * 10
            elif c == "tcoords":
                first += [("tcoords",)] * 30
    for item in first:
        if item[0] == "homx":
            r = gen_hom_extreme(rng, item[1], item[2], item[3])
        else:
            r = gen_hom(rng, item[1], item[2]) if item[0] == "hom1" else (
                gen_homops(rng, item[1], item[2]) if item[0] == "homops1" else gen_case(rng, item[0], 0))
        CASE_FN[r["kind"]](ctx, r, dummy_lines, dummy_pend, "s")
        ctx.searched += 1
        if ctx.failures:
            return True
    for kind, n in plan:
        for k in range(n):
            r = gen_case(rng, kind, k)
            CASE_FN[kind](ctx, r, dummy_lines, dummy_pend, "s")
            ctx.searched += 1
            if ctx.failures:
                return True
    return False


def generated(ctx):
    """regenerate the dispatch / write tables from the live classes and re-check the obligations over them; then
    TRANSLATE the pseudoinverse code from the source text of the working tree and re-check that every translated
    definition is the model's (GenProps/C04Src.lean)"""
    from . import extract_c04 as ex
    text, rows, writes, fam = ex.generate()
    ctx.notes["pseudoinverse_dispatch"] = {r[0]: list(r[1:]) for r in rows}
    ctx.notes["pseudoinverse_write_table"] = writes
    ok = common.build_generated(ctx, {ex.GEN_REL: text}, ex.GEN_TARGETS, ex.N_OBLIGATIONS)
    if not ok and ctx.broken_obligations:
        bo = ctx.broken_obligations[-1]
        bo["obligation"] = "MenpoModel.GenProps.C04 (dispatch_ok / family_ok / invertible_ok / pinvWrites_ok / no_writes_live)"
        bo["observed_attribute_writes_of_pseudoinverse"] = {c: a for c, a in writes.items() if a}
        bo["observed_dispatch"] = {r[0]: list(r[1:]) for r in rows}
        bo["observed_family"] = fam
        bo["expected"] = "pseudoinverse() writes no instance attribute on any class; suppliers as in Core/C04Homog.implOf"
    generated_src(ctx)


def generated_src(ctx):
    """the translator tie: source text -> Generated/C04Src.lean, obligations GenProps/C04Src.lean"""
    from . import trans_c04 as tr
    files, failed, tab = tr.generated_files()
    n_obl = tr.n_obligations()
    ctx.notes["src_translation"] = {
        "translator": "harness/trans_c04.py on harness/py2lean2.py", "generated": tr.GEN_REL,
        "obligations": n_obl, "untranslatable": failed,
        "functions": "Homogeneous.pseudoinverse/_h_matrix_pseudoinverse/has_true_inverse/__init__/_set_h_matrix/n_dims/"
                     "h_matrix/_apply, Affine.__init__/_set_h_matrix/h_matrix/linear_component/translation_component, "
                     "Similarity.__init__, Translation/UniformScale/NonUniformScale/Rotation .__init__ and .pseudoinverse, "
                     "UniformScale.scale, NonUniformScale.scale, Rotation.rotation_matrix/set_rotation_matrix, "
                     "HomogFamilyAlignment.copy/pseudoinverse, VInvertible.pseudoinverse_vector, "
                     "ThinPlateSplines.__init__/pseudoinverse/has_true_inverse, AbstractPWA.__init__/pseudoinverse/"
                     "has_true_inverse/_apply/_rebuild_target_vectors, alpha_beta, barycentric_vectors, "
                     "tcoords_to_image_coords, image_coords_to_tcoords; method table 12 classes x 14 methods"}
    ok = common.build_generated(ctx, files, tr.GEN_TARGETS, n_obl)
    if not ok and ctx.broken_obligations:
        bo = ctx.broken_obligations[-1]
        bo["obligation"] = "MenpoModel.GenProps.C04Src (the pseudoinverse code translated from source = the model)"
        bo["untranslatable"] = failed
        bo["failed_theorems"] = _failed_theorems(bo.get("errors", []))
        bo["method_table"] = {c: {m: s for m, s in row.items() if m in ("pseudoinverse", "_h_matrix_pseudoinverse",
                                                                      "has_true_inverse", "__init__", "copy")}
                              for c, row in tab.items()}
        bo["expected"] = ("every translated definition equals the Core definition of the same name "
                          "(GenProps/C04Src.lean); a stub marks a function whose source has left the vocabulary")
    return ok


def _failed_theorems(err_lines):
    """names of the theorems of GenProps/C04Src.lean on whose lines lake reported errors"""
    import os
    import re
    path = os.path.join(common.LEAN, "MenpoModel", "GenProps", "C04Src.lean")
    try:
        src = open(path).read().splitlines()
    except OSError:
        return []
    starts = [(i + 1, l.split()[1] if l.startswith("theorem ") else "(executed example)") for i, l in enumerate(src)
              if l.startswith("theorem ") or l.startswith("example")]
    out = []
    for e in err_lines:
        m = re.search(r"C04Src\.lean:(\d+):", e)
        if not m or "GenProps" not in e:
            continue
        ln = int(m.group(1))
        name = None
        for st, nm in starts:
            if st <= ln:
                name = nm
        if name and name not in out:
            out.append(name)
    return out


def run(ctx):
    generated(ctx)
    if ctx.broken_obligations:
        # what the model assumes of the live classes (who supplies pseudoinverse, that it keeps no state on the
        # instance) no longer holds: audit what still builds, then let the oracle search for a history that shows it
        common.prepare_lean(ctx, PROP, IMPORTS[:1], [t for t in THEOREMS if t not in GEN_THEOREMS])
    else:
        common.prepare_lean(ctx, PROP, IMPORTS, THEOREMS,
                            targets=["MenpoModel.Props.C04", "MenpoModel.Drive.C04", "MenpoModel.GenProps.C04"])
    ctx.trusted += ["np.linalg.inv contract A·B = 1 (round trips re-check it on every case)",
                    "np.linalg.svd contract U·diag(s)·Vh = L, orthonormal factors, sorted s (re-checked on every generated "
                    "spline system; the coded solve is derived from it: truncSVD_kept / truncSVD_full)",
                    "radial function values taken from menpo.transform.rbf (theorems hold for every radial function)",
                    "scipy.spatial.Delaunay for PWA sources that are not meshes (the model receives the trilist the object holds)",
                    "harness/extract_c04.py: MRO walk and attribute-write measurement on live objects"]
    rng = ctx.rng
    plan = [("hom", ctx.n(720, 4800)), ("tcoords", ctx.n(24, 200)), ("pwa", ctx.n(120, 800)), ("tps", ctx.n(60, 400)),
            ("homops", ctx.n(240, 1680)), ("pwaops", ctx.n(40, 280)), ("tpsops", ctx.n(24, 160)),
            ("pwax", ctx.n(40, 280))]
    lines, pend = [], {}
    n = 0
    for kind, cnt in plan:
        done = rejected = 0
        while done < cnt:
            r = gen_case(rng, kind, done)
            cid = "%s%d" % (kind[0], n)
            if not CASE_FN[kind](ctx, r, lines, pend, cid):
                ctx.count("rejected:outside-domain")
                rejected += 1
                if rejected > 50 * cnt:
                    raise common.Infra("C04 generator rejects nearly everything (%s)" % kind)
                continue
            n += 1
            done += 1
            small = {kk: r[kk] for kk in r if kk in ("kind", "cls", "d", "shape", "kernel")}
            if "ops" in r:
                small["ops"] = [o[0] for o in r["ops"]]
            ctx.case(sig(r), nontrivial=nontrivial(r), sample=small if done == 1 else None)
    import time
    t0 = time.time()
    model = common.run_driver(PROP, lines)
    ctx.notes["driver_seconds"] = round(time.time() - t0, 1)
    ctx.notes["driver_lines"] = len(lines)
    compare(ctx, pend, model)
    return ctx.finish(search)


def replay(ctx, path):
    data = json.load(open(path))
    rp = data.get("replay") or (data.get("broken_correspondence") or [{}])[0].get("case", {})
    r = (rp or {}).get("recipe")
    if r is None:
        print("replay file carries no recipe")
        return 2
    lines, pend = [], {}
    ok = CASE_FN[r["kind"]](ctx, r, lines, pend, "r0")
    ctx.case(sig(r))
    ctx.case("replay-second-evaluation:" + sig(r))
    if not ok:
        print("recipe is outside the property's domain (ill conditioned)")
    if lines:
        model = common.run_driver(PROP, lines)
        for l in lines:
            i = l.split(" ", 1)[0]
            print("model %s: %s" % (i, model[i][:400]))
        compare(ctx, pend, model)
    for k, (kind, o) in pend.items():
        for key in o:
            if key not in ("rp",):
                print("implementation %s.%s: %s" % (k, key, np.asarray(o[key]).tolist() if hasattr(o[key], "shape") else o[key]))
    return ctx.finish(None)
