"""C04 — pseudoinverse really inverts; alignment inverses swap source and target (DESIGN.md section 6, C04).

Three parties per generated case: the real menpo transform and its `pseudoinverse()`; the property oracle
(round trips from both sides, honesty of the inverse object, exchanged end points, reverse-fit equality and exact
landmark return for the interpolating warps — all evaluated on the real objects, independent of the Lean model);
the Lean model (`Core/C04Homog.lean`, `Core/C04Warp.lean`) fed with the same inputs as exact rationals.
"""
import json
from fractions import Fraction

import numpy as np

from . import common

PROP = "C04"
INFO = dict(
    technique="Lean 4 proof (exact matrix inverse in every dimension tied to Mathlib's nonsingular inverse; class "
              "invariants of all 12 family classes preserved by the coded closed forms; barycentric round trip for "
              "piecewise affine maps; interpolation of the thin-plate system) + model/implementation correspondence "
              "on generated transforms + independent round-trip oracle on the real objects",
    level_text="Theorems over an executable model of pseudoinverse(): for every homogeneous-family class (closed "
               "forms of Translation/UniformScale/NonUniformScale/Rotation, matrix inverse for the others, "
               "HomogFamilyAlignment for the alignments) and every dimension the result has the same class, carries "
               "exactly the inverse matrix, is an honest member of the class, has source and target exchanged and "
               "undoes apply from both sides on every point of the domain; the piecewise-affine inverse (same "
               "trilist on the target points) undoes apply on the whole source and target domain of any "
               "non-degenerate consistent mesh and returns every landmark; a thin-plate spline whose kernel is "
               "centred on its source points interpolates, so the reverse fit returns every landmark, for any "
               "radial function; the inverse as coded before the fix (kernel re-used) is refuted by a witness.  "
               "The model is tied to /repo by running the real classes on generated members of every class, "
               "2-D and 3-D, and diffing inverse matrices, class names, forward and backward images against the "
               "Lean driver; the oracle decides the property on the real objects.",
    level_note="Trusted: Lean kernel; axioms propext/Classical.choice/Quot.sound; the Python harness and the driver's "
               "parser.  Library contracts (validated numerically on every case by the oracle's round trips): "
               "np.linalg.inv returns B with A·B = 1 (then B is the model's inverse: inv_contract_unique); the "
               "truncated-SVD solve of the spline system returns (L^-1)^T·Y when every singular value exceeds the "
               "floor (modelled by a checked exact solve); the radial function values r^2 log r are taken from the "
               "real kernel classes (the theorems hold for every radial function).  Float rounding is not modelled "
               "(exact rationals vs float64 compared to 1e-9 relative).",
    rule="one case = one transform object (class, dimension, parameters / landmark sets) with its probe points; "
         "distinct = distinct (class, parameters, points); non-trivial = not the identity map",
    partial=["PWA theorem assumes a mesh whose target triangles agree wherever they overlap (true of triangulations: "
             "pwa_edge_continuity proves agreement on a shared edge for the orientation-consistent vertex order; the "
             "general no-overlap geometry of a triangulation is a hypothesis, instantiated on an example mesh)",
             "points exactly on triangle edges are covered by the theorems only: the float implementation is "
             "exercised on strictly interior points and on the landmarks themselves (rounding may place an edge "
             "point outside every triangle)",
             "TPS: solvability of the linear system (general position) is a hypothesis; min_singular_val truncation "
             "(rank-deficient landmark sets) is outside the property's quantifier and not modelled"],
    assumptions=["inputs are in general position with bounded condition number, as the property's quantifier states "
                 "(generator enforces it with exact arithmetic on the inputs)"],
    design_ref="DESIGN.md section 6, C04; section 7 item 1")
IMPORTS = ["MenpoModel.Props.C04"]
THEOREMS = [
    "MenpoModel.C04.inv_two_sided",
    "MenpoModel.C04.inv_contract_unique",
    "MenpoModel.C04.applyH_left_inverse",
    "MenpoModel.C04.pinvH_sound",
    "MenpoModel.C04.pinv_sound",
    "MenpoModel.C04.affine_total",
    "MenpoModel.C04.rotation_inverse_orientation",
    "MenpoModel.C04.tcoords_roundtrip",
    "MenpoModel.C04.tcoords_formula",
    "MenpoModel.C04.pwa_pinv_left",
    "MenpoModel.C04.pwa_pinv_right",
    "MenpoModel.C04.mesh_pinv",
    "MenpoModel.C04.mesh_pinv_ends",
    "MenpoModel.C04.pwa_pinv_landmarks",
    "MenpoModel.C04.pwa_edge_continuity",
    "MenpoModel.C04.tps_interpolates",
    "MenpoModel.C04.tps_pinvFixed_reverse_fit",
    "MenpoModel.C04.tps_fit_interpolates",
    "MenpoModel.C04.tps_pinvCoded_refuted",
    "MenpoModel.C04.tps_pinvFixed_example",
]

FAMILY = ["Homogeneous", "Affine", "Similarity", "Rotation", "Translation", "UniformScale", "NonUniformScale",
          "AlignmentAffine", "AlignmentSimilarity", "AlignmentRotation", "AlignmentTranslation",
          "AlignmentUniformScale"]
TOL = 1e-9


# ----------------------------------------------------------------------------- exact helpers (generator side)

def F(x):
    return Fraction(x)


def fdet(m):
    """exact determinant of a list-of-lists of Fractions (fraction Gauss)"""
    m = [list(map(F, r)) for r in m]
    n = len(m)
    det = Fraction(1)
    for c in range(n):
        p = next((r for r in range(c, n) if m[r][c] != 0), None)
        if p is None:
            return Fraction(0)
        if p != c:
            m[c], m[p] = m[p], m[c]
            det = -det
        det *= m[c][c]
        for r in range(c + 1, n):
            f = m[r][c] / m[c][c]
            if f:
                m[r] = [a - f * b for a, b in zip(m[r], m[c])]
    return det


def finv(m):
    """exact inverse (Fractions) or None"""
    n = len(m)
    a = [list(map(F, r)) + [F(int(i == j)) for j in range(n)] for i, r in enumerate(m)]
    for c in range(n):
        p = next((r for r in range(c, n) if a[r][c] != 0), None)
        if p is None:
            return None
        a[c], a[p] = a[p], a[c]
        pv = a[c][c]
        a[c] = [v / pv for v in a[c]]
        for r in range(n):
            if r != c and a[r][c] != 0:
                f = a[r][c]
                a[r] = [v - f * w for v, w in zip(a[r], a[c])]
    return [row[n:] for row in a]


def cond_inf(m):
    """exact infinity-norm condition number of a square matrix of Fractions (None if singular)"""
    b = finv(m)
    if b is None:
        return None
    return max(sum(abs(v) for v in r) for r in m) * max(sum(abs(v) for v in r) for r in b)


def dy(rng, kmax=32, mexp=3, nonzero=False):
    return common.dyadic(rng, kmax, mexp, nonzero)


def int_matrix(rng, d, lo=-3, hi=3, detmin=1, detmax=12):
    while True:
        m = [[rng.randint(lo, hi) for _ in range(d)] for _ in range(d)]
        dt = abs(fdet(m))
        if detmin <= dt <= detmax:
            return m


def rat_rotation(rng, d):
    """exactly orthogonal rational rotation (as Fractions), det +1"""
    if d == 2:
        c, s = common.rat_circle(rng, 8)
        return [[c, -s], [s, c]]
    while True:
        q = [Fraction(rng.randint(-4, 4)) for _ in range(4)]
        n2 = sum(x * x for x in q)
        if n2 != 0:
            break
    w, x, y, z = q
    return [[(w * w + x * x - y * y - z * z) / n2, 2 * (x * y - z * w) / n2, 2 * (x * z + y * w) / n2],
            [2 * (x * y + z * w) / n2, (w * w - x * x + y * y - z * z) / n2, 2 * (y * z - x * w) / n2],
            [2 * (x * z - y * w) / n2, 2 * (y * z + x * w) / n2, (w * w - x * x - y * y + z * z) / n2]]


def fl(m):
    return [[float(v) for v in r] for r in m]


def gen_points(rng, d, k, kmax=40, mexp=2):
    return [[dy(rng, kmax, mexp) for _ in range(d)] for _ in range(k)]


def general_cloud(rng, d, n):
    """n small dyadic points whose homogeneous Gram matrix is well away from singular (exact test)"""
    while True:
        pts = gen_points(rng, d, n, 24, 2)
        a = [[F(v) for v in p] + [F(1)] for p in pts]
        g = [[sum(r[i] * r[j] for r in a) for j in range(d + 1)] for i in range(d + 1)]
        if abs(fdet(g)) >= 50:
            return pts


# ----------------------------------------------------------------------------- recipes -> real objects

def _decoy(a):
    """another non-degenerate point set of the same shape (used as the target of a previous life)"""
    a = np.array(a, dtype=float)
    d = a.shape[1]
    m = np.eye(d) * 1.5
    m[0, -1] = 0.5
    m[-1, 0] = -0.25
    return a.dot(m) + np.arange(d) * 0.75 + 1.0


def build(recipe):
    """rebuild the real transform from a JSON-able recipe (also used by replays).

    recipe["history"] == "pinv-then-update": the object has had a previous life - it was built on other parameters,
    its pseudoinverse() was taken, and only then was it brought to the recipe's parameters through a public mutator
    (set_target for alignments; set_h_matrix / from_vector_inplace otherwise).  Property C08/C05 make it
    indistinguishable from a fresh object, so every C04 clause must hold for it exactly as for a fresh one."""
    t = _build_fresh(recipe)
    if recipe.get("history") != "pinv-then-update":
        return t
    import warnings
    from menpo.shape import PointCloud
    from menpo.transform.base import Alignment
    if isinstance(t, Alignment):
        old = dict(recipe)
        old.pop("history")
        key = "target" if recipe["kind"] == "hom" else "tgt"
        old[key] = _decoy(recipe[key]).tolist()
        try:
            u = _build_fresh(old)
        except Exception:
            return t
        try:
            u.pseudoinverse()
        except Exception:
            pass
        u.set_target(PointCloud(np.array(recipe[key], dtype=float)))
        return u
    if recipe["kind"] != "hom":
        return t
    old = dict(recipe)
    old.pop("history")
    for k in ("h", "R", "t", "v"):
        if k in old:
            a = np.array(old[k], dtype=float)
            old[k] = (a.T if k == "R" else a * 2.0 + (0.0 if k in ("v",) else 0.0)).tolist()
    if "h" in old:
        a = np.array(recipe["h"], dtype=float)
        a[:-1, -1] += 1.0
        old["h"] = a.tolist()
    if "s" in old:
        old["s"] = float(old["s"]) * 2.0
    try:
        u = _build_fresh(old)
        u.pseudoinverse()
    except Exception:
        return t
    with warnings.catch_warnings():
        warnings.simplefilter("ignore")
        try:
            u.from_vector_inplace(t.as_vector())
            return u
        except Exception:
            pass
        try:
            if getattr(u, "h_matrix_is_mutable", False):
                u.set_h_matrix(np.array(t.h_matrix, dtype=float))
                return u
        except Exception:
            pass
    return t


def _build_fresh(recipe):
    import menpo.transform as T
    from menpo.shape import PointCloud, TriMesh
    k = recipe["kind"]
    if k == "hom":
        c = recipe["cls"]
        if c in ("Homogeneous", "Affine", "Similarity"):
            return getattr(T, c)(np.array(recipe["h"], dtype=float))
        if c == "Rotation":
            return T.Rotation(np.array(recipe["R"], dtype=float))
        if c == "Translation":
            return T.Translation(np.array(recipe["t"], dtype=float))
        if c == "UniformScale":
            return T.UniformScale(float(recipe["s"]), int(recipe["d"]))
        if c == "NonUniformScale":
            return T.NonUniformScale(np.array(recipe["v"], dtype=float))
        src = PointCloud(np.array(recipe["source"], dtype=float))
        tgt = PointCloud(np.array(recipe["target"], dtype=float))
        return getattr(T, c)(src, tgt, **recipe.get("kwargs", {}))
    if k == "pwa":
        from menpo.transform.piecewiseaffine.base import PythonPWA, CachedPWA
        cls = {"PythonPWA": PythonPWA, "CachedPWA": CachedPWA}[recipe["cls"]]
        src = TriMesh(np.array(recipe["src"], dtype=float), np.array(recipe["trilist"], dtype=np.int64))
        return cls(src, PointCloud(np.array(recipe["tgt"], dtype=float)))
    if k == "tps":
        src = PointCloud(np.array(recipe["src"], dtype=float))
        tgt = PointCloud(np.array(recipe["tgt"], dtype=float))
        kern = None if recipe.get("kernel") is None else getattr(T, recipe["kernel"])(src.points)
        return T.ThinPlateSplines(src, tgt, kernel=kern)
    if k == "tcoords":
        return T.tcoords_to_image_coords(tuple(recipe["shape"]))
    raise ValueError(k)


def snippet(recipe):
    return ("import sys; sys.path.insert(0, '/verif'); sys.path.insert(0, '/repo'); import numpy as np\n"
            "from harness import c04\nt = c04.build(%r)\np = t.pseudoinverse()" % (recipe,))


# ----------------------------------------------------------------------------- generators

def gen_hom(rng, cls=None, d=None):
    cls = cls or rng.choice(FAMILY)
    d = d or rng.choice([2, 3])
    r = {"kind": "hom", "cls": cls, "d": d, "history": rng.choice([None, "pinv-then-update"])}
    if cls == "Homogeneous":
        while True:
            m = int_matrix(rng, d + 1, -3, 3, 1, 24)
            if m[d][d] != 0:
                break
        sc = rng.choice([1.0, 0.5, 0.25, 2.0])
        r["h"] = [[v * sc for v in row] for row in m]
    elif cls == "Affine":
        L = int_matrix(rng, d)
        sc = rng.choice([1.0, 0.5, 0.25, 2.0])
        r["h"] = [[L[i][j] * sc for j in range(d)] + [dy(rng, 40, 2)] for i in range(d)] + [[0.0] * d + [1.0]]
    elif cls == "Similarity":
        R = rat_rotation(rng, d)
        k = Fraction(rng.choice([1, 2, 3, 5, 6, 10]), rng.choice([1, 2, 4]))
        if rng.random() < 0.25:            # a mirrored similarity is a legal member too
            R = [[-v for v in R[0]]] + R[1:]
        r["h"] = [[float(k * R[i][j]) for j in range(d)] + [dy(rng, 40, 2)] for i in range(d)] + [[0.0] * d + [1.0]]
    elif cls == "Rotation":
        r["R"] = fl(rat_rotation(rng, d))
    elif cls == "Translation":
        r["t"] = [dy(rng, 60, 3) for _ in range(d)]
    elif cls == "UniformScale":
        r["s"] = rng.choice([-1, 1]) * rng.choice([0.125, 0.25, 0.5, 0.75, 1.5, 2.0, 3.0, 5.0, 7.0, 12.0])
    elif cls == "NonUniformScale":
        while True:
            v = [rng.choice([-1, 1]) * rng.choice([0.125, 0.25, 0.5, 0.75, 1.5, 2.0, 3.0, 5.0, 7.0]) for _ in range(d)]
            if len(set(v)) > 1:
                break
        r["v"] = v
    else:
        n = rng.randint(d + 2, d + 5)
        src = general_cloud(rng, d, n)
        # target = a known well conditioned similarity-ish map of the source plus bounded noise
        R = rat_rotation(rng, d)
        k = Fraction(rng.choice([1, 2, 3, 4, 6]), rng.choice([1, 2, 4]))
        t = [F(dy(rng, 24, 2)) for _ in range(d)]
        noise = Fraction(rng.choice([0, 1, 2, 4]), 8)
        tgt = []
        for p in src:
            q = [k * sum(R[i][j] * F(p[j]) for j in range(d)) + t[i] for i in range(d)]
            tgt.append([float(q[i] + noise * F(dy(rng, 8, 3))) for i in range(d)])
        r["source"], r["target"] = src, tgt
        if cls == "AlignmentSimilarity":
            r["kwargs"] = {"rotation": rng.random() < 0.8, "allow_mirror": rng.random() < 0.3}
        elif cls == "AlignmentRotation":
            r["kwargs"] = {"allow_mirror": rng.random() < 0.3}
    r["xs"] = gen_points(rng, d, 4)
    r["x2"] = gen_points(rng, d, 3)
    return r


def grid_mesh(rng):
    nx, ny = rng.randint(2, 4), rng.randint(2, 4)

    def jitter():
        return [[i + rng.randint(-4, 4) / 16.0, j + rng.randint(-4, 4) / 16.0] for j in range(ny) for i in range(nx)]

    tris = []
    for j in range(ny - 1):
        for i in range(nx - 1):
            a, b, c, e = j * nx + i, j * nx + i + 1, (j + 1) * nx + i + 1, (j + 1) * nx + i
            pair = [[a, b, c], [a, c, e]] if rng.random() < 0.5 else [[a, b, e], [b, c, e]]
            for t in pair:
                rng.shuffle(t)
                tris.append(t)
    rng.shuffle(tris)
    return jitter, tris


def tri_cross(p, t):
    a, b, c = (list(map(F, p[i])) for i in t)
    return (b[0] - a[0]) * (c[1] - a[1]) - (b[1] - a[1]) * (c[0] - a[0])


def gen_pwa(rng):
    while True:
        jitter, tris = grid_mesh(rng)
        src = jitter()
        base = jitter()
        A = rng.choice([[[1, 0], [0, 1]], [[2, 0], [0, 1]], [[1, 1], [0, 1]], [[0, -2], [1, 0]], [[1.5, 0.5], [-0.5, 2]],
                        [[-1, 0], [0, 1]]])
        b = [dy(rng, 16, 1), dy(rng, 16, 1)]
        tgt = [[A[0][0] * p[0] + A[0][1] * p[1] + b[0], A[1][0] * p[0] + A[1][1] * p[1] + b[1]] for p in base]
        # no folding, clearly non-degenerate: unit-grid cells keep their orientation under jitter <= 1/4
        s_or = [tri_cross(src, t) for t in tris]
        b_or = [tri_cross(base, t) for t in tris]
        if all(abs(v) >= Fraction(1, 8) for v in s_or + b_or) and all((u > 0) == (v > 0) for u, v in zip(s_or, b_or)):
            break
    r = {"kind": "pwa", "cls": rng.choice(["PythonPWA", "CachedPWA"]), "src": src, "tgt": tgt, "trilist": tris,
         "history": rng.choice([None, "pinv-then-update"])}

    def interior(pts):
        out = []
        for _ in range(5):
            t = rng.choice(tris)
            while True:
                al, be = rng.randint(1, 6), rng.randint(1, 6)
                if al + be <= 7:
                    break
            a, bb, c = (pts[i] for i in t)
            out.append([a[k] + al / 8.0 * (bb[k] - a[k]) + be / 8.0 * (c[k] - a[k]) for k in range(2)])
        return out

    r["xs"] = interior(src)
    r["y2"] = interior(tgt)
    return r


def tps_system_ok(src):
    """conditioning bounded on the input: the spline system of `src` (harness' own construction) has every
    singular value far above the truncation floor (1e-4) and a moderate condition number"""
    p = np.array(src, dtype=float)
    n = len(p)
    r = np.sqrt(((p[:, None, :] - p[None, :, :]) ** 2).sum(-1))
    with np.errstate(divide="ignore", invalid="ignore"):
        k = np.where(r == 0, 0.0, r ** 2 * np.log(np.where(r == 0, 1.0, r)))
    P = np.hstack([np.ones((n, 1)), p])
    L = np.vstack([np.hstack([k, P]), np.hstack([P.T, np.zeros((3, 3))])])
    s = np.linalg.svd(L, compute_uv=False)
    return s.min() >= 5e-2 and s.max() / s.min() <= 1e5


def gen_tps(rng):
    while True:
        n = rng.randint(4, 7)
        src = []
        while len(src) < n:
            p = [rng.randint(-12, 12) / 4.0, rng.randint(-12, 12) / 4.0]
            if all((p[0] - q[0]) ** 2 + (p[1] - q[1]) ** 2 >= 1.0 for q in src):
                src.append(p)
        A = rng.choice([[[1, 0], [0, 1]], [[2, 0], [0, 1]], [[1, 0.5], [0, 1]], [[0, -1], [1, 0]], [[1.5, 0.5], [-0.5, 1]]])
        b = [dy(rng, 8, 1), dy(rng, 8, 1)]
        tgt = [[A[0][0] * p[0] + A[0][1] * p[1] + b[0] + rng.randint(-3, 3) / 8.0,
                A[1][0] * p[0] + A[1][1] * p[1] + b[1] + rng.randint(-3, 3) / 8.0] for p in src]
        if any(sum((a - c) ** 2 for a, c in zip(tgt[i], tgt[j])) < 0.25 for i in range(n) for j in range(i)):
            continue
        if tps_system_ok(src) and tps_system_ok(tgt):
            break
    return {"kind": "tps", "history": rng.choice([None, "pinv-then-update"]),
            "src": src, "tgt": tgt, "kernel": rng.choice([None, "R2LogR2RBF", "R2LogRRBF"]),
            "pts": [[rng.randint(-16, 16) / 4.0, rng.randint(-16, 16) / 4.0] for _ in range(3)]}


def gen_tcoords(rng):
    return {"kind": "tcoords", "shape": [rng.randint(2, 40), rng.randint(2, 40)],
            "xs": [[rng.randint(0, 16) / 16.0, rng.randint(0, 16) / 16.0] for _ in range(3)]}


# ----------------------------------------------------------------------------- oracle pieces

def amax(a):
    a = np.asarray(a, dtype=float)
    return float(np.max(np.abs(a))) if a.size else 0.0


def near(a, b, scale):
    a, b = np.asarray(a, dtype=float), np.asarray(b, dtype=float)
    if a.shape != b.shape or not (np.all(np.isfinite(a)) and np.all(np.isfinite(b))):
        return False
    return bool(np.all(np.abs(a - b) <= TOL * (1.0 + scale)))


def honest(cls_name, h, scale):
    """class invariants of a family class, numerically (what it means to be an honest member)"""
    d = h.shape[0] - 1
    L, t = h[:d, :d], h[:d, d]
    tol = 1e-9 * (1 + scale * scale)
    aff = np.all(np.abs(h[d, :d]) <= tol) and abs(h[d, d] - 1) <= tol
    base = cls_name.replace("Alignment", "")
    if base == "Homogeneous":
        return True
    if not aff:
        return False
    if base == "Affine":
        return True
    g = L.dot(L.T)
    k = np.trace(g) / d
    if base == "Similarity":
        return k > 0 and bool(np.all(np.abs(g - k * np.eye(d)) <= tol * (1 + k)))
    if base == "Rotation":
        return bool(np.all(np.abs(g - np.eye(d)) <= tol)) and bool(np.all(np.abs(t) <= tol))
    if base == "Translation":
        return bool(np.all(np.abs(L - np.eye(d)) <= tol))
    if base == "UniformScale":
        return bool(np.all(np.abs(L - L[0, 0] * np.eye(d)) <= tol)) and L[0, 0] != 0 and bool(np.all(np.abs(t) <= tol))
    if base == "NonUniformScale":
        return bool(np.all(np.abs(L - np.diag(np.diag(L))) <= tol)) and bool(np.all(np.diag(L) != 0)) \
            and bool(np.all(np.abs(t) <= tol))
    return False


def family_class_name(obj):
    import menpo.transform as T
    n = type(obj).__name__
    return n if n in FAMILY and getattr(T, n) is type(obj) else None


def exact_domain_ok(h, pts):
    """projective members: every probe point keeps its homogeneous coordinate clearly away from 0 (exact)"""
    d = len(h) - 1
    for p in pts:
        hp = [F(v) for v in p] + [F(1)]
        w = sum(F(h[d][j]) * hp[j] for j in range(d + 1))
        m = max(abs(sum(F(h[i][j]) * hp[j] for j in range(d + 1))) for i in range(d + 1))
        if abs(w) * 16 < max(m, 1):
            return False
    return True


# ----------------------------------------------------------------------------- cases on the real code

def case_hom(ctx, r, lines, pend, cid):
    """homogeneous family member: oracle now, model line queued.  Returns False if the recipe is outside the domain"""
    import menpo.transform as T
    from menpo.transform.base import Alignment
    cls, d = r["cls"], r["d"]
    rp = {"recipe": r, "python": snippet(r)}
    t = build(r)
    h = np.array(t.h_matrix, dtype=float)
    hq = [[F(v) for v in row] for row in h]
    big = max(amax(h), 1.0)
    cn = cond_inf(hq)
    if cn is None or cn > 10 ** 6:
        return False      # singular / ill conditioned (e.g. a degenerate alignment): outside the quantifier
    xs = np.array(r["xs"], dtype=float)
    x2 = np.array(r["x2"], dtype=float)
    if cls == "Homogeneous" and not exact_domain_ok(h.tolist(), r["xs"] + r["x2"]):
        return False
    site = "C04/hom.pinv"
    is_al = cls.startswith("Alignment")
    if is_al:
        s0, t0 = t.source, t.target
        s0p, t0p = s0.points.copy(), t0.points.copy()
    ctx.count("class:%s/%dD" % (cls, d))
    ctx.count("history:hom:" + str(r.get("history")))
    try:
        hti = t.has_true_inverse
        p = t.pseudoinverse()
        y = t.apply(xs)
        back = p.apply(y)
        y2 = t.apply(x2) if cls == "Homogeneous" else x2
        x3 = p.apply(y2)
        y3 = t.apply(x3)
        ph = np.array(p.h_matrix, dtype=float)
    except Exception as e:
        ctx.fail(site + "/raises", type(e).__name__, "pseudoinverse/apply raised %s: %s on a non-singular %s" % (
            type(e).__name__, e, cls), rp)
        return True
    scale = max(big, amax(ph), amax(xs), amax(y), amax(x3), amax(y2))
    ctx.check(hti is True, site + "/has_true_inverse", "not-true", "%s.has_true_inverse is %r" % (cls, hti), rp)
    ctx.check(near(back, xs, scale), site + "/left", "roundtrip", "pinv.apply(t.apply(x)) != x for %s %dD: %r vs %r" % (
        cls, d, np.asarray(back).tolist(), xs.tolist()), rp)
    ctx.check(near(y3, y2, scale), site + "/right", "roundtrip", "t.apply(pinv.apply(y)) != y for %s %dD: %r vs %r" % (
        cls, d, np.asarray(y3).tolist(), y2.tolist()), rp)
    pname = family_class_name(p)
    ctx.check(pname is not None and isinstance(p, T.Homogeneous), site + "/class", "not-family",
              "pseudoinverse of %s is a %s, not a homogeneous-family class" % (cls, type(p).__name__), rp)
    if pname is not None:
        ctx.check(honest(pname, ph, scale), site + "/class", "dishonest",
                  "pseudoinverse of %s claims class %s but its matrix breaks that class's invariants: %r" % (
                      cls, pname, ph.tolist()), rp)
    if is_al:
        ok = isinstance(p, Alignment) and pname is not None and pname.startswith("Alignment")
        ctx.check(ok, "C04/alignment.pinv/ends", "not-alignment",
                  "pseudoinverse of %s is not an alignment (%s)" % (cls, type(p).__name__), rp)
        if ok:
            sw = (p.source.points.shape == t0p.shape and np.array_equal(p.source.points, t0p)
                  and np.array_equal(p.target.points, s0p))
            ctx.check(sw, "C04/alignment.pinv/ends", "not-swapped",
                      "pseudoinverse of %s does not have source and target exchanged" % cls, rp)
    # model line
    obs = {"cls": pname, "ph": ph, "y": np.asarray(y), "back": np.asarray(back), "scale": scale, "rp": rp}
    lines.append("%s hom %s %d %s %d %s %s" % (cid, cls, d, common.fqs(h.ravel()), len(xs), common.fqs(xs.ravel()),
                                              common.fqs(np.asarray(y, dtype=float).ravel())))
    pend[cid] = ("hom", obs)
    return True


def case_tcoords(ctx, r, lines, pend, cid):
    import menpo.transform as T
    rp = {"recipe": r, "python": "from menpo.transform import tcoords_to_image_coords, image_coords_to_tcoords\n"
                                 "shape = %r" % (tuple(r["shape"]),)}
    site = "C04/tcoords"
    shape = tuple(r["shape"])
    xs = np.array(r["xs"], dtype=float)
    try:
        t = T.tcoords_to_image_coords(shape)
        b = T.image_coords_to_tcoords(shape)
        y = t.apply(xs)
        back = b.apply(y)
        fwd = t.apply(b.apply(y * 0.5 + 1.0))
    except Exception as e:
        ctx.fail(site + "/raises", type(e).__name__, "tcoords transforms raised %s for shape %r" % (type(e).__name__, shape), rp)
        return True
    ctx.count("class:tcoords")
    scale = max(shape)
    ctx.check(near(back, xs, scale), site + "/left", "roundtrip",
              "image_coords_to_tcoords(tcoords_to_image_coords(x)) != x for shape %r" % (shape,), rp)
    ctx.check(near(fwd, y * 0.5 + 1.0, scale), site + "/right", "roundtrip",
              "tcoords_to_image_coords(image_coords_to_tcoords(y)) != y for shape %r" % (shape,), rp)
    ctx.check(isinstance(b, T.Homogeneous) and isinstance(t, T.Homogeneous) and b.has_true_inverse is True,
              site + "/class", "not-family", "tcoords transforms are not homogeneous-family members", rp)
    obs = {"th": np.array(t.h_matrix), "bh": np.array(b.h_matrix), "y": np.asarray(y), "back": np.asarray(back),
           "scale": scale, "rp": rp}
    lines.append("%s tcoords %d %d %d %s %s" % (cid, shape[0], shape[1], len(xs), common.fqs(xs.ravel()),
                                                common.fqs(np.asarray(y, dtype=float).ravel())))
    pend[cid] = ("tcoords", obs)
    return True


def case_pwa(ctx, r, lines, pend, cid):
    from menpo.shape import PointCloud, TriMesh
    rp = {"recipe": r, "python": snippet(r)}
    site = "C04/pwa.pinv"
    ctx.count("class:%s" % r["cls"])
    xs = np.array(r["xs"], dtype=float)
    y2 = np.array(r["y2"], dtype=float)
    try:
        t = build(r)
        sp, tp, tl = t.source.points.copy(), t.target.points.copy(), np.array(t.trilist).copy()
        hti = t.has_true_inverse
        p = t.pseudoinverse()
        y = t.apply(xs)
        back = p.apply(y)
        x3 = p.apply(y2)
        y3 = t.apply(x3)
        lm = p.apply(tp)
        rev = type(t)(TriMesh(tp, tl), PointCloud(sp))
        rv = rev.apply(y2)
    except Exception as e:
        ctx.fail(site + "/raises", type(e).__name__, "PWA pseudoinverse/apply raised %s on interior points of a "
                 "non-degenerate mesh" % type(e).__name__, rp)
        return True
    scale = max(amax(sp), amax(tp))
    ctx.check(hti is True, site + "/has_true_inverse", "not-true", "PWA.has_true_inverse is %r" % (hti,), rp)
    ctx.check(near(back, xs, scale), site + "/left", "roundtrip", "pinv.apply(t.apply(x)) != x: %r vs %r" % (
        np.asarray(back).tolist(), xs.tolist()), rp)
    ctx.check(near(y3, y2, scale), site + "/right", "roundtrip", "t.apply(pinv.apply(y)) != y: %r vs %r" % (
        np.asarray(y3).tolist(), y2.tolist()), rp)
    ctx.check(type(p) is type(t), site + "/class", "other-class", "pseudoinverse of %s is a %s" % (
        type(t).__name__, type(p).__name__), rp)
    same_tris = sorted(tuple(sorted(int(v) for v in row)) for row in np.array(p.trilist)) == \
        sorted(tuple(sorted(int(v) for v in row)) for row in tl)          # the same triangles (vertex order is immaterial)
    ends = np.array_equal(p.source.points, tp) and np.array_equal(p.target.points, sp) and same_tris
    ctx.check(ends, site + "/ends", "not-swapped", "PWA pseudoinverse is not (target points, same triangles) -> source points", rp)
    ctx.check(near(lm, sp, scale), site + "/landmarks", "missed", "PWA pseudoinverse does not return the target landmarks "
              "to the source landmarks (max miss %.3g)" % amax(np.asarray(lm) - sp), rp)
    ctx.check(near(x3, rv, scale), site + "/reverse-fit", "differs", "PWA pseudoinverse differs from the PWA fitted in "
              "the reverse direction", rp)
    obs = {"y": np.asarray(y), "back": np.asarray(back), "scale": scale, "rp": rp}
    flat = lambda a: common.fqs(np.asarray(a, dtype=float).ravel())
    lines.append("%s pwa %d %s %s %d %s %d %s %s" % (cid, len(sp), flat(sp), flat(tp), len(tl),
                                                    " ".join(str(int(v)) for v in tl.ravel()), len(xs), flat(xs), flat(y)))
    pend[cid] = ("pwa", obs)
    return True


def kernel_table(kcls, pts, ctrs):
    """phi(q) for every squared distance between `pts` and `ctrs`: q exact, value from the real kernel class"""
    K = kcls(np.array(ctrs, dtype=float)).apply(np.array(pts, dtype=float))
    tab = {}
    for i, p in enumerate(pts):
        for j, c in enumerate(ctrs):
            q = (F(p[0]) - F(c[0])) ** 2 + (F(p[1]) - F(c[1])) ** 2
            if q != 0 and q not in tab:
                tab[q] = F(float(K[i, j]))
    return tab


def tps_miss(r):
    """max distance by which pseudoinverse() misses the source landmarks (real code only); None if it raises"""
    try:
        t = build(r)
        return amax(np.asarray(t.pseudoinverse().apply(t.target.points)) - t.source.points)
    except Exception:
        return None


def shrink_tps(r):
    """drop landmarks one at a time while the failure persists (a spline needs 4 for a non-affine part)"""
    cur = dict(r)
    changed = True
    while changed and len(cur["src"]) > 4:
        changed = False
        for i in range(len(cur["src"])):
            cand = dict(cur, src=cur["src"][:i] + cur["src"][i + 1:], tgt=cur["tgt"][:i] + cur["tgt"][i + 1:])
            if not (tps_system_ok(cand["src"]) and tps_system_ok(cand["tgt"])):
                continue
            m = tps_miss(cand)
            if m is not None and m > 1e-3:
                cur, changed = cand, True
                break
    return cur


def case_tps(ctx, r, lines, pend, cid):
    import menpo.transform as T
    from menpo.shape import PointCloud
    rp = {"recipe": r, "python": snippet(r)}
    site = "C04/tps.pinv"
    ctx.count("class:ThinPlateSplines/%s" % (r["kernel"] or "default"))
    ctx.count("history:tps:" + str(r.get("history")))
    pts = np.array(r["pts"], dtype=float)
    try:
        t = build(r)
        sp, tp = t.source.points.copy(), t.target.points.copy()
        fwd = t.apply(sp)
        f_pts = t.apply(pts)
    except Exception as e:
        ctx.fail("C04/tps/raises", type(e).__name__, "ThinPlateSplines construction/apply raised %s" % type(e).__name__, rp)
        return True
    scale = max(amax(sp), amax(tp), amax(pts))
    # the forward spline interpolates (tps_interpolates; also the sanity of the generated system)
    ctx.check(near(fwd, tp, scale), "C04/tps/interpolates", "missed",
              "ThinPlateSplines(source, target) does not map source landmarks onto target landmarks (max miss %.3g)"
              % amax(np.asarray(fwd) - tp), rp)
    try:
        p = t.pseudoinverse()
        lm = p.apply(tp)
        p_pts = p.apply(pts)
        kcls = type(t.kernel)
        rev = T.ThinPlateSplines(PointCloud(tp), PointCloud(sp), kernel=kcls(tp.copy()),
                                 min_singular_val=t.min_singular_val)
        r_pts = rev.apply(pts)
    except Exception as e:
        ctx.fail(site + "/raises", type(e).__name__, "TPS pseudoinverse/apply raised %s" % type(e).__name__, rp)
        return True
    centres_old = (np.asarray(p.kernel.c).shape == sp.shape and np.array_equal(np.asarray(p.kernel.c), sp))
    pat = "kernel-centred-on-old-source" if centres_old else "missed"
    # the generator bounds the condition number of both spline systems (<= 1e5), so float error stays < 1e-10
    ok_lm = near(lm, sp, scale)
    if not ok_lm and not any(f[0] == site + "/landmarks" for f in ctx.failures) and \
            not any(k[0] == site + "/landmarks" for k in ctx.known_seen):
        rmin = shrink_tps(r)
        rp = dict(rp, minimal_recipe=rmin, minimal_python=snippet(rmin) +
                  "\nprint(abs(p.apply(t.target.points) - t.source.points).max())   # required: ~0",
                  minimal_miss=tps_miss(rmin), required="p.apply(t.target.points) == t.source.points")
    ctx.check(ok_lm, site + "/landmarks", pat,
              "TPS pseudoinverse does not send the target landmarks back onto the source landmarks: max miss %.4g "
              "(kernel centres are %s)" % (amax(np.asarray(lm) - sp),
                                           "still the old source points" if centres_old else "re-centred"), rp)
    ok_rev = near(p_pts, r_pts, max(scale, amax(r_pts)))
    ctx.check(ok_rev, site + "/reverse-fit", pat if centres_old else "differs",
              "TPS pseudoinverse is not the spline fitted in the reverse direction: %r vs %r" % (
                  np.asarray(p_pts).tolist(), np.asarray(r_pts).tolist()), rp)
    ctx.check(type(p) is type(t), site + "/class", "other-class", "pseudoinverse of ThinPlateSplines is a %s" % type(p).__name__, rp)
    ctx.check(np.array_equal(p.source.points, tp) and np.array_equal(p.target.points, sp), site + "/ends", "not-swapped",
              "TPS pseudoinverse does not have source and target exchanged", rp)
    # model lines: forward fit, repaired inverse, inverse as coded
    allp = r["src"] + r["tgt"] + r["pts"]
    tab = kernel_table(kcls, allp, r["src"] + r["tgt"])
    tabs = " ".join("%s %s" % (common.fq(q), common.fq(v)) for q, v in tab.items())
    flat = lambda a: common.fqs(np.asarray(a, dtype=float).ravel())
    n = len(sp)
    evalp = np.vstack([tp, pts])
    for mode, pp in (("fit", np.vstack([sp, pts])), ("pinvFixed", evalp), ("pinvCoded", evalp)):
        lines.append("%s.%s tps %s %d %s %s %d %s %d %s" % (cid, mode, mode, n, flat(sp), flat(tp), len(tab), tabs,
                                                           len(pp), flat(pp)))
    obs = {"fit": np.vstack([fwd, f_pts]), "pinv": np.vstack([lm, p_pts]), "scale": scale, "rp": rp,
           "oracle_ok": ok_lm and ok_rev}
    pend[cid] = ("tps", obs)
    return True


# ----------------------------------------------------------------------------- model comparison

def parse_groups(reply):
    """`ok a b | c d none | …` -> list of token lists"""
    body = reply[3:] if reply.startswith("ok ") else reply[2:]
    return [g.split() for g in body.split("|")]


def nums(tokens, width):
    """tokens of points (`none` for an undefined point) -> array with nan rows"""
    out, i = [], 0
    while i < len(tokens):
        if tokens[i] == "none":
            out.append([float("nan")] * width)
            i += 1
        else:
            out.append([float(Fraction(x)) for x in tokens[i:i + width]])
            i += width
    return np.array(out, dtype=float).reshape(-1, width)


def compare(ctx, pend, model):
    for cid, (kind, o) in pend.items():
        rp, sc = o["rp"], o["scale"]
        if kind == "hom":
            rep = model[cid]
            d = rp["recipe"]["d"]
            if not rep.startswith("ok"):
                ctx.mismatch("hom", "model says %r, implementation inverted the matrix" % rep, rp)
                continue
            g = parse_groups(rep)
            mh = np.array([float(Fraction(x)) for x in g[0]]).reshape(d + 1, d + 1)
            if not near(mh, o["ph"], max(sc, amax(mh))):
                ctx.mismatch("hom.h_matrix", "model inverse %r vs implementation %r" % (mh.tolist(), o["ph"].tolist()), rp)
            if o["cls"] != rp["recipe"]["cls"]:
                ctx.mismatch("hom.class", "model keeps class %s, implementation returned %s" % (rp["recipe"]["cls"], o["cls"]), rp)
            if not near(nums(g[1], d), o["y"], sc):
                ctx.mismatch("hom.apply", "model t.apply %r vs implementation %r" % (nums(g[1], d).tolist(), o["y"].tolist()), rp)
            if not near(nums(g[2], d), o["back"], sc):
                ctx.mismatch("hom.pinv.apply", "model pinv.apply %r vs implementation %r" % (
                    nums(g[2], d).tolist(), o["back"].tolist()), rp)
        elif kind == "tcoords":
            rep = model[cid]
            if not rep.startswith("ok"):
                ctx.mismatch("tcoords", "model says %r" % rep, rp)
                continue
            g = parse_groups(rep)
            mt = np.array([float(Fraction(x)) for x in g[0]]).reshape(3, 3)
            mb = np.array([float(Fraction(x)) for x in g[1]]).reshape(3, 3)
            if not (near(mt, o["th"], sc) and near(mb, o["bh"], sc)):
                ctx.mismatch("tcoords.h_matrix", "model %r / %r vs implementation %r / %r" % (
                    mt.tolist(), mb.tolist(), o["th"].tolist(), o["bh"].tolist()), rp)
            if not (near(nums(g[2], 2), o["y"], sc) and near(nums(g[3], 2), o["back"], sc)):
                ctx.mismatch("tcoords.apply", "model images differ from the implementation's", rp)
        elif kind == "pwa":
            rep = model[cid]
            g = parse_groups(rep)
            if not (near(nums(g[0], 2), o["y"], sc) and near(nums(g[1], 2), o["back"], sc)):
                ctx.mismatch("pwa.apply", "model %r / %r vs implementation %r / %r" % (
                    nums(g[0], 2).tolist(), nums(g[1], 2).tolist(), o["y"].tolist(), o["back"].tolist()), rp)
        elif kind == "tps":
            reps = {m: model["%s.%s" % (cid, m)] for m in ("fit", "pinvFixed", "pinvCoded")}
            tol_sc = max(sc, amax(o["pinv"]), amax(o["fit"]))

            def agrees(mode, arr):
                return reps[mode].startswith("ok") and near(nums(parse_groups(reps[mode])[0], 2), arr, tol_sc)
            if not agrees("fit", o["fit"]):
                ctx.mismatch("tps.apply", "model spline %r vs implementation %r" % (reps["fit"][:300], o["fit"].tolist()), rp)
            if agrees("pinvFixed", o["pinv"]):
                ctx.count("tps.pinv follows: reverse-fit model")
            elif agrees("pinvCoded", o["pinv"]):
                ctx.count("tps.pinv follows: kernel-reuse model (defect, refuted in Lean)")
                if o["oracle_ok"]:     # cannot happen for non-affine data; kept so that a broken tie is never silent
                    ctx.mismatch("tps.pinv", "implementation follows the kernel-reuse model yet passes the oracle", rp)
            else:
                ctx.count("tps.pinv follows: neither model")
                if o["oracle_ok"]:
                    ctx.mismatch("tps.pinv", "model reverse fit %r vs implementation %r" % (
                        reps["pinvFixed"][:300], o["pinv"].tolist()), rp)


# ----------------------------------------------------------------------------- run / search / replay

CASE_FN = {"hom": case_hom, "tcoords": case_tcoords, "pwa": case_pwa, "tps": case_tps}


def nontrivial(r):
    if r["kind"] == "hom":
        c = r["cls"]
        if c == "Translation":
            return any(v != 0 for v in r["t"])
        if c == "UniformScale":
            return r["s"] != 1
        return True
    return True


def sig(r):
    return json.dumps(r, sort_keys=True, default=str)


def gen_case(rng, kind, k):
    if kind == "hom":
        # cycle deterministically through class × dimension so every run covers all 24 combinations
        return gen_hom(rng, FAMILY[k % 12], 2 + (k // 12) % 2)
    return {"tcoords": gen_tcoords, "pwa": gen_pwa, "tps": gen_tps}[kind](rng)


def search(ctx):
    """directed search after a broken tie: oracle only, many more cases of every family, until a failure shows"""
    rng = ctx.rng
    dummy_lines, dummy_pend = [], {}
    plan = [("hom", 1200), ("pwa", 150), ("tps", 80), ("tcoords", 60)]
    # neighbours of the mismatching cases first: same class / kind, fresh parameters
    first = []
    for op, _, rp in ctx.mismatches[:20]:
        rec = (rp or {}).get("recipe") or {}
        if rec.get("kind") == "hom":
            first += [("hom1", rec["cls"], rec["d"])] * 40
        elif rec.get("kind"):
            first += [(rec["kind"],)] * 20
    for item in first:
        r = gen_hom(rng, item[1], item[2]) if item[0] == "hom1" else gen_case(rng, item[0], 0)
        CASE_FN[r["kind"]](ctx, r, dummy_lines, dummy_pend, "s")
        ctx.searched += 1
        if ctx.failures:
            return True
    for kind, n in plan:
        for k in range(n):
            r = gen_case(rng, kind, k)
            CASE_FN[kind](ctx, r, dummy_lines, dummy_pend, "s")
            ctx.searched += 1
            if ctx.failures:
                return True
    return False


def run(ctx):
    common.prepare_lean(ctx, PROP, IMPORTS, THEOREMS)
    ctx.trusted += ["np.linalg.inv contract A·B = 1 (round trips re-check it on every case)",
                    "truncated-SVD solve of the TPS system = (L^-1)^T·Y above the singular-value floor "
                    "(checked exact solve in the model; interpolation re-checked on every case)",
                    "radial function values taken from menpo.transform.rbf (theorems hold for every radial function)"]
    rng = ctx.rng
    plan = [("hom", ctx.n(720, 4800)), ("tcoords", ctx.n(24, 200)), ("pwa", ctx.n(120, 800)), ("tps", ctx.n(60, 400))]
    lines, pend = [], {}
    n = 0
    for kind, cnt in plan:
        done = rejected = 0
        while done < cnt:
            r = gen_case(rng, kind, done)
            cid = "%s%d" % (kind[0], n)
            if not CASE_FN[kind](ctx, r, lines, pend, cid):
                ctx.count("rejected:outside-domain")
                rejected += 1
                if rejected > 50 * cnt:
                    raise common.Infra("C04 generator rejects nearly everything (%s)" % kind)
                continue
            n += 1
            done += 1
            small = {kk: r[kk] for kk in r if kk in ("kind", "cls", "d", "shape", "kernel")}
            ctx.case(sig(r), nontrivial=nontrivial(r), sample=small if done == 1 else None)
    model = common.run_driver(PROP, lines)
    compare(ctx, pend, model)
    return ctx.finish(search)


def replay(ctx, path):
    data = json.load(open(path))
    rp = data.get("replay") or (data.get("broken_correspondence") or [{}])[0].get("case", {})
    r = (rp or {}).get("recipe")
    if r is None:
        print("replay file carries no recipe")
        return 2
    lines, pend = [], {}
    ok = CASE_FN[r["kind"]](ctx, r, lines, pend, "r0")
    ctx.case(sig(r))
    ctx.case("replay-second-evaluation:" + sig(r))
    if not ok:
        print("recipe is outside the property's domain (ill conditioned)")
    if lines:
        model = common.run_driver(PROP, lines)
        for l in lines:
            i = l.split(" ", 1)[0]
            print("model %s: %s" % (i, model[i][:400]))
        compare(ctx, pend, model)
    for k, (kind, o) in pend.items():
        for key in o:
            if key not in ("rp",):
                print("implementation %s.%s: %s" % (k, key, np.asarray(o[key]).tolist() if hasattr(o[key], "shape") else o[key]))
    return ctx.finish(None)
