"""C20 — the functions the C20 model stands for, TRANSLATED from the source text of the current working tree into Lean
(`lean/MenpoModel/Generated/C20Src.lean`) on every run; `lean/MenpoModel/GenProps/C20Src.lean` proves every translated
body equal to the Core definition the C20 theorems are about, for all arguments.

harness/py2lean2.py (Translator2M) is the translator; this file is the C20 vocabulary: for each function a table of
rules `python pattern with $metavariables -> Lean template` over the operations of `Core/C20Src.lean`.

What is translated (one Lean definition each):
  compositions.py        transform_about_centre, scale_about_centre, rotate_ccw_about_centre, shear_about_centre
  rotation.py            Rotation.init_from_2d_ccw_angle, init_from_3d_ccw_angle_around_x / _y / _z,
                         init_3d_from_quaternion, axis_and_angle_of_rotation (dispatch), _axis_and_angle_of_rotation_2d,
                         _axis_and_angle_of_rotation_3d, _as_vector, _from_vector_inplace
  affine.py              Affine.init_from_2d_shear
  scale.py               the Scale factory
  tcoords.py             tcoords_to_image_coords, image_coords_to_tcoords
  shape/pointcloud.py    PointCloud.centre, bounds, centre_of_bounds;   image/base.py  Image.centre
and the defaults of the `degrees` / `boundary` parameters.

An `Untranslatable` function (the source now says something the vocabulary has no words for) gets a stub body, so that
its equality obligation cannot be proved: a broken obligation, never a crash."""
import os
from . import py2lean2 as P

GEN_REL = os.path.join("MenpoModel", "Generated", "C20Src.lean")
GEN_TARGETS = ["MenpoModel.Generated.C20Src", "MenpoModel.GenProps.C20Src"]

NAMES = []      # filled by items(): the Lean names of the translated definitions

EXC = {"ValueError": ".error .valueError", "TypeError": ".error .typeError", "IndexError": ".error .indexError",
       "NotImplementedError": ".error .notImplementedError"}


def _float(n, d):
    return "(%d : Rat)" % n if d == 1 else "((%d : Rat) / %d)" % (n, d)


def R(expr=(), stmt=(), **kw):
    kw.setdefault("ret", ".ok ({e})")
    kw.setdefault("raise_", None)
    kw.setdefault("raise_by", EXC)
    kw.setdefault("float_", _float)
    kw.setdefault("unit", "(Except.ok ({e}))")
    kw.setdefault("binop", {P.ast.Div: "({a} / {b})"})
    return P.Rules2N(expr=expr, stmt=stmt, **kw)


def _bool(text):
    if text == "True":
        return "true"
    if text == "False":
        return "false"
    raise P.Untranslatable("default `%s` is not a Boolean literal" % text)


def _fn(cls, name):
    f = cls.__dict__[name]
    return getattr(f, "__func__", f)


def items():
    """[(lean signature ending in `:=`, thunk -> body text, stub body)] in definition order"""
    import menpo.transform.compositions as comp
    import menpo.transform.tcoords as tc
    import menpo.transform.homogeneous.scale as sc
    from menpo.transform import Rotation, Affine, Homogeneous
    from menpo.shape import PointCloud
    from menpo.image import Image
    T = P.Translator2N
    out = []
    STUB = ".error .typeError"

    def default_of(fn, param):
        d = T(R()).defaults(fn)
        if param not in d:
            raise P.Untranslatable("parameter `%s` of %s has no default" % (param, fn.__name__))
        return d[param]

    # ------------------------------------------------------------------ rotation.py: the angle constructors
    trig = [("np.deg2rad($x)", "({x}.deg2rad)"), ("np.cos($x)", "({x}.cos)"), ("np.sin($x)", "({x}.sin)"),
            ("np.tan($x)", "({x}.tan)")]
    ctor = R(expr=trig + [("np.array($m)", "({m} : Rows)"),
                          ("Rotation($m, skip_checks=True)", "(Tr.rotationOfRows {m})", "bind")])
    for name, lean in (("init_from_2d_ccw_angle", "genInitFrom2dCcwAngle"),
                       ("init_from_3d_ccw_angle_around_x", "genInitFrom3dCcwAngleAroundX"),
                       ("init_from_3d_ccw_angle_around_y", "genInitFrom3dCcwAngleAroundY"),
                       ("init_from_3d_ccw_angle_around_z", "genInitFrom3dCcwAngleAroundZ")):
        out.append(("def %s (theta : Ang) (degrees : Bool) : Except Err Tr :=" % lean,
                    lambda name=name: T(ctor).function(_fn(Rotation, name), {"cls": "Cls.rotation", "theta": "theta",
                                                                              "degrees": "degrees"}, ind=1), STUB))
    # ------------------------------------------------------------------ affine.py: the shear constructor
    shear = R(expr=trig + [("np.eye($n)", "(eyeRows {n})"), ("cls($m, skip_checks=True)", "(Tr.ofHRows cls {m})", "bind")],
              stmt=[("$m[$i, $j] = $v", "m", "(Rows.set {m} {i} {j} {v})")])
    out.append(("def genInitFrom2dShear (cls : Cls) (phi psi : Ang) (degrees : Bool) : Except Err Tr :=",
                lambda: T(shear).function(_fn(Affine, "init_from_2d_shear"),
                                          {"cls": "cls", "phi": "phi", "psi": "psi", "degrees": "degrees"}, ind=1), STUB))

    # ------------------------------------------------------------------ compositions.py
    def comp_rules():
        d_rot = _bool(default_of(_fn(Rotation, "init_from_2d_ccw_angle"), "degrees"))
        d_shear = _bool(default_of(_fn(Affine, "init_from_2d_shear"), "degrees"))
        return R(expr=[
            ("$o.centre()", "({o}.centreD)"), ("$o.n_dims", "({o}.nDims)"),
            ("Translation($v, skip_checks=True)", "(Tr.translation {v})"),
            ("isinstance($t, Homogeneous)", "({t}.isHomogeneous)"),
            ("$a.compose_before($b)", "(Tr.composeBefore {a} {b})", "bind"),
            ("reduce($f, $xs)", "(pyReduceM {f} {xs})", "bind"),
            ("UniformScale($s, $n, skip_checks=True)", "(Tr.uniformScaleSkip {s} {n})", "bind"),
            ("transform_about_centre($o, $t)", "(genTransformAboutCentre {o} {t})", "bind"),
            ("Rotation.init_from_2d_ccw_angle($t, degrees=$d)", "(genInitFrom2dCcwAngle {t} {d})", "bind"),
            ("Rotation.init_from_2d_ccw_angle($t, $d)", "(genInitFrom2dCcwAngle {t} {d})", "bind"),
            ("Rotation.init_from_2d_ccw_angle($t)", "(genInitFrom2dCcwAngle {t} %s)" % d_rot, "bind"),
            ("Affine.init_from_2d_shear($a, $b, degrees=$d)", "(genInitFrom2dShear Cls.affine {a} {b} {d})", "bind"),
            ("Affine.init_from_2d_shear($a, $b, $d)", "(genInitFrom2dShear Cls.affine {a} {b} {d})", "bind"),
            ("Affine.init_from_2d_shear($a, $b)", "(genInitFrom2dShear Cls.affine {a} {b} %s)" % d_shear, "bind")])

    out.append(("def genTransformAboutCentre (obj : Obj) (transform : Tr) : Except Err Tr :=",
                lambda: T(comp_rules()).function(comp.transform_about_centre, {"obj": "obj", "transform": "transform"}, ind=1),
                STUB))
    out.append(("def genScaleAboutCentre (obj : Obj) (scale : ScaleArg) : Except Err Tr :=",
                lambda: T(comp_rules()).function(comp.scale_about_centre, {"obj": "obj", "scale": "scale"}, ind=1), STUB))
    out.append(("def genRotateCcwAboutCentre (obj : Obj) (theta : Ang) (degrees : Bool) : Except Err Tr :=",
                lambda: T(comp_rules()).function(comp.rotate_ccw_about_centre,
                                                 {"obj": "obj", "theta": "theta", "degrees": "degrees"}, ind=1), STUB))
    out.append(("def genShearAboutCentre (obj : Obj) (phi psi : Ang) (degrees : Bool) : Except Err Tr :=",
                lambda: T(comp_rules()).function(comp.shear_about_centre,
                                                 {"obj": "obj", "phi": "phi", "psi": "psi", "degrees": "degrees"}, ind=1), STUB))

    # ------------------------------------------------------------------ scale.py: the factory
    scale = R(expr=[
        ("isinstance($x, Number)", "({x}.isNumber)"), ("np.asarray($x)", "{x}"), ("np.all($x == $v)", "(ScaleArg.allClose {x} {v})"),      # exact comparison (notes/fixes/C20-scale-factory-allclose.diff)
        ("np.all($x)", "({x}.allNonzero)"),
        ("np.allclose($x, $v)", "(ScaleArg.allClose {x} {v})"),
        ("$x.shape[0]", "({x}.shape0)", "bind"), ("$x[0]", "({x}.item0)", "bind"), ("np.ndim($x)", "({x}.ndim)"),
        ("$x.shape != ($n,)", "(ScaleArg.shapeNe {x} {n})"),
        ("UniformScale($k, $n)", "(mkUniformScaleArg {k} {n})", "bind"),
        ("NonUniformScale($k)", "(mkNonUniformScaleArg {k})", "bind")])
    out.append(("def genScale (scalefactor : ScaleArg) (ndims : Option Nat) : Except Err ScaleObj :=",
                lambda: T(scale).function(sc.Scale, {"scale_factor": "scalefactor", "n_dims": "ndims"}, ind=1), STUB))

    # ------------------------------------------------------------------ tcoords.py
    tco = R(expr=[
        ("np.array($s) - 1", "(shapeMinusOne {s})"),
        ("Scale($x)", "((genScale {x} none).bind ScaleObj.toTr)", "bind"),
        ("np.array($m)", "({m} : Rows)"),
        ("Homogeneous($m)", "(Tr.ofHRows Cls.homogeneous {m})", "bind"),
        ("$a.compose_before($b)", "(Tr.composeBefore {a} {b})", "bind"),
        ("tcoords_to_image_coords($s)", "(genTcoordsToImageCoords {s})", "bind"),
        ("$t.pseudoinverse()", "(Tr.pseudoinverse {t})", "bind")])
    out.append(("def genTcoordsToImageCoords (imageshape : List Nat) : Except Err Tr :=",
                lambda: T(tco).function(tc.tcoords_to_image_coords, {"image_shape": "imageshape"}, ind=1), STUB))
    out.append(("def genImageCoordsToTcoords (imageshape : List Nat) : Except Err Tr :=",
                lambda: T(tco).function(tc.image_coords_to_tcoords, {"image_shape": "imageshape"}, ind=1), STUB))

    # ------------------------------------------------------------------ the centres
    cen = R(expr=[("np.mean($s.points, axis=0)", "(Pts.meanAxis0 {s})"),
                  ("np.min($s.points, axis=0)", "(Pts.minAxis0 {s})"), ("np.max($s.points, axis=0)", "(Pts.maxAxis0 {s})")],
            ret="{e}")
    out.append(("def genPointCloudCentre (self : Pts) : VD :=",
                lambda: T(cen).function(_fn(PointCloud, "centre"), {"self": "self"}, ind=1), "VD.v2 ⟨0, 0⟩"))
    out.append(("def genPointCloudBounds (self : Pts) (boundary : Rat) : VD × VD :=",
                lambda: T(cen).function(_fn(PointCloud, "bounds"), {"self": "self", "boundary": "boundary"}, ind=1),
                "(VD.v2 ⟨0, 0⟩, VD.v2 ⟨0, 0⟩)"))

    def cob_rules():
        d = default_of(_fn(PointCloud, "bounds"), "boundary")
        if d != "0":
            raise P.Untranslatable("default boundary of PointCloud.bounds is `%s`" % d)
        return R(expr=[("$s.bounds()", "(genPointCloudBounds {s} 0)"),
                       ("($a + $b) / 2.0", "((VD.add {a} {b}).map VD.half)", "bind")])
    out.append(("def genPointCloudCentreOfBounds (self : Pts) : Except Err VD :=",
                lambda: T(cob_rules()).function(_fn(PointCloud, "centre_of_bounds"), {"self": "self"}, ind=1), STUB))
    img = R(expr=[("np.array($s.shape, dtype=np.double) / 2", "(halfShape {s})", "bind")])
    out.append(("def genImageCentre (self : List Nat) : Except Err VD :=",
                lambda: T(img).function(_fn(Image, "centre"), {"self": "self"}, ind=1), STUB))

    # ------------------------------------------------------------------ rotation.py: axis and angle
    aa = R(expr=[("$s.n_dims", "({s}.nDims)"), ("$s._axis_and_angle_of_rotation_2d()", "(f2 {s})"),
                 ("$s._axis_and_angle_of_rotation_3d()", "(f3 {s})")], ret="some ({e})", end="none", none_is_end=True)
    out.append(("def genAxisAndAngleOfRotation {α : Type} (f2 f3 : Tr → α) (self : Tr) : Option α :=",
                lambda: T(aa).function(_fn(Rotation, "axis_and_angle_of_rotation"), {"self": "self"}, ind=1), "none"))
    aa2 = R(expr=[("np.array($x)", "({x} : List Rat)"), ("np.dot($s.rotation_matrix, $v)", "(matVec {s}.linRows {v})"),
                  ("np.dot($a, $b)", "(dotL {a} {b})"), ("np.arccos($x)", "(ArcAngle.mk {x} false)")], ret="{e}")
    out.append(("def genAxisAndAngle2d (self : Tr) : List Rat × ArcAngle :=",
                lambda: T(aa2).function(_fn(Rotation, "_axis_and_angle_of_rotation_2d"), {"self": "self"}, ind=1),
                "([], ⟨0, false⟩)"))
    aa3 = R(expr=[
        ("(None, None)", "none"), ("($a, $b)", "(some ({a}, {b}))"),
        ("np.linalg.eig($s.rotation_matrix)", "(eig {s}.linRows)"),
        ("np.isreal($e)", "({e}.map EVal.isReal)"), ("np.real($x)", "({x}.map EVal.re)"), ("np.real_if_close($x)", "{x}"),
        ("np.abs($x) < $b", "({x}.map fun v => decide (rabs v < {b}))"),
        ("$a < np.abs($x)", "({x}.map fun v => decide ({a} < rabs v))"),
        ("np.logical_and($a, $b)", "(List.zipWith (· && ·) {a} {b})"),
        ("$x.shape[1]", "({x}.length)"), ("$x[:, 0]", "({x}.getD 0 [])"), ("$x[:, $m]", "(maskSel {x} {m})"),
        ("$x[$m]", "(PyMask.sel {x} {m})"),
        ("$v / np.sqrt(($v ** 2).sum())", "(normalizeL sqrt {v})"),
        ("$a - np.random.rand($a.size)", "(vecSub {a} rand)"), ("np.cross($a, $b)", "(crossL {a} {b})"),
        ("np.dot($s.rotation_matrix, $v)", "(matVec {s}.linRows {v})"), ("np.dot($a, $b)", "(dotL {a} {b})"),
        ("np.arccos($x)", "(ArcAngle.mk {x} false)"), ("$a * -1.0", "({a}.negate)")], ret="{e}")
    out.append(("def genAxisAndAngle3d (eig : Rows → List EVal × List (List Rat)) (sqrt : Rat → Rat) (rand : List Rat) "
                "(self : Tr) : AA3 :=",
                lambda: T(aa3).function(_fn(Rotation, "_axis_and_angle_of_rotation_3d"), {"self": "self"}, ind=1), "none"))

    # ------------------------------------------------------------------ rotation.py: quaternions
    asv = R(expr=[("$s.n_dims", "({s}.nDims)"), ("$s.h_matrix", "({s}.hRows)"),
                  ("np.array($m)", "({m} : Rows)"), ("$m / 3.0", "(Rows.divScalar {m} 3)"),
                  ("np.linalg.eigh($K)", "(eigh {K})"), ("$V[$idx, np.argmax($w)]", "(pickCol {V} {idx} (argmaxL {w}))"),
                  ("$m[$i, $j]", "(Rows.get {m} {i} {j})"),
                  ("$q[0]", "({q}.getD 0 0)"), ("-$q", "(vecNeg {q})")])
    out.append(("def genAsVector (eigh : Rows → List Rat × Rows) (self : Tr) : Except Err (List Rat) :=",
                lambda: T(asv).function(_fn(Rotation, "_as_vector"), {"self": "self"}, ind=1), STUB))
    fvi = R(expr=[("$s.n_dims", "({s}.nDims)"), ("len($p)", "({p}.length)"), ("np.dot($a, $b)", "(dotL {a} {b})"),
                  ("np.finfo(float).eps * 4.0", "eps4"), ("np.identity(4)", "(eyeRows 4)"),
                  ("$p * np.sqrt($r)", "(SqrtVec.mk {p} {r})"), ("np.outer($a, $b)", "(SqrtVec.outer {a} {b})"),
                  ("$m[$i, $j]", "(Rows.get {m} {i} {j})"), ("np.array($m)", "({m} : Rows)")],
            stmt=[("$s.set_rotation_matrix($m, skip_checks=True)", "s", "(Tr.setRotationSkip {s} {m})", "bind")],
            ret=".ok {self}", end=".ok {self}")
    out.append(("def genFromVectorInplace (eps4 : Rat) (self : Tr) (p : List Rat) : Except Err Tr :=",
                lambda: T(fvi).function(_fn(Rotation, "_from_vector_inplace"), {"self": "self", "p": "p"}, ind=1), STUB))
    fv = R(expr=[("$s.copy()", "{s}")],
           stmt=[("$n._from_vector_inplace($v)", "n", "(genFromVectorInplace eps4 {n} {v})", "bind")])
    out.append(("def genFromVector (eps4 : Rat) (self : Tr) (vector : List Rat) : Except Err Tr :=",
                lambda: T(fv).function(_fn(Homogeneous, "from_vector"), {"self": "self", "vector": "vector"}, ind=1), STUB))
    q3 = R(expr=[("cls.init_identity(n_dims=$n)", "(identityTr cls {n})", "bind"), ("cls.init_identity($n)", "(identityTr cls {n})", "bind"),
                 ("$r.from_vector($q)", "(genFromVector eps4 {r} {q})", "bind")])
    out.append(("def genInit3dFromQuaternion (eps4 : Rat) (cls : Cls) (q : List Rat) : Except Err Tr :=",
                lambda: T(q3).function(_fn(Rotation, "init_3d_from_quaternion"), {"cls": "cls", "q": "q"}, ind=1), STUB))

    # ------------------------------------------------------------------ constructors and init_identity (guards on shapes)
    from menpo.transform import Similarity, Translation, UniformScale, NonUniformScale
    HS = "Except Err HState"
    shape_rules = [("$v.shape", "({v}.shape)"), ("$v.size", "({v}.size)"), ("len($s)", "({s}.length)"),
                   ("$s[$i]", "({s}.getD {i} 0)"), ("$x not in [2, 3]", "(!(({x}) == 2 || ({x}) == 3))"),
                   ("np.asarray($x)", "{x}"), ("np.eye($k)", "(ArrV.eye {k})")]
    seth = R(expr=[("$v.copy()", "{v}"), ("$s.h_matrix", "({s}.h)"), ("$s.n_dims", "({s}.nDimsI)"),
                   ("np.allclose($v[-1, :-1], 0)", "({v}.bottomZeros)"), ("np.allclose($v[-1, -1], 1)", "({v}.cornerOne)")]
             + shape_rules,
             stmt=[("$s._h_matrix = $v", "s", "({s}.withH {v})")], ret=".ok {self}", end=".ok {self}")
    out.append(("def genHomogeneousSetH (self : HState) (value : ArrV) (copy skipchecks : Bool) : %s :=" % HS,
                lambda: T(seth).function(_fn(Homogeneous, "_set_h_matrix"),
                                         {"self": "self", "value": "value", "copy": "copy", "skip_checks": "skipchecks"},
                                         ind=1, allow_unused=("skip_checks",)), STUB))
    out.append(("def genAffineSetH (self : HState) (value : ArrV) (copy skipchecks : Bool) : %s :=" % HS,
                lambda: T(seth).function(_fn(Affine, "_set_h_matrix"),
                                         {"self": "self", "value": "value", "copy": "copy", "skip_checks": "skipchecks"}, ind=1),
                STUB))

    def init_rules():
        return R(expr=shape_rules,
                 stmt=[("$s._h_matrix = None", "s", "({s}.clearH)"),
                       ("$s._set_h_matrix($m, copy=$c, skip_checks=$k)", "s",
                        "(setHDispatch genHomogeneousSetH genAffineSetH {s} {m} {c} {k})", "bind"),
                       ("Homogeneous.__init__($s, $m, copy=$c, skip_checks=$k)", "s", "(genHomogeneousInit {s} {m} {c} {k})", "bind"),
                       ("Affine.__init__($s, $m, copy=$c, skip_checks=$k)", "s", "(genAffineInit {s} {m} {c} {k})", "bind"),
                       ("Affine.__init__($s, $m, skip_checks=$k, copy=$c)", "s", "(genAffineInit {s} {m} {c} {k})", "bind"),
                       ("Similarity.__init__($s, $m, copy=$c, skip_checks=$k)", "s", "(genSimilarityInit {s} {m} {c} {k})", "bind"),
                       ("$s.set_rotation_matrix($m, skip_checks=$k)", "s", "(genRotationSetRotationMatrix {s} {m} {k})", "bind"),
                       ("$s._h_matrix[:-1, :-1] = $v", "s", "{s}"),
                       ("$m[:-1, -1] = $v", "m", "{m}"), ("$m[-1, -1] = 1", "m", "{m}"),
                       ("np.fill_diagonal($m, $v)", "m", "{m}")],
                 ret=".ok {self}", end=".ok {self}")
    four = {"self": "self", "h_matrix": "hmatrix", "copy": "copy", "skip_checks": "skipchecks"}
    out.append(("def genHomogeneousInit (self : HState) (hmatrix : ArrV) (copy skipchecks : Bool) : %s :=" % HS,
                lambda: T(init_rules()).function(_fn(Homogeneous, "__init__"), four, ind=1), STUB))
    out.append(("def genAffineInit (self : HState) (hmatrix : ArrV) (copy skipchecks : Bool) : %s :=" % HS,
                lambda: T(init_rules()).function(_fn(Affine, "__init__"), four, ind=1), STUB))
    out.append(("def genSimilarityInit (self : HState) (hmatrix : ArrV) (copy skipchecks : Bool) : %s :=" % HS,
                lambda: T(init_rules()).function(_fn(Similarity, "__init__"), four, ind=1), STUB))
    out.append(("def genTranslationInit (self : HState) (translation : ArrV) (skipchecks : Bool) : %s :=" % HS,
                lambda: T(init_rules()).function(_fn(Translation, "__init__"),
                                                 {"self": "self", "translation": "translation", "skip_checks": "skipchecks"}, ind=1),
                STUB))
    srm = R(expr=[("$s.n_dims", "({s}.nDimsI)")] + shape_rules, stmt=[("$s._h_matrix[:-1, :-1] = $v", "s", "{s}")],
            ret=".ok {self}", end=".ok {self}")
    out.append(("def genRotationSetRotationMatrix (self : HState) (value : ArrV) (skipchecks : Bool) : %s :=" % HS,
                lambda: T(srm).function(_fn(Rotation, "set_rotation_matrix"),
                                        {"self": "self", "value": "value", "skip_checks": "skipchecks"}, ind=1), STUB))
    out.append(("def genRotationInit (self : HState) (rotationmatrix : ArrV) (skipchecks : Bool) : %s :=" % HS,
                lambda: T(init_rules()).function(_fn(Rotation, "__init__"),
                                                 {"self": "self", "rotation_matrix": "rotationmatrix", "skip_checks": "skipchecks"},
                                                 ind=1), STUB))
    out.append(("def genUniformScaleInit (self : HState) (scale : ArrV) (ndims : Int) (skipchecks : Bool) : %s :=" % HS,
                lambda: T(init_rules()).function(_fn(UniformScale, "__init__"),
                                                 {"self": "self", "scale": "scale", "n_dims": "ndims", "skip_checks": "skipchecks"},
                                                 ind=1), STUB))
    out.append(("def genNonUniformScaleInit (self : HState) (scale : ArrV) (skipchecks : Bool) : %s :=" % HS,
                lambda: T(init_rules()).function(_fn(NonUniformScale, "__init__"),
                                                 {"self": "self", "scale": "scale", "skip_checks": "skipchecks"}, ind=1), STUB))

    def ident_rules():
        dh = T(R()).defaults(_fn(Homogeneous, "__init__"))
        dt = T(R()).defaults(_fn(Translation, "__init__"))
        dr = T(R()).defaults(_fn(Rotation, "__init__"))
        du = T(R()).defaults(_fn(UniformScale, "__init__"))
        dn = T(R()).defaults(_fn(NonUniformScale, "__init__"))
        for d, k in ((dh, "copy"), (dh, "skip_checks"), (dt, "skip_checks"), (dr, "skip_checks"), (du, "skip_checks"),
                     (dn, "skip_checks")):
            if k not in d:
                raise P.Untranslatable("constructor parameter `%s` lost its default" % k)
        return R(expr=[
            ("np.eye($k)", "(ArrV.eye {k})"), ("np.zeros($n)", "(ArrV.vec {n})"), ("np.ones($n)", "(ArrV.vec {n})"),
            ("Homogeneous($m)", "(genHomogeneousInit (HState.new Cls.homogeneous) {m} %s %s)" % (
                _bool(dh["copy"]), _bool(dh["skip_checks"])), "bind"),
            ("cls($m, copy=$c, skip_checks=$k)", "(clsInit (HState.new cls) {m} {c} {k})", "bind"),
            ("Translation($v)", "(genTranslationInit (HState.new Cls.translation) {v} %s)" % _bool(dt["skip_checks"]), "bind"),
            ("Rotation($m)", "(genRotationInit (HState.new Cls.rotation) {m} %s)" % _bool(dr["skip_checks"]), "bind"),
            ("UniformScale(1, $n)", "(genUniformScaleInit (HState.new Cls.uniformScale) ArrV.scalar {n} %s)" % _bool(du["skip_checks"]),
             "bind"),
            ("NonUniformScale($v)", "(genNonUniformScaleInit (HState.new Cls.nonUniformScale) {v} %s)" % _bool(dn["skip_checks"]),
             "bind")])
    for cname, klass, extra in (("Homogeneous", Homogeneous, ""), ("Affine", Affine, "genAffineInit"),
                                ("Similarity", Similarity, "genSimilarityInit"), ("Translation", Translation, ""),
                                ("Rotation", Rotation, ""), ("UniformScale", UniformScale, ""),
                                ("NonUniformScale", NonUniformScale, "")):
        def thunk(klass=klass, extra=extra, cname=cname):
            body = T(ident_rules()).function(_fn(klass, "init_identity"),
                                             {"cls": "Cls." + cname[0].lower() + cname[1:], "n_dims": "ndims"}, ind=1)
            lean_cls = "Cls." + cname[0].lower() + cname[1:]
            return body.replace("clsInit", extra).replace("(HState.new cls)", "(HState.new %s)" % lean_cls) if extra else body
        out.append(("def gen%sInitIdentity (ndims : Int) : %s :=" % (cname, HS), thunk, STUB))

    # ------------------------------------------------------------------ defaults of the option parameters
    def defaults_body():
        rows = []
        for owner, fn, param in (("Rotation.init_from_2d_ccw_angle", _fn(Rotation, "init_from_2d_ccw_angle"), "degrees"),
                                 ("Rotation.init_from_3d_ccw_angle_around_x", _fn(Rotation, "init_from_3d_ccw_angle_around_x"), "degrees"),
                                 ("Rotation.init_from_3d_ccw_angle_around_y", _fn(Rotation, "init_from_3d_ccw_angle_around_y"), "degrees"),
                                 ("Rotation.init_from_3d_ccw_angle_around_z", _fn(Rotation, "init_from_3d_ccw_angle_around_z"), "degrees"),
                                 ("Affine.init_from_2d_shear", _fn(Affine, "init_from_2d_shear"), "degrees"),
                                 ("rotate_ccw_about_centre", comp.rotate_ccw_about_centre, "degrees"),
                                 ("shear_about_centre", comp.shear_about_centre, "degrees"),
                                 ("Scale", sc.Scale, "n_dims"),
                                 ("PointCloud.bounds", _fn(PointCloud, "bounds"), "boundary")):
            rows.append('("%s", "%s", "%s")' % (owner, param, default_of(fn, param).replace('"', "'")))
        return "  [" + ",\n   ".join(rows) + "]"
    out.append(("def genDefaults : List (String × String × String) :=", defaults_body, "[]"))
    return out


HEADER = """/- TRANSLATED by harness/trans_c20.py (harness/py2lean2.py) from the SOURCE TEXT of the current working tree on every
   run of `./check C20`: compositions.py, the constructors of rotation.py, Affine.init_from_2d_shear, the Scale factory,
   tcoords.py, the centre methods.  Do not edit.  GenProps/C20Src.lean proves each definition equal to the Core
   definition the C20 theorems are about. -/
import MenpoModel.Core.C20Src
import MenpoModel.Core.PyLoop
set_option linter.unusedVariables false

namespace MenpoModel.Generated.C20
open MenpoModel.C20
"""
FOOTER = "end MenpoModel.Generated.C20\n"


def generated_files():
    """({relative path: text}, [reasons of the definitions that could not be translated])"""
    its = items()
    NAMES[:] = [sig.split()[1] for sig, _t, _s in its]
    text, reasons = P.translate_or_stub(its, HEADER, FOOTER)
    return {GEN_REL: text}, reasons


if __name__ == "__main__":
    import sys
    sys.path.insert(0, os.environ.get("MENPO_REPO", "/repo"))
    files, why = generated_files()
    print(files[GEN_REL])
    print("UNTRANSLATABLE:", why, file=sys.stderr)
