"""py2lean2t — generic extensions of harness/py2lean2.py (kept in a module of their own so that builders working on
py2lean2.py / py2lean2w.py at the same time are not disturbed; everything here is independent of any property).

The first half of this file (`Rules2W`, `Translator2W`) is a SNAPSHOT of harness/py2lean2w.py (nested defs, while loops with
fuel, for/else, tuple / pseudo-variable receivers of statement rules, guard and skip rules, hoisting of monadic operands,
`is None`, constant-folded `if`, attribute variables, keyword normalisation, loop-carried variables in scope order), taken
so that the committed C12 translation does not move when that module is developed further; the second half
(`Rules2T`, `Translator2T`) is new.

`Translator2T(Rules2T(...))` is a `Translator2W` that additionally translates

  try / except         `try: BODY except: HANDLER` (one handler; bare, or naming `Exception` / `BaseException` / a class the
                       rules list in `catch`; no `else`, no `finally`, no `as`).  Every operation of BODY that may fail (an
                       expression rule flagged "bind", a monadic statement rule, a guard, an explicit `raise`) leaves the
                       body for the handler: the handler runs in the variable bindings of the point of failure (the failed
                       statement has had no effect), then the statements after the `try`.  `return` inside BODY returns.
                       A failing operation inside a loop inside BODY is refused (the loop state is not monadic).
  a, b = <monadic>     tuple targets may be bound to a value that may fail (the value is hoisted first).
  call normalisation   `callees={source text of the called expression: (live function, bound, canonical name)}`: every call
                       of a registered callee is rewritten, before translation, into the ALL-KEYWORD form
                       `canonical(p1=.., p2=.., ...)` (keywords sorted), positional arguments being bound to parameter names
                       with the LIVE signature of the callee and missing arguments filled in with the source text of their
                       defaults (`bound=True`: the call is a bound-method call, the first parameter is supplied as
                       `self`).  A rule written once in keyword form then matches positional, keyword and mixed call sites,
                       a call site that passes an argument in the wrong position is translated as what Python does with
                       it, and a call that Python would reject (too many / duplicated / unknown arguments) is
                       untranslatable.
  normalisation        before translation (`normalise=True`, the default) the function text is brought to a canonical form, so that
                       behaviour-preserving clean-ups do not change the translation:
                         * helper inlining: `helpers={name | "self.name": live function}` - a statement `x = helper(...)`,
                           `a, b = helper(...)`, `return helper(...)` or a bare `helper(...)` whose call no rule matches is
                           replaced by the helper's body (parameters bound with the LIVE signature, the helper's locals
                           renamed, its final `return e` turned into the assignment); helpers with early returns are
                           left alone (and are then untranslatable unless a rule knows them);
                         * slice objects: a local bound once to `slice(a, b[, c])` and used only as a subscript is
                           replaced, where it is used, by the slice `a:b[:c]` it stands for;
                         * option dictionaries: a local bound once to `dict(k=v, ...)` / `{"k": v, ...}` and used only
                           as `**local` in calls is expanded into the keywords it stands for;
                       (a temporary is inlined only if it and every name its value mentions are bound exactly once, before
                       its first use).
  in-place on parameters  `refuse_inplace_params=True`: `p op= e` on a parameter is untranslatable (for an array it changes the
                       caller's object, which a value-passing translation cannot express) instead of the rebinding `p = p op e`.
  parameter order      `check_params(fn, [names...])` : the leading positional parameters of a live function must be the
                       listed ones, in that order (for callees that are called positionally through a variable).
"""



# =====================================================================================================================
# snapshot of harness/py2lean2w.py
# =====================================================================================================================

import ast
import copy as _copy

from .py2lean2 import Rules2, Translator2, _Ctx, _proj, _tuple, Untranslatable, source_ast, match, _pat  # noqa: F401


def _norm_kw(node):
    """sort the keyword arguments of every call (in place) so that their order does not matter for matching"""
    for n in ast.walk(node):
        if isinstance(n, ast.Call) and n.keywords:
            n.keywords.sort(key=lambda k: (k.arg is None, k.arg or ""))
    return node


class Rules2W(Rules2):
    def __init__(self, expr=(), stmt=(), guard=(), skip=(), inner=(), fuel="fuel", fuel_out=None,
                 unwrap=("none", None, "some {x}"), attr_vars=None, **kw):
        self.attr_vars = dict(attr_vars or {})
        self.stmt_flag = [(s[3] if len(s) > 3 else "") for s in stmt]
        Rules2.__init__(self, expr=expr, stmt=[s[:3] for s in stmt], **kw)
        self.guard = [(_pat(p, "stmt"), t) for p, t in guard]
        self.skip = [_pat(p, "stmt") for p in skip]
        self.inner = set(inner)
        self.fuel = fuel
        self.fuel_out = fuel_out
        self.unwrap = unwrap
        for p, _t, _f in self.expr:
            _norm_kw(p)
        for p, _r, _t in self.stmt:
            _norm_kw(p)
        for p, _t in self.guard:
            _norm_kw(p)
        for p in self.skip:
            _norm_kw(p)


class _AttrVars(ast.NodeTransformer):
    """`self.attr` -> the variable `var` for the attributes listed ({attr: var})"""

    def __init__(self, table):
        self.table = table

    def visit_Attribute(self, node):
        self.generic_visit(node)
        if isinstance(node.value, ast.Name) and node.value.id == "self" and node.attr in self.table:
            return ast.copy_location(ast.Name(id=self.table[node.attr], ctx=node.ctx), node)
        return node


def _literal(text):
    """truth value of a translated condition that is a literal, else None"""
    t = text.strip()
    for _ in range(8):
        if t.startswith("(") and t.endswith(")") and t[1:-1] in ("true", "false", "!true", "!false"):
            t = t[1:-1]
        if t == "!true":
            t = "false"
        if t == "!false":
            t = "true"
    return True if t == "true" else False if t == "false" else None


class Translator2W(Translator2):
    def __init__(self, rules):
        Translator2.__init__(self, rules)
        self._pending = []
        self._nohoist = 0
        self._tmp = 0

    # ------------------------------------------------------------------------------------------ helpers
    @staticmethod
    def fresh(name, scope):
        base = name.replace("_", "") or "u"
        if base[0].isdigit():
            base = "u" + base
        used = set(scope.values())
        k, cand = 0, base + "0"
        while cand in used:
            k += 1
            cand = "%s%d" % (base, k)
        return cand

    @staticmethod
    def _pyvars(scope):
        return {k: v for k, v in scope.items() if k.isidentifier()}

    def _fmt(self, tmpl, scope, **kw):
        d = self._pyvars(scope)
        d.update(kw)
        try:
            return tmpl.format(**d)
        except (KeyError, IndexError) as e:
            raise Untranslatable("template %r needs the python variable %s" % (tmpl, e))

    # ------------------------------------------------------------------------------------------ expressions
    def expr(self, node, scope):
        for i, (pat, tmpl, flag) in enumerate(self.r.expr):     # a rule always wins; templates may read python variables
            env = {}
            if match(pat, node, env):
                self.used_rules.add(i)
                return self._fmt(tmpl, scope, **{k: self.pure(v, scope) for k, v in env.items()}), flag
        if (isinstance(node, ast.Compare) and len(node.ops) == 1 and isinstance(node.ops[0], (ast.Is, ast.IsNot))
                and isinstance(node.comparators[0], ast.Constant) and node.comparators[0].value is None):
            x = self.pure(node.left, scope)
            neg = isinstance(node.ops[0], ast.IsNot)
            if x.strip("()") == "none":
                return ("false" if neg else "true"), ""
            if x.lstrip("(").startswith("some "):
                return ("true" if neg else "false"), ""
            return "(%s).%s" % (x, "isSome" if neg else "isNone"), ""
        return Translator2.expr(self, node, scope)

    def pure(self, node, scope):
        e, flag = self.expr(node, scope)
        if flag == "bind":
            if not self._pending or self._nohoist:
                raise Untranslatable("monadic expression where it cannot be hoisted: `%s`" % ast.unparse(node))
            tmp = "tmp%d" % self._tmp
            self._tmp += 1
            self._pending[-1].append((e, tmp))
            return tmp
        return e

    def comprehension(self, node, scope, kind):
        self._nohoist += 1
        try:
            return Translator2.comprehension(self, node, scope, kind)
        finally:
            self._nohoist -= 1

    # ------------------------------------------------------------------------------------------ statements
    def assigned_names(self, stmts):
        out = []

        def add(n):
            if n not in out:
                out.append(n)

        def tgt(t):
            if isinstance(t, ast.Name):
                add(t.id)
            elif isinstance(t, (ast.Tuple, ast.List)):
                for e in t.elts:
                    tgt(e)

        def walk(sts):
            for st in sts:
                matched = False
                for pat, recv, _t in self.r.stmt:
                    env = {}
                    if match(pat, st, env):
                        for r in (recv if isinstance(recv, (tuple, list)) else (recv,)):
                            if r.startswith("="):
                                add(r[1:])
                            elif isinstance(env[r], ast.Name):
                                add(env[r].id)
                        matched = True
                        break
                if matched:
                    continue
                if isinstance(st, ast.Assign):
                    for t in st.targets:
                        tgt(t)
                elif isinstance(st, ast.AugAssign):
                    tgt(st.target)
                elif isinstance(st, ast.If):
                    walk(st.body)
                    walk(st.orelse)
                elif isinstance(st, (ast.For, ast.While)):
                    if isinstance(st, ast.For):
                        tgt(st.target)
                    walk(st.body)
                    walk(st.orelse)
                elif isinstance(st, ast.FunctionDef):
                    if st.name not in self.r.inner:
                        raise Untranslatable("nested def `%s`" % st.name)
                elif isinstance(st, (ast.With, ast.Try, ast.ClassDef)):
                    raise Untranslatable("statement form `%s`" % ast.unparse(st).splitlines()[0])
        walk(stmts)
        order = getattr(self, "_scope_order", None)
        if order:   # loop-carried variables in the order in which they were introduced (parameters first), whatever
            pos = {n: i for i, n in enumerate(order)}      # the order of the statements in the loop body
            out.sort(key=lambda n: pos.get(n, len(pos)))
        return out

    def _may_raise(self, st):
        """does the statement (sub-statements included) contain a guard, a monadic statement rule or an operand that
        a rule flagged "bind" translates, i.e. an implicit `raise`?"""
        for n in ast.walk(st):
            if isinstance(n, ast.stmt):
                for pat, _t in self.r.guard:
                    if match(pat, n, {}):
                        return True
                for i, (pat, _r, _t) in enumerate(self.r.stmt):
                    if match(pat, n, {}):
                        if self.r.stmt_flag[i] == "bind":
                            return True
                        break
            elif isinstance(n, ast.expr):
                for pat, _t, flag in self.r.expr:
                    if match(pat, n, {}):
                        if flag == "bind":
                            return True
                        break
        return False

    def _has(self, stmts, kinds, into_loops):
        for st in stmts:
            if isinstance(st, kinds):
                return True
            if ast.Raise in (kinds if isinstance(kinds, tuple) else (kinds,)) and self._may_raise(st):
                return True
            if isinstance(st, ast.If) and (self._has(st.body, kinds, into_loops) or
                                           self._has(st.orelse, kinds, into_loops)):
                return True
            if isinstance(st, (ast.For, ast.While)) and into_loops and self._has(st.body, kinds, into_loops):
                return True
        return False

    def _unwrap(self, m, x, k, scope, ind, ctx):
        """`match m with | fail => exit | ok x => k` (k is already indented text)"""
        pad = "  " * ind
        fail_pat, fail_val, ok_pat = self.r.unwrap
        val = fail_val if fail_val is not None else self.r.raise_
        ex = ctx.exit(val, scope, 0).strip()
        return "%s(match %s with\n%s| %s => %s\n%s| %s =>\n%s)" % (pad, m, pad, fail_pat, ex, pad, ok_pat.format(x=x), k)

    def block(self, stmts, scope, ind, ctx):
        self._pending.append([])
        try:
            text = self._block1(stmts, scope, ind, ctx)
        finally:
            pend = self._pending.pop()
        for e, tmp in reversed(pend):
            text = self._unwrap(e, tmp, text, scope, ind, ctx)
        return text

    def _block1(self, stmts, scope, ind, ctx):
        pad = "  " * ind
        if not stmts:
            return ctx.end(scope, ind)
        st, rest = stmts[0], stmts[1:]
        if isinstance(st, (ast.Import, ast.ImportFrom)):
            return self.block(rest, scope, ind, ctx)
        if isinstance(st, ast.FunctionDef):
            if st.name not in self.r.inner:
                raise Untranslatable("nested def `%s`" % st.name)
            return self.block(rest, scope, ind, ctx)
        for pat in self.r.skip:
            if match(pat, st, {}):
                return self.block(rest, scope, ind, ctx)
        if isinstance(st, ast.If):
            c = self.pure(st.test, scope)
            v = _literal(c)
            if v is not None:
                return self.block(list(st.body if v else st.orelse) + rest, dict(scope), ind, ctx)
            a = self.block(list(st.body) + rest, dict(scope), ind + 1, ctx)
            b = self.block(list(st.orelse) + rest, dict(scope), ind + 1, ctx)
            return "%sif %s then\n%s\n%selse\n%s" % (pad, c, a, pad, b)
        if isinstance(st, ast.Return) and st.value is not None:
            e, flag = self.expr(st.value, scope)
            if flag == "bind":
                return ctx.exit(e, scope, ind)
            return ctx.exit(self._fmt(self.r.ret, scope, e=e), scope, ind)
        for pat, tmpl in self.r.guard:
            env = {}
            if match(pat, st, env):
                c = self._fmt(tmpl, scope, **{k: self.pure(v, scope) for k, v in env.items()})
                a = self.block(rest, dict(scope), ind + 1, ctx)
                b = ctx.exit(self.raise_value_of_guard(st), scope, ind + 1)
                return "%sif %s then\n%s\n%selse\n%s" % (pad, c, a, pad, b)
        for i, (pat, recv, tmpl) in enumerate(self.r.stmt):
            env = {}
            if match(pat, st, env):
                self.used_rules.add(("s", i))
                recvs = list(recv) if isinstance(recv, (tuple, list)) else [recv]
                names = []
                for r in recvs:
                    if r.startswith("="):
                        names.append(r[1:])
                    elif isinstance(env[r], ast.Name):
                        names.append(env[r].id)
                    else:
                        raise Untranslatable("in-place statement on a non-variable: `%s`" % ast.unparse(st))
                val = self._fmt(tmpl, scope, **{k: self.pure(v, scope) for k, v in env.items()})
                monadic = self.r.stmt_flag[i] == "bind"
                sc = dict(scope)
                lines = []
                if len(names) == 1 and not monadic:
                    new = self.fresh(names[0], sc)
                    sc[names[0]] = new
                    lines.append("let %s := %s" % (new, val))
                else:
                    p = self.fresh("p", sc)
                    sc["\0tmp" + p] = p
                    if not monadic:
                        lines.append("let %s := %s" % (p, val))
                    for j, nm in enumerate(names):
                        new = self.fresh(nm, sc)
                        sc[nm] = new
                        lines.append("let %s := %s" % (new, _proj(p, j, len(names))))
                if monadic:
                    k = "".join("  " * (ind + 1) + l + "\n" for l in lines) + self.block(rest, sc, ind + 1, ctx)
                    return self._unwrap(val, p, k, scope, ind, ctx)
                return "".join(pad + l + "\n" for l in lines) + self.block(rest, sc, ind, ctx)
        if isinstance(st, (ast.While, ast.For)):
            self._scope_order = [k for k in scope if k.isidentifier()]
        if isinstance(st, ast.While):
            return self.while_loop(st, rest, scope, ind, ctx)
        if isinstance(st, ast.For) and st.orelse:
            if self._has(st.body, (ast.Break,), False):
                raise Untranslatable("for/else with a break in the body")
            st2 = _copy.copy(st)
            st2.orelse = []
            return Translator2.block(self, [st2] + list(st.orelse) + rest, scope, ind, ctx)
        if isinstance(st, ast.Assign) and len(st.targets) == 1 and isinstance(st.targets[0], ast.Name):
            e, flag = self.expr(st.value, scope)
            if flag == "bind":
                new = self.fresh(st.targets[0].id, scope)
                sc = dict(scope)
                sc[st.targets[0].id] = new
                return self._unwrap(e, new, self.block(rest, sc, ind + 1, ctx), scope, ind, ctx)
        return Translator2.block(self, stmts, scope, ind, ctx)

    def raise_value_of_guard(self, st):
        return self.r.raise_

    # ------------------------------------------------------------------------------------------ while
    def while_loop(self, st, rest, scope, ind, ctx):
        pad = "  " * ind
        if st.orelse:
            raise Untranslatable("while/else")
        carried = [n for n in self.assigned_names(st.body) if n in scope]
        has_exit = self._has(st.body, (ast.Return, ast.Raise, ast.Assert), True)
        has_brk = self._has(st.body, (ast.Break,), False)
        comps = (["\0ret"] if has_exit else []) + (["\0brk"] if has_brk else []) + carried
        if not comps:
            raise Untranslatable("while loop without any effect on the variables in scope")
        n = len(comps)
        sc0 = dict(scope)
        acc = self.fresh("acc", sc0)
        sc0["\0tmp" + acc] = acc
        lines, sc = [], dict(sc0)
        for c in carried:
            new = self.fresh(c, sc)
            sc[c] = new
            lines.append("let %s := %s" % (new, _proj(acc, comps.index(c), n)))

        def state(scope_, ret="none", brk="false"):
            parts = []
            if has_exit:
                parts.append(ret)
            if has_brk:
                parts.append(brk)
            parts += [scope_[c] for c in carried]
            return _tuple(parts)

        self._nohoist += 1
        try:
            cond = self.pure(st.test, sc)
        finally:
            self._nohoist -= 1
        guard = []
        if has_exit:
            guard.append("!(%s).isSome" % _proj(acc, 0, n))
        if has_brk:
            guard.append("!%s" % _proj(acc, 1 if has_exit else 0, n))
        lets = "; ".join(lines) + "; " if lines else ""
        cond_fn = "(fun %s => %s%s)" % (acc, lets, " && ".join(guard + [cond]))
        inner = _Ctx(exit_=lambda v, s, i: "  " * i + state(s, ret="some (%s)" % v),
                     end=lambda s, i: "  " * i + state(s),
                     brk=lambda s, i: "  " * i + state(s, brk="true"))
        body = self.block(list(st.body), sc, ind + 2, inner)
        p3 = "  " * (ind + 2)
        text = "".join(p3 + l + "\n" for l in lines) + body
        res = self.fresh("r", sc0)
        after = dict(scope)
        after["\0tmp" + res] = res
        fo = self.r.fuel_out if self.r.fuel_out is not None else self.r.raise_
        out = "%s(match MenpoModel.Py.whileFuel (%s) %s %s (fun %s =>\n%s) with\n%s| none => %s\n%s| some %s =>\n" % (
            pad, self.r.fuel, state(scope), cond_fn, acc, text, pad, ctx.exit(fo, scope, 0).strip(), pad, res)
        p1 = "  " * (ind + 1)
        for c in carried:
            new = self.fresh(c, after)
            after[c] = new
            out += "%slet %s := %s\n" % (p1, new, _proj(res, comps.index(c), n))
        k = self.block(rest, after, ind + (2 if has_exit else 1), ctx)
        if has_exit:
            v = self.fresh("v", after)
            sc_v = dict(after)
            sc_v["\0tmp" + v] = v
            return "%s%smatch %s with\n%s| some %s =>\n%s\n%s| none =>\n%s)" % (
                out, p1, _proj(res, 0, n), p1, v, ctx.exit(v, sc_v, ind + 3), p1, k)
        return out + k + ")"

    # ------------------------------------------------------------------------------------------ functions
    def top_ctx(self):
        def end(scope, ind):
            if self.r.end is None:
                raise Untranslatable("control reaches the end of the function without return/raise")
            return "  " * ind + self._fmt(self.r.end, scope)
        return _Ctx(exit_=lambda v, s, i: "  " * i + v, end=end)

    def function_node(self, node, arg_names, ind=2, allow_unused=()):
        """as `function`, for an ast.FunctionDef (keyword arguments normalised)"""
        node = _norm_kw(_copy.deepcopy(node))
        if self.r.attr_vars:
            node = _AttrVars(self.r.attr_vars).visit(node)
            ast.fix_missing_locations(node)
        a = node.args
        params = [x.arg for x in a.posonlyargs + a.args + a.kwonlyargs]
        if a.vararg:
            params.append(a.vararg.arg)
        if a.kwarg:
            params.append(a.kwarg.arg)
        mentioned = {n.id for st in node.body for n in ast.walk(st) if isinstance(n, ast.Name)}
        for p in params:
            if p not in arg_names and not (p in allow_unused and p not in mentioned):
                raise Untranslatable("signature of %s changed: %s" % (node.name, ast.unparse(node.args)))
        for p in arg_names:
            if p not in params:
                raise Untranslatable("signature of %s changed: no parameter %r" % (node.name, p))
        return self.block(list(node.body), dict(arg_names), ind, self.top_ctx())

    def function(self, fn, arg_names, ind=2, allow_unused=()):
        node, _src = source_ast(fn)
        return self.function_node(node, arg_names, ind, allow_unused)

    @staticmethod
    def nested(fn, name):
        """the ast.FunctionDef of the def `name` directly inside the body of `fn`"""
        node, _src = source_ast(fn)
        for st in node.body:
            if isinstance(st, ast.FunctionDef) and st.name == name:
                return st
        raise Untranslatable("no nested def %r in %s" % (name, node.name))

    def defaults_node(self, node):
        a = node.args
        pos = a.posonlyargs + a.args
        out = {}
        for p, d in zip(pos[len(pos) - len(a.defaults):], a.defaults):
            out[p.arg] = ast.unparse(d)
        for p, d in zip(a.kwonlyargs, a.kw_defaults):
            if d is not None:
                out[p.arg] = ast.unparse(d)
        return out


# =====================================================================================================================
# new in this module
# =====================================================================================================================

CATCH_ALL = ("Exception", "BaseException")


class _EndTry(ast.stmt):
    """marker statement: the protected region of the innermost `try` ends here"""
    _fields = ()


class Rules2T(Rules2W):
    def __init__(self, expr=(), stmt=(), catch=(), callees=None, helpers=None, normalise=True, refuse_inplace_params=False,
                 **kw):
        Rules2W.__init__(self, expr=expr, stmt=stmt, **kw)
        # `p op= e` on a PARAMETER mutates the caller's object when it is an array: the value-passing translation cannot
        # say that, so (when asked to) it refuses instead of translating it as the rebinding `p = p op e`
        self.refuse_inplace_params = refuse_inplace_params
        self.catch = set(catch) | set(CATCH_ALL)
        self.callees = dict(callees or {})
        self.helpers = dict(helpers or {})
        self.normalise = normalise


# ---------------------------------------------------------------------------------------------- normalisation

def _bound_names(fnode):
    """{name: number of binding occurrences} in a function (parameters count once)"""
    cnt = {}

    def add(n):
        cnt[n] = cnt.get(n, 0) + 1

    def tgt(t):
        if isinstance(t, ast.Name):
            add(t.id)
        elif isinstance(t, (ast.Tuple, ast.List)):
            for e in t.elts:
                tgt(e)
        elif isinstance(t, ast.Starred):
            tgt(t.value)
    a = fnode.args
    for x in a.posonlyargs + a.args + a.kwonlyargs + ([a.vararg] if a.vararg else []) + ([a.kwarg] if a.kwarg else []):
        add(x.arg)
    for n in ast.walk(fnode):
        if isinstance(n, ast.Assign):
            for t in n.targets:
                tgt(t)
        elif isinstance(n, (ast.AugAssign, ast.AnnAssign)):
            tgt(n.target)
        elif isinstance(n, (ast.For, ast.comprehension)):
            tgt(n.target)
        elif isinstance(n, ast.NamedExpr):
            tgt(n.target)
        elif isinstance(n, ast.ExceptHandler) and n.name:
            add(n.name)
        elif isinstance(n, (ast.With,)):
            for it in n.items:
                if it.optional_vars is not None:
                    tgt(it.optional_vars)
        elif isinstance(n, (ast.FunctionDef, ast.ClassDef)) and n is not fnode:
            add(n.name)
        elif isinstance(n, (ast.Import, ast.ImportFrom)):
            for al in n.names:
                add((al.asname or al.name).split(".")[0])
    return cnt


def _binding_line(fnode, name):
    for n in ast.walk(fnode):
        if isinstance(n, ast.Assign) and any(isinstance(t, ast.Name) and t.id == name for t in n.targets):
            return n.lineno
    return 0            # a parameter


def _slice_of_call(call):
    """the ast.Slice that `slice(...)` denotes, or None"""
    if call.keywords or not 1 <= len(call.args) <= 3 or any(isinstance(x, ast.Starred) for x in call.args):
        return None
    args = [None if (isinstance(x, ast.Constant) and x.value is None) else x for x in call.args]
    if len(args) == 1:
        lo, hi, st = None, args[0], None
    elif len(args) == 2:
        lo, hi, st = args[0], args[1], None
    else:
        lo, hi, st = args
    return ast.Slice(lower=lo, upper=hi, step=st)


def _dict_keywords(value):
    """[(key, value ast)] of `dict(k=v, ...)` / `{"k": v, ...}`, or None"""
    if isinstance(value, ast.Call) and isinstance(value.func, ast.Name) and value.func.id == "dict" and not value.args \
            and all(k.arg is not None for k in value.keywords):
        return [(k.arg, k.value) for k in value.keywords]
    if isinstance(value, ast.Dict) and all(isinstance(k, ast.Constant) and isinstance(k.value, str) and k.value.isidentifier()
                                           for k in value.keys):
        return [(k.value, v) for k, v in zip(value.keys, value.values)]
    return None


def inline_temporaries(fnode):
    """slice objects and option dictionaries held in single-assignment locals are put back where they are used"""
    cnt = _bound_names(fnode)
    cands = {}
    for n in ast.walk(fnode):
        if isinstance(n, ast.Assign) and len(n.targets) == 1 and isinstance(n.targets[0], ast.Name):
            t = n.targets[0].id
            if cnt.get(t) != 1:
                continue
            kind = None
            if isinstance(n.value, ast.Call) and isinstance(n.value.func, ast.Name) and n.value.func.id == "slice" \
                    and cnt.get("slice", 0) == 0 and _slice_of_call(n.value) is not None:
                kind = "slice"
            elif _dict_keywords(n.value) is not None and cnt.get("dict", 0) == 0:
                kind = "dict"
            if kind is None:
                continue
            free = {x.id for x in ast.walk(n.value) if isinstance(x, ast.Name)} - {"slice", "dict"}
            if all(cnt.get(x, 0) <= 1 and _binding_line(fnode, x) <= n.lineno for x in free if cnt.get(x, 0)):
                cands[t] = (kind, n)
    if not cands:
        return fnode
    # every use must be of the right kind and come after the binding
    uses_ok = {t: True for t in cands}
    parents = {}
    for n in ast.walk(fnode):
        for c in ast.iter_child_nodes(n):
            parents[c] = n
    for n in ast.walk(fnode):
        if isinstance(n, ast.Name) and n.id in cands and isinstance(n.ctx, ast.Load):
            kind, asg = cands[n.id]
            par = parents.get(n)
            ok = getattr(n, "lineno", 0) > asg.lineno
            if kind == "slice":
                gp = parents.get(par)
                ok = ok and ((isinstance(par, ast.Subscript) and par.slice is n) or
                             (isinstance(par, ast.Tuple) and isinstance(gp, ast.Subscript) and gp.slice is par))
            else:
                ok = ok and isinstance(par, ast.keyword) and par.arg is None and par.value is n
            if not ok:
                uses_ok[n.id] = False
    good = {t for t in cands if uses_ok[t]}
    if not good:
        return fnode

    class Sub(ast.NodeTransformer):
        def visit_Subscript(self, node):
            self.generic_visit(node)

            def rep(e):
                if isinstance(e, ast.Name) and e.id in good and cands[e.id][0] == "slice":
                    return _copy.deepcopy(_slice_of_call(cands[e.id][1].value))
                return e
            if isinstance(node.slice, ast.Tuple):
                node.slice = ast.Tuple(elts=[rep(e) for e in node.slice.elts], ctx=ast.Load())
            else:
                node.slice = rep(node.slice)
            return node

        def visit_Call(self, node):
            self.generic_visit(node)
            kws = []
            for k in node.keywords:
                if k.arg is None and isinstance(k.value, ast.Name) and k.value.id in good and cands[k.value.id][0] == "dict":
                    kws += [ast.keyword(arg=a, value=_copy.deepcopy(v)) for a, v in _dict_keywords(cands[k.value.id][1].value)]
                else:
                    kws.append(k)
            node.keywords = kws
            return node

        def visit_Assign(self, node):
            if any(node is cands[t][1] for t in good):
                return None
            return self.generic_visit(node)
    out = Sub().visit(fnode)
    ast.fix_missing_locations(out)
    return out


def _helper_parts(hnode):
    """(body statements without docstring and final return, returned expression or None) of a helper that returns only at
    its end; None if it cannot be inlined"""
    body = list(hnode.body)
    if body and isinstance(body[0], ast.Expr) and isinstance(body[0].value, ast.Constant) and isinstance(body[0].value.value, str):
        body = body[1:]
    ret = None
    if body and isinstance(body[-1], ast.Return):
        ret = body[-1].value
        body = body[:-1]
    for st in body:
        for n in ast.walk(st):
            if isinstance(n, (ast.Return, ast.Yield, ast.YieldFrom, ast.Global, ast.Nonlocal, ast.FunctionDef, ast.Lambda,
                              ast.ClassDef)):
                return None
    a = hnode.args
    if a.vararg or a.kwarg or a.posonlyargs:
        return None
    return body, ret


class _Rename(ast.NodeTransformer):
    def __init__(self, table):
        self.table = table

    def visit_Name(self, node):
        if node.id in self.table:
            return ast.copy_location(ast.Name(id=self.table[node.id], ctx=node.ctx), node)
        return node


def inline_helpers(fnode, helpers, ruled, depth=4):
    """statements that call a helper (`x = h(..)`, `a, b = h(..)`, `return h(..)`, `h(..)`) are replaced by its body;
    `ruled(call, stmt)` says that a rule of the vocabulary already knows the call"""
    if not helpers or depth == 0:
        return fnode
    counter = [0]
    changed = [False]

    def expand(st):
        call = None
        if isinstance(st, ast.Assign) and len(st.targets) == 1 and isinstance(st.value, ast.Call):
            call = st.value
        elif isinstance(st, ast.Return) and isinstance(st.value, ast.Call):
            call = st.value
        elif isinstance(st, ast.Expr) and isinstance(st.value, ast.Call):
            call = st.value
        if call is None:
            return None
        key = ast.unparse(call.func)
        if key not in helpers or ruled(call, st):
            return None
        hnode, _src = source_ast(helpers[key])
        parts = _helper_parts(hnode)
        if parts is None:
            return None
        body, ret = parts
        bound = key.startswith("self.")
        try:
            norm = normalise_call(call, helpers[key], bound, "h")
        except Untranslatable:
            return None
        counter[0] += 1
        prefix = "%s_%d_" % (hnode.name.strip("_"), counter[0])
        cnt = _bound_names(hnode)
        table = {n: prefix + n for n in cnt if not (bound and n == "self")}
        out = []
        for kw in norm.keywords:
            if bound and kw.arg == "self":
                continue
            out.append(ast.Assign(targets=[ast.Name(id=table[kw.arg], ctx=ast.Store())], value=kw.value))
        ren = _Rename(table)
        out += [ren.visit(_copy.deepcopy(b)) for b in body]
        rv = ren.visit(_copy.deepcopy(ret)) if ret is not None else ast.Constant(value=None)
        if isinstance(st, ast.Assign):
            out.append(ast.Assign(targets=st.targets, value=rv))
        elif isinstance(st, ast.Return):
            out.append(ast.Return(value=rv))
        for o in out:
            ast.copy_location(o, st)
            for sub in ast.walk(o):
                if not hasattr(sub, "lineno"):
                    ast.copy_location(sub, st)
                else:
                    sub.lineno = st.lineno
        changed[0] = True
        return out

    def walk(stmts):
        res = []
        for st in stmts:
            rep = expand(st)
            if rep is not None:
                res += rep
                continue
            for f in ("body", "orelse", "finalbody"):
                if hasattr(st, f) and isinstance(getattr(st, f), list) and not isinstance(st, (ast.FunctionDef, ast.ClassDef)):
                    setattr(st, f, walk(getattr(st, f)))
            if isinstance(st, ast.Try):
                for h in st.handlers:
                    h.body = walk(h.body)
            res.append(st)
        return res
    fnode.body = walk(fnode.body)
    ast.fix_missing_locations(fnode)
    if changed[0]:
        return inline_helpers(fnode, helpers, ruled, depth - 1)
    return fnode


def check_params(fn, names):
    node, _src = source_ast(fn)
    a = node.args
    pos = [x.arg for x in a.posonlyargs + a.args]
    if pos[:len(names)] != list(names):
        raise Untranslatable("parameter order of %s changed: %s" % (node.name, ", ".join(pos)))


def normalise_call(node, fn, bound, canonical):
    """the all-keyword form of the call `node` of the live function `fn` (an ast.Call), or Untranslatable"""
    fnode, _src = source_ast(fn)
    a = fnode.args
    if a.vararg or a.kwarg or a.posonlyargs:
        raise Untranslatable("callee %s has *args / **kwargs / positional-only parameters" % fnode.name)
    pos = [x.arg for x in a.args]
    kwonly = [x.arg for x in a.kwonlyargs]
    defaults = {}
    for p, d in zip(pos[len(pos) - len(a.defaults):], a.defaults):
        defaults[p] = d
    for p, d in zip(kwonly, a.kw_defaults):
        if d is not None:
            defaults[p] = d
    if any(isinstance(x, ast.Starred) for x in node.args) or any(k.arg is None for k in node.keywords):
        raise Untranslatable("call with * / ** arguments: `%s`" % ast.unparse(node))
    args = list(node.args)
    if bound:
        args = [ast.Name(id="self", ctx=ast.Load())] + args
    if len(args) > len(pos):
        raise Untranslatable("too many positional arguments: `%s`" % ast.unparse(node))
    got = {}
    for p, v in zip(pos, args):
        got[p] = v
    for k in node.keywords:
        if k.arg in got:
            raise Untranslatable("argument %r given twice: `%s`" % (k.arg, ast.unparse(node)))
        if k.arg not in pos and k.arg not in kwonly:
            raise Untranslatable("unknown keyword %r: `%s`" % (k.arg, ast.unparse(node)))
        got[k.arg] = k.value
    for p in pos + kwonly:
        if p not in got:
            if p not in defaults:
                raise Untranslatable("missing argument %r: `%s`" % (p, ast.unparse(node)))
            got[p] = _copy.deepcopy(defaults[p])
    call = ast.Call(func=ast.Name(id=canonical, ctx=ast.Load()), args=[],
                    keywords=[ast.keyword(arg=p, value=got[p]) for p in sorted(got)])
    return ast.copy_location(call, node)


class _Callees(ast.NodeTransformer):
    def __init__(self, table):
        self.table = table

    def visit_Call(self, node):
        self.generic_visit(node)
        key = ast.unparse(node.func)
        if key in self.table:
            fn, bound, canonical = self.table[key]
            return normalise_call(node, fn, bound, canonical)
        return node


class Translator2T(Translator2W):
    def __init__(self, rules):
        Translator2W.__init__(self, rules)
        self._handlers = []       # innermost last: callable (scope, ind) -> text, or False (inside a loop of a try body)

    # ------------------------------------------------------------------------------------------ failure
    def _handler(self):
        return self._handlers[-1] if self._handlers else None

    def _unwrap(self, m, x, k, scope, ind, ctx):
        h = self._handler()
        if h is None:
            return Translator2W._unwrap(self, m, x, k, scope, ind, ctx)
        if h is False:
            raise Untranslatable("operation that may fail inside a loop inside a try body")
        pad = "  " * ind
        fail_pat, _fail_val, ok_pat = self.r.unwrap
        return "%s(match %s with\n%s| %s =>\n%s\n%s| %s =>\n%s)" % (
            pad, m, pad, fail_pat, h(scope, ind + 1), pad, ok_pat.format(x=x), k)

    def loop(self, st, rest, scope, ind, ctx):
        if self._handlers and self._handlers[-1] is not False:
            # the loop body is outside the reach of the handler; what follows the loop is inside again
            return self._loop_in_try(Translator2W.loop, st, rest, scope, ind, ctx)
        return Translator2W.loop(self, st, rest, scope, ind, ctx)

    def while_loop(self, st, rest, scope, ind, ctx):
        if self._handlers and self._handlers[-1] is not False:
            return self._loop_in_try(Translator2W.while_loop, st, rest, scope, ind, ctx)
        return Translator2W.while_loop(self, st, rest, scope, ind, ctx)

    def _loop_in_try(self, base, st, rest, scope, ind, ctx):
        if self._has(st.body, (ast.Return, ast.Raise, ast.Assert), True):
            raise Untranslatable("loop that may exit or fail inside a try body")
        return base(self, st, rest, scope, ind, ctx)

    # ------------------------------------------------------------------------------------------ statements
    def _block1(self, stmts, scope, ind, ctx):
        if not stmts:
            return ctx.end(scope, ind)
        st, rest = stmts[0], stmts[1:]
        if isinstance(st, _EndTry):
            saved = self._handlers.pop()
            try:
                return self.block(rest, scope, ind, ctx)
            finally:
                self._handlers.append(saved)
        if isinstance(st, ast.Try):
            return self.try_stmt(st, rest, scope, ind, ctx)
        if (isinstance(st, ast.AugAssign) and isinstance(st.target, ast.Name) and getattr(self.r, "refuse_inplace_params", False)
                and st.target.id in getattr(self, "_params", ()) and not any(match(pat, st, {}) for pat, _r, _t in self.r.stmt)):
            raise Untranslatable("in-place operator on the parameter `%s` (it would change the caller's object; aliasing is "
                                 "outside the value-passing model)" % st.target.id)
        if isinstance(st, ast.Raise) and self._handler() is not None:
            h = self._handler()
            if h is False:
                raise Untranslatable("raise inside a loop inside a try body")
            return h(scope, ind)
        if (isinstance(st, ast.Assign) and len(st.targets) == 1 and isinstance(st.targets[0], (ast.Tuple, ast.List))
                and all(isinstance(e, ast.Name) for e in st.targets[0].elts)
                and not any(match(pat, st, {}) for pat, _r, _t in self.r.stmt)):
            e = self.pure(st.value, scope)
            lines, sc = self.bind_target(st.targets[0], e, scope)
            pad = "  " * ind
            return "".join(pad + l + "\n" for l in lines) + self.block(rest, sc, ind, ctx)
        return Translator2W._block1(self, stmts, scope, ind, ctx)

    def try_stmt(self, st, rest, scope, ind, ctx):
        if st.orelse or st.finalbody:
            raise Untranslatable("try with else / finally")
        if len(st.handlers) != 1:
            raise Untranslatable("try with %d handlers" % len(st.handlers))
        h = st.handlers[0]
        if h.name is not None:
            raise Untranslatable("except ... as %s" % h.name)
        if h.type is not None:
            names = [h.type] if not isinstance(h.type, ast.Tuple) else list(h.type.elts)
            for t in names:
                nm = t.id if isinstance(t, ast.Name) else t.attr if isinstance(t, ast.Attribute) else None
                if nm not in self.r.catch:
                    raise Untranslatable("handler for `%s`" % ast.unparse(t))

        def handler(sc, i):
            # the handler itself (and what follows the try) runs outside the protected region
            saved = self._handlers.pop()
            try:
                return self.block(list(h.body) + rest, dict(sc), i, ctx)
            finally:
                self._handlers.append(saved)

        self._handlers.append(handler)
        try:
            return self.block(list(st.body) + [_EndTry()] + rest, scope, ind, ctx)
        finally:
            self._handlers.pop()

    # ------------------------------------------------------------------------------------------ functions
    def _ruled(self, call, st):
        c = _norm_kw(_copy.deepcopy(call))
        if any(match(pat, c, {}) for pat, _t, _f in self.r.expr):
            return True
        s2 = _norm_kw(_copy.deepcopy(st))
        return any(match(pat, s2, {}) for pat, _r, _t in self.r.stmt) or any(match(pat, s2, {}) for pat, _t in self.r.guard)

    def function_node(self, node, arg_names, ind=2, allow_unused=()):
        node = _copy.deepcopy(node)
        a = node.args
        self._params = {x.arg for x in a.posonlyargs + a.args + a.kwonlyargs}
        if getattr(self.r, "normalise", False):
            node = inline_helpers(node, self.r.helpers, self._ruled)
            node = inline_temporaries(node)
        if self.r.callees:
            node = _Callees(self.r.callees).visit(node)
            ast.fix_missing_locations(node)
        return Translator2W.function_node(self, node, arg_names, ind, allow_unused)
