"""Per-property metadata: every harness/cXX.py defines INFO = dict(technique, level_text, level_note, rule,
partial, assumptions, design_ref).  Collected here for the evidence writer and tools/gen_manifest.py."""
import glob
import importlib
import os


class _Info(dict):
    def _load(self):
        if self.get("__loaded"):
            return
        dict.__setitem__(self, "__loaded", True)
        here = os.path.dirname(os.path.abspath(__file__))
        for p in sorted(glob.glob(os.path.join(here, "c[0-9][0-9].py"))):
            name = os.path.basename(p)[:-3]
            mod = importlib.import_module("harness." + name)
            if hasattr(mod, "INFO"):
                dict.__setitem__(self, name.upper(), mod.INFO)

    def get(self, k, d=None):
        if k != "__loaded":
            self._load()
        return dict.get(self, k, d)


INFO = _Info()
