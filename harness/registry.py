"""Per-property metadata shared by the checks (evidence) and tools/gen_manifest.py (MANIFEST.json)."""

INFO = {}


def reg(pid, **kw):
    INFO[pid] = kw


reg("C19",
    technique="Lean 4 proof (refinement of every lazy-list program to ordinary lists, by induction over programs) "
              "+ model/implementation correspondence on random programs",
    level_text="Theorems over an executable model of LazyList: for every program built from map (both forms), "
               "int/negative/slice/fancy indexing, repeat, +, copy, to any depth, the lazy result evaluates to the "
               "ordinary-list result (errors included), construction consults no callable, and a read evaluates "
               "exactly the element's dependency chain.  The model is tied to /repo by running the real LazyList "
               "with instrumented callables on random programs and diffing values, lengths, error kinds and "
               "per-read evaluation logs against the Lean driver; an independent ordinary-list oracle decides "
               "the property on the real code.",
    level_note="Trusted: Lean kernel; axioms propext/Classical.choice/Quot.sound; the Python harness and the "
               "driver's parser; CPython list/slice semantics are modelled (Core/PyData.lean) and exercised by the "
               "correspondence, not verified.  Receivers-unchanged is a value-model fact plus a check on real objects.",
    rule="random programs (depth<=8, base lists of length 0..7, all constructors, all index container kinds); a case "
         "is one program; distinct = distinct token sequence; non-trivial = depth >= 2",
    partial=["receivers-unchanged is proved in the value model only; aliasing between the Python lists is observed "
             "on the real objects (every intermediate list re-read after all later operations)"],
    assumptions=["callables are deterministic functions of their argument (instrumented test callables)"],
    design_ref="DESIGN.md section 6, C19")
