"""C15 — labelled groups select exactly what labels say, in deterministic order; the 33 predefined index-based
labellers only re-index (DESIGN.md section 6, C15; section 7 #13, #14).

Parties per case:
  * the real `menpo.shape.LabelledPointUndirectedGraph` / the real functions of `menpo.landmark`,
  * the property oracle `expect()` / `labeller_oracle()`: the property text as predicates over the real objects
    (plain Python lists and sets, independent of the Lean model),
  * the Lean model (Core/C15.lean, Core/C15Entry.lean) executed by the driver on the observed state before each
    operation, on the labeller tables regenerated from the live functions (Generated/C15Labellers.lean) for every
    labeller call (`LabFunc.call`, per input kind) and on whole `labeller()` histories of a landmark manager
    (`relabelMany`); the constructors (`construct`, `initFromIndices`, `initWithAllLabel`) on malformed recipes.
Regenerated on every run with `decide` obligations (GenProps/C15.lean): the labeller tables, the resolution table (what
each labeller does per input kind / `return_mapping`, Generated/C15Resolution.lean) and two ast scans of the anchored
sources (harness/scan_c15.py, Generated/C15Scan.lean).
Hash-seed determinism is observed where it can be: a fixed battery (operations, every labeller, `labeller()`) is re-run
in separate interpreter processes with different PYTHONHASHSEED and the outputs are diffed.
"""
import json
import os
import subprocess
import sys

from . import common
from . import extract_c15

PROP = "C15"
INFO = dict(
    technique="Lean 4 proof (selection exactness by the masking index lemma, selection characterised exactly under the "
              "code's guards incl. every error branch, coverage invariant by induction over operation sequences, "
              "name-opacity: every operation sequence commutes with every injective renaming of the labels, labellers as "
              "`gather` with a well-formedness obligation, `labeller_func`'s wrapper and `labeller()` on a landmark "
              "manager with an invariant over histories of calls) + tables regenerated from the live code on every run "
              "with `decide +kernel` obligations (33 labeller tables, 33 resolution rows: what each labeller does per "
              "input kind and per `return_mapping`, two ast scans: set-iteration sites, what each labelling function does "
              "with its argument) + SOURCE-TEXT TRANSLATION on every run (harness/trans_c15.py over harness/py2lean2.py): "
              "menpo/shape/labelled.py (labels, _verify_all_labels_masked, __init__, copy, _new_group_with_only_labels, "
              "with_labels, without_labels, get_label, add_label, remove_label, indices_to_masks, "
              "init_from_indices_mapping, init_with_all_label), PointUndirectedGraph.from_mask, "
              "menpo/landmark/labels/base.py (validate_input, connectivity_from_array, connectivity_from_range, "
              "pcloud_and_lgroup_from_ranges, labeller_func's wrapper) and the bodies of all 33 index-based labelling "
              "functions (faces, eyes, hands, poses, cars, tongue) are rewritten from the source text of the current tree "
              "into Lean (Generated/C15Src.lean, Generated/C15SrcLab.lean) and proved equal to the Core definitions for all "
              "arguments (GenProps/C15Src.lean: unfold + case split + simp_all, loops through a fold lemma; per labeller "
              "GenProps/C15SrcLab*.lean: commutes with every map of the points and refuses other sizes by unfolding, equals "
              "the PROBED table on the index-encoding probe by `decide +kernel`, hence on every input) "
              "+ model/implementation correspondence, an independent property oracle, and a battery "
              "re-run in separate interpreter processes with different PYTHONHASHSEED",
    level_text="Theorems over an executable model of LabelledPointUndirectedGraph (with_labels, without_labels — both with "
               "the str-or-list argument —, get_label, add_label, remove_label, the constructor's coverage check, "
               "from_mask with its all-true shortcut): a selection succeeds iff every requested label exists, the request "
               "is not empty and a point lies under a requested label, and then returns exactly the points under the "
               "requested labels in their original order, exactly the edges among them renumbered, each requested label "
               "with its mask restricted, labels in request order (with_labels; permuted / duplicated requests return the "
               "same points, edges and masks) / original order (without_labels, remove_label, add_label); every way a "
               "selection raises is characterised for the model (unknown label, empty "
               "request = without_labels of every label, no point selected; the exception KINDS the model carries are "
               "those of the current code and are not demanded of the implementation: the property text only says "
               "refused); unknown names in an exclusion list are "
               "ignored; the constructors (plain, from an index mapping, with the all label) succeed iff every mask has "
               "the length of the points and every point is covered — a group with an unlabelled point cannot be built; "
               "every succeeding operation sequence keeps every point labelled; every operation sequence "
               "commutes with every injective renaming of the labels (no dependence on hashes or name comparison).  "
               "`without_labels` as coded before the repair (label order = set iteration order) and `add_label` as coded "
               "before the repair are refuted by kernel-checked witnesses and the repaired behaviour is proved.  Every "
               "labeller whose regenerated table satisfies `labellerWF` (33 kernel-decided obligations, re-checked "
               "against the live functions on every run) returns distinct input points, labels every output point, "
               "commutes with every map of the points, rejects every other input size, and its result reproduces the "
               "table on every input (label masks, points under each label, connectivity through the index list); that "
               "the wrapper treats arrays, point clouds, labelled graphs and manager groups alike is `wrapper_eq` (the "
               "translated wrapper hands the labelling method the points only) together with the regenerated "
               "`resolution_ok` rows (in the Core model `LabFunc.call` it holds by definition); `labeller()` leaves the "
               "source group and every other group untouched, writes exactly the key `group_label`, raises exactly for a "
               "missing group / an ambiguous None / a wrong size, over every history of calls.  TRANSLATED rather than "
               "transcribed (re-translated from the source text on every run, equality with the Core definition proved for "
               "all arguments): every method of LabelledPointUndirectedGraph named above, its constructors, indices_to_masks "
               "(a for loop with an early exit), from_mask, validate_input, the connectivity helpers, "
               "pcloud_and_lgroup_from_ranges, labeller_func's wrapper — so `select_iff`, `run_invariant` (restated over "
               "every sequence of TRANSLATED operations: `runSrc_invariant`), `src_with_labels_exact`, "
               "`src_without_labels_exact`, `src_without_labels_str` are theorems about what the source says now — and the "
               "body of each of the 33 labelling functions: `src_<name>` says that on EVERY input the translated source "
               "returns the class, points, connectivity, label masks and mapping of the table probed from the live function "
               "(two independent extractions, source text and execution, agree), and refuses every other size.  LIMITS of "
               "the source tie: (i) the translation is VALUE-LEVEL — `.copy()`, `copy=` flags, in-place versus rebinding and "
               "object identity are invisible to it (a dropped copy translates to the same text), so the clauses 'leaves "
               "its input untouched' / receiver untouched are decided by the oracle's digests of the state the property "
               "names (points, connectivity, ordered label masks) before and after every call, not by the translated "
               "obligations; (ii) the EDGE clause ('with the edges among them') of the `src_*` theorems is relative to the "
               "MODELLED helpers of menpo/shape/graph.py — `_mask_adjacency_matrix_and_points` (`maskAdjPts`), "
               "`_convert_edges_to_symmetric_adjacency_matrix` (`convertEdges`), `PointUndirectedGraph.__init__` (`puInit`) "
               "are one vocabulary word each, not translated: a wrong row/column selection inside them is caught by the "
               "oracle and the correspondence (edges of every result are compared), not by an obligation.  Tied to "
               "/repo by the "
               "regenerated tables and scans and by running random operation sequences, every labeller (arrays of several "
               "dtypes and layouts / point clouds and subclasses / labelled graphs, right and wrong sizes) and random "
               "`labeller()` histories through the real code and the Lean driver; an oracle independent of the model "
               "decides the property on the real code, across interpreter processes with different hash seeds for the "
               "run-to-run clause.",
    level_note="Trusted: Lean kernel; axioms propext/Classical.choice/Quot.sound; harness/extract_c15.py (probing), "
               "harness/scan_c15.py (ast classification of uses), harness/py2lean2.py + harness/trans_c15.py (the "
               "translator and the C15 vocabulary: which Lean operation of Core/C15Src.lean each numpy / OrderedDict / "
               "constructor expression stands for; a point cloud argument of a labelling function is the list of its points "
               "— any other use of it has no translation and breaks the obligation), the Python harness and oracle, the "
               "driver's parser.  Modelled, not translated (one trusted vocabulary word each): the graph.py helpers "
               "`_mask_adjacency_matrix_and_points`, `_convert_edges_to_symmetric_adjacency_matrix`, "
               "`PointUndirectedGraph.__init__` / `Graph.__init__`; `TriMesh(points, trilist=…)` (`triMesh`), "
               "`from_vector` (`objFromVector`), `LandmarkManager.__getitem__` / `__setitem__` / `n_dims` "
               "(Core/C15Entry.lean).  The STATEMENTS of GenProps/C15.lean and GenProps/C15SrcLab*.lean are emitted by "
               "Python (extract_c15.lean_files, trans_c15._lab_props) — the same few lines per labeller.  `gather`, "
               "`orMasks`, `inducedEdges`, `restrictLabels` are totalised (`filterMap` / `getD`): the labeller theorems are "
               "quoted with `labellerWF` (33 obligations), the selection theorems with `WF`; the translated source keeps "
               "numpy's IndexError (`takePts`).  "
               "Modelled, not verified: numpy boolean / integer indexing, scipy sparse row/column selection "
               "(`adjacency[keep,:][:,keep]`), OrderedDict item assignment and pop, `Copyable.copy` of a group stored by "
               "`LandmarkManager.__setitem__` (each exercised by the correspondence; aliasing by identity / digest / "
               "shares_memory checks on the real objects).  CPython's set iteration order is a parameter of the coded "
               "`without_labels` model about which only 'is a permutation' is assumed.  That each labeller *is* `gather` "
               "with its table for every input is a theorem about its source text as translated (`src_<name>`, re-proved "
               "on every run), under the vocabulary above; it is also tested (random clouds, all input kinds) and backed by "
               "the regenerated scan obligation that no labelling function can look at a coordinate.  Side finding of the "
               "translation (outside the property text, `initFromIndicesC_two_edges_refused`): init_from_indices_mapping "
               "reads an edge array of exactly two edges as a 2 x 2 adjacency matrix and refuses it unless there are two "
               "points (notes/fixes/C15-5-init-from-indices-two-edges.diff).",
    rule="a case = one operation applied to one labelled graph (1..9 points, 1..6 overlapping labels incl. empty and "
         "identical masks, masks as bool / int / uint8 arrays or lists, any edge set incl. self loops and none, label names "
         "incl. the empty string, unicode and names that are substrings of one another) reached by a random operation "
         "sequence, or one labeller applied to one input (kind x dtype/layout x dimension x size), or one `labeller()` call "
         "in a history of calls on one landmarkable; distinct = distinct (state, operation) / (labeller, kind, size, "
         "points) / (groups, group argument, labeller chain, points); non-trivial = graph with >= 2 points and >= 2 "
         "labels, or labeller input of the expected size, or a `labeller()` history",
    partial=["receiver / input untouched is a value-model fact in Lean (operations return new values; for `labeller()` the "
             "theorems `relabel_source_untouched` / `relabelMany_invariant` say which keys of the manager keep their "
             "value); on the real objects it is checked by digests and object identity of the receiver / of every group "
             "before and after every call, and by `shares_memory` between the stored group and its source",
             "run-to-run identity is a theorem for the model only (the operations are functions; `run_rename` — "
             "independence of hashes / of how names compare — is a free theorem of any Lean function built from `==`: it "
             "cannot express a dependence on CPython's hash seed, which is why the pre-repair code needed the explicit "
             "`order` parameter); for the real interpreter the clause rests on the oracle's order check in process and on "
             "3 (quick) / 8 (thorough) interpreter processes with different hash seeds; `orderSites_ok` is a syntactic "
             "support only (ast scan: set displays / comprehensions, set()/frozenset(), set methods, the RESULT of "
             "`- | & ^` on a set or on a `.keys()` / `.items()` view, `sorted(key=hash|id)`; the only set whose iteration "
             "order reaches a value is inside a `raise`) — spellings the scan does not know have no translation rule "
             "either and break an obligation",
             "the two bounding-box labellers are outside the re-indexing clause by the property text: only label "
             "coverage and input purity are checked for them",
             "connectivity of a labeller's output is not a clause of the property text: it is tabulated, proved in range "
             "for the 27 labellers returning a labelled graph (`edges_*` obligations) and reported as a side finding "
             "otherwise (face_ibug_68_to_face_ibug_49_trimesh, see notes/fixes/C15-3-*.diff); likewise that the two eye "
             "trimesh labellers return a mesh over the caller's own buffer (notes/fixes/C15-4-*.diff) is reported, not a "
             "violation: the call itself leaves the input untouched"],
    assumptions=["label names are distinct strings; point coordinates of a generated graph are pairwise distinct "
                 "(used only to identify output points with input points)",
                 "'in their original order' for with_labels: for a request that lists labels out of their order in the "
                 "group (or repeats one) the code returns them in the order of the request, first occurrences "
                 "(`OrderedDict(zip(labels, …))`) and so does the model (`withLabels_order` proves the group's order only "
                 "for in-order requests); the oracle and the correspondence accept BOTH the request order and the group's "
                 "own order (points, edges and the mask of every label are the same either way: `select_same_set`, "
                 "`select_dedup`); for without_labels / add_label / remove_label the group's order is demanded",
                 "not stated by the text and therefore not demanded of the implementation (counted when met): that "
                 "add_label wraps negative indices, that without_labels ignores unknown names, which exception KIND a "
                 "refusal uses, the class of get_label's result, that labeller() returns the landmarkable, that a stored "
                 "group does not share its buffer with its source",
                 "'every output point is labelled' for the labellers that return a TriMesh: the mesh itself carries no "
                 "labels; the clause is read through the mapping returned with return_mapping=True (label 'tri' -> every "
                 "output point), in the oracle (extract_c15.labels_of) and in `LabellerClause`",
                 "masks that are not boolean ndarrays (int / uint8 arrays, lists) are outside the documented contract of "
                 "the constructor: for them an operation must return the right result or raise, never a wrong result"],
    design_ref="DESIGN.md section 6, C15; section 7 #13, #14; Appendix 13 item 4")
IMPORTS = ["MenpoModel.Props.C15"]
THEOREMS = [
    "MenpoModel.C15.maskFilter_rank", "MenpoModel.C15.rank_strictMono", "MenpoModel.C15.maskFilter_surj",
    "MenpoModel.C15.fromMask_eq",
    "MenpoModel.C15.selMask_spec", "MenpoModel.C15.select_ok", "MenpoModel.C15.select_total",
    "MenpoModel.C15.select_points_exact", "MenpoModel.C15.select_edges_exact",
    "MenpoModel.C15.select_labels_restricted", "MenpoModel.C15.select_wf_covered",
    "MenpoModel.C15.withLabels_order", "MenpoModel.C15.withoutLabels_order", "MenpoModel.C15.withoutLabels_points",
    "MenpoModel.C15.withoutLabelsCoded_order_refuted", "MenpoModel.C15.withoutLabelsCoded_run_to_run",
    "MenpoModel.C15.withoutLabelsCoded_names_perm", "MenpoModel.C15.selMask_congr",
    "MenpoModel.C15.withoutLabelsCoded_points_edges",
    "MenpoModel.C15.getLabel_exact", "MenpoModel.C15.getLabel_unknown",
    "MenpoModel.C15.removeLabel_spec", "MenpoModel.C15.removeLabel_checks_cover",
    "MenpoModel.C15.addLabel_spec", "MenpoModel.C15.addLabelCoded_breaks_cover",
    "MenpoModel.C15.addLabel_refuses_uncover",
    "MenpoModel.C15.run_invariant", "MenpoModel.C15.runCoded_breaks_invariant",
    "MenpoModel.C15.gather_map", "MenpoModel.C15.labeller_size", "MenpoModel.C15.labeller_commutes",
    "MenpoModel.C15.labeller_reindexes", "MenpoModel.C15.labeller_all_labelled", "MenpoModel.C15.labeller_output_wf",
    # selection under exactly the code's guards, permuted / duplicated requests, refusals, the str form
    "MenpoModel.C15.select_iff", "MenpoModel.C15.select_error_iff", "MenpoModel.C15.selMask_any_iff",
    "MenpoModel.C15.select_nonempty", "MenpoModel.C15.select_same_set", "MenpoModel.C15.select_dedup",
    "MenpoModel.C15.withoutLabels_refusals", "MenpoModel.C15.withoutLabels_unknown_ignored",
    "MenpoModel.C15.withoutLabels_excl_set", "MenpoModel.C15.labelsArg_str",
    # the constructors: no group with an unlabelled point can be built
    "MenpoModel.C15.restrict_lengths", "MenpoModel.C15.construct_iff", "MenpoModel.C15.construct_covered",
    "MenpoModel.C15.initWithAllLabel_ok", "MenpoModel.C15.initFromIndices_spec",
    # determinism: label names are opaque
    "MenpoModel.C15.select_rename", "MenpoModel.C15.withoutLabels_rename", "MenpoModel.C15.addLabel_rename",
    "MenpoModel.C15.removeLabel_rename", "MenpoModel.C15.getLabel_rename", "MenpoModel.C15.step_rename",
    "MenpoModel.C15.run_rename", "MenpoModel.C15.run_order_name_independent",
    "MenpoModel.C15.withoutLabelsCoded_name_dependent",
    # the labelled result reproduces the table on every input
    "MenpoModel.C15.labeller_masks", "MenpoModel.C15.labeller_label_points", "MenpoModel.C15.labeller_edges",
    "MenpoModel.C15.labeller_select_reindexes", "MenpoModel.C15.maskFilter_indexMask_sorted",
    "MenpoModel.C15.labeller_get_label_gather",
    # labeller_func's wrapper and labeller() on a landmark manager
    "MenpoModel.C15.call_spec", "MenpoModel.C15.relabel_spec",
    "MenpoModel.C15.relabel_source_untouched", "MenpoModel.C15.relabel_same_key", "MenpoModel.C15.relabel_error_iff",
    "MenpoModel.C15.relabel_wf", "MenpoModel.C15.relabelMany_invariant",
    # the code-shaped definitions (vocabulary of the source-text translation) are the Core definitions (Props/C15Src.lean)
    "MenpoModel.C15.Src.verifyCovered_eq", "MenpoModel.C15.Src.fromMaskC_eq", "MenpoModel.C15.Src.constructC_eq",
    "MenpoModel.C15.Src.zip_fun", "MenpoModel.C15.Src.ofPairs_nodup", "MenpoModel.C15.Src.selectC_eq",
    "MenpoModel.C15.Src.withLabelsC_eq", "MenpoModel.C15.Src.withoutLabelsC_eq", "MenpoModel.C15.Src.getLabelC_eq",
    "MenpoModel.C15.Src.addLabelC_eq", "MenpoModel.C15.Src.removeLabelC_eq", "MenpoModel.C15.Src.indicesToMasksC_eq",
    "MenpoModel.C15.Src.initFromIndicesC_eq", "MenpoModel.C15.Src.initFromIndicesC_two_edges_refused",
    "MenpoModel.C15.Src.initWithAllLabelC_eq",
    # from the source text of a labelling function to its behaviour on every input (Props/C15SrcLab.lean)
    "MenpoModel.C15.Src.takePts_map", "MenpoModel.C15.Src.constructC_map", "MenpoModel.C15.Src.initFromIndicesC_map",
    "MenpoModel.C15.Src.fromRangesC_map", "MenpoModel.C15.Src.expectedObj_map", "MenpoModel.C15.Src.lab_from_probe",
    "MenpoModel.C15.Src.labAgrees_spec", "MenpoModel.C15.Src.src_labeller_clause",
]

NAMES = ["jaw", "left_eye", "right_eye", "nose", "mouth", "left_eyebrow", "right_eyebrow", "chin", "all", "upper",
         "lower", "pupil", "iris", "thumb", "index", "a", "b", "c", "tri", "left _eyebrow", "right_upper arm",
         "λ", "outline", "bisector", "pelvis", "head", "torso", "", "eye", "LEFT_EYE", "ε λ", "nose ", "0", "左眼",
         "leg", "legs", "arm", "forearm"]


def np_():
    import numpy as np
    return np


# ------------------------------------------------------------------------------------- real objects

def build(rc):
    """the real LabelledPointUndirectedGraph of a JSON-able recipe (public constructor `init_from_edges`)"""
    np = np_()
    from collections import OrderedDict
    from menpo.shape import LabelledPointUndirectedGraph
    pts = np.array(rc["points"], dtype=float)
    edges = np.array(rc["edges"], dtype=int).reshape(-1, 2)
    mk = rc.get("mask_kind", "bool")
    if mk == "list":
        masks = OrderedDict((l, [bool(x) for x in b]) for l, b in rc["labels"])
    else:
        masks = OrderedDict((l, np.array(b, dtype={"bool": bool, "int": int, "uint8": np.uint8}[mk])) for l, b in rc["labels"])
    return LabelledPointUndirectedGraph.init_from_edges(pts, edges, masks)


def edge_set(obj):
    r, c = obj.adjacency_matrix.nonzero()
    return sorted(set((int(min(a, b)), int(max(a, b))) for a, b in zip(r.tolist(), c.tolist())))


def observe(obj):
    """JSON-able observation of a real (labelled) graph: points, undirected edge set, ordered labels"""
    np = np_()
    o = {"cls": type(obj).__name__, "points": np.asarray(obj.points).tolist(),
         "edges": [list(e) for e in edge_set(obj)]}
    if hasattr(obj, "_labels_to_masks"):
        o["labels"] = [[str(l), [int(x) for x in np.asarray(m).tolist()]] for l, m in obj._labels_to_masks.items()]
        o["labels_prop"] = [str(l) for l in obj.labels]
    return o


def digest(obj):
    return extract_c15.digest(obj)


def err_kind(e):
    if isinstance(e, KeyError):
        return "key"
    if isinstance(e, IndexError):
        return "index"
    if isinstance(e, ValueError):
        return "value"
    return "other:" + type(e).__name__


def apply_op(g, op):
    """('ok', object) | ('err', kind)"""
    np = np_()
    try:
        k = op[0]
        if k == "with":
            return "ok", g.with_labels(list(op[1]))
        if k == "with_str":
            return "ok", g.with_labels(op[1])
        if k == "without":
            return "ok", g.without_labels(list(op[1]))
        if k == "without_str":
            return "ok", g.without_labels(op[1])
        if k == "get":
            return "ok", g.get_label(op[1])
        if k == "add":
            idx = list(op[2]) if len(op) < 4 or op[3] == "list" else np.array(op[2], dtype=int)
            return "ok", g.add_label(op[1], idx)
        if k == "remove":
            return "ok", g.remove_label(op[1])
        raise common.Infra("unknown op %r" % (op,))
    except common.Infra:
        raise
    except Exception as e:  # noqa: the oracle decides whether raising was right
        return "err", err_kind(e)


def snippet(rc, op):
    call = {"with": "g.with_labels(%r)" % (list(op[1]) if op[0] == "with" else None),
            "with_str": "g.with_labels(%r)" % op[1], "without": "g.without_labels(%r)" % (op[1],),
            "without_str": "g.without_labels(%r)" % op[1], "get": "g.get_label(%r)" % op[1],
            "add": "g.add_label(%r, %r)" % (op[1], op[2] if len(op) > 2 else None),
            "remove": "g.remove_label(%r)" % op[1]}[op[0]]
    return ("import numpy as np; from collections import OrderedDict\n"
            "from menpo.shape import LabelledPointUndirectedGraph as L\n"
            "g = L.init_from_edges(np.array(%r, dtype=float), np.array(%r, dtype=int).reshape(-1, 2), "
            "OrderedDict((l, %s) for l, b in %r))\n"
            "r = %s\nprint(getattr(r, 'labels', None), r.points.tolist(), getattr(r, '_labels_to_masks', None))"
            % (rc["points"], rc["edges"],
               {"bool": "np.array(b, dtype=bool)", "int": "np.array(b, dtype=int)", "uint8": "np.array(b, dtype=np.uint8)",
                "list": "[bool(x) for x in b]"}[rc.get("mask_kind", "bool")], rc["labels"], call))


# ------------------------------------------------------------------------------------- the property oracle

def dedup(xs):
    out = []
    for x in xs:
        if x not in out:
            out.append(x)
    return out


def _select(state, keep):
    """what the property demands of a selection of the labels `keep` (ordered): ('ok', obs) | ('raise', why)"""
    n = len(state["points"])
    masks = dict((l, b) for l, b in state["labels"])
    union = [any(masks[l][i] for l in keep) for i in range(n)]
    if not any(union):
        return "raise", "no point lies under the requested labels"
    kept = [i for i in range(n) if union[i]]
    rank = dict((v, j) for j, v in enumerate(kept))
    edges = sorted(set((min(rank[u], rank[v]), max(rank[u], rank[v])) for u, v in state["edges"]
                       if u in rank and v in rank))
    return "ok", {"points": [state["points"][i] for i in kept], "edges": [list(e) for e in edges],
                  "labels": [[l, [masks[l][i] for i in kept]] for l in keep]}


def covered(labels, n):
    return all(any(b[i] for _, b in labels) for i in range(n))


def expect(state, op):
    """the property text applied to (state, op): ('ok', expected observation) | ('raise', why)"""
    names = [l for l, _ in state["labels"]]
    n = len(state["points"])
    k = op[0]
    if k in ("with", "with_str"):
        req = [op[1]] if k == "with_str" else list(op[1])
        unknown = [l for l in req if l not in names]
        if unknown:
            return "raise", "labels %r do not exist" % unknown
        return _select(state, dedup(req))
    if k in ("without", "without_str"):
        excl = [op[1]] if k == "without_str" else list(op[1])
        return _select(state, [l for l in names if l not in excl])
    if k == "get":
        if op[1] not in names:
            return "raise", "label does not exist"
        r = _select(state, [op[1]])
        if r[0] == "ok":
            r[1].pop("labels")
        return r
    if k == "add":
        idx = []
        for i in op[2]:
            if not -n <= i < n:
                return "raise", "index %d out of range" % i
            idx.append(i % n)
        mask = [1 if i in idx else 0 for i in range(n)]
        if op[1] in names:
            labels = [[l, mask if l == op[1] else b] for l, b in state["labels"]]
        else:
            labels = [[l, b] for l, b in state["labels"]] + [[op[1], mask]]
        if not covered(labels, n):
            return "raise", "the new mask of an existing label would leave points unlabelled"
        return "ok", {"points": state["points"], "edges": state["edges"], "labels": labels}
    if k == "remove":
        if op[1] not in names:
            return "raise", "label does not exist"
        labels = [[l, b] for l, b in state["labels"] if l != op[1]]
        if not labels or not covered(labels, n):
            return "raise", "removing the label would leave points unlabelled"
        return "ok", {"points": state["points"], "edges": state["edges"], "labels": labels}
    raise common.Infra("unknown op %r" % (op,))


def judge(ctx, state, op, status, result, digest_before, digest_after):
    """evaluate the oracle on one real call; returns (verdict ok?, impl observation or None)"""
    method = {"with_str": "with_labels", "with": "with_labels", "without": "without_labels",
              "without_str": "without_labels", "get": "get_label", "add": "add_label", "remove": "remove_label"}[op[0]]
    site = "C15/" + method
    rp = {"kind": "op", "state": state, "op": op, "python": snippet(state, op)}
    ok = True
    if digest_before != digest_after:
        ctx.fail(site + ".receiver", "receiver-mutated", "%s changed the group it was called on" % method, rp)
        ok = False
    want = expect(state, op)
    obs = observe(result) if status == "ok" else None
    if obs is not None and "labels" in obs:
        n_out = len(obs["points"])
        if obs["labels_prop"] != [l for l, _ in obs["labels"]]:
            ctx.fail(site + ".labels", "labels-property-differs", ".labels is not the key order of the masks", rp)
            ok = False
        if not covered(obs["labels"], n_out) or any(len(b) != n_out for _, b in obs["labels"]):
            unl = [i for i in range(n_out) if not any(b[i] for _, b in obs["labels"] if len(b) == n_out)]
            ctx.fail(site + ".cover", "unlabelled-points-returned",
                     "%s returned a group in which points %r carry no label" % (method, unl),
                     dict(rp, observed=obs))
            return False, None
    if want[0] == "raise":
        if status == "ok":
            ctx.fail(site, "no-raise", "%s must refuse the call (%s) but returned %r" % (method, want[1], obs),
                     dict(rp, observed=obs))
            return False, None
        return ok, ("err", result)
    exp = want[1]
    if status != "ok":
        if state.get("mask_kind", "bool") != "bool":
            # masks that are not boolean ndarrays are outside the documented contract of the constructor: refusing the
            # call is acceptable, a silently wrong result is not (every returned result is still judged below)
            ctx.count("non-bool-mask-refused:" + method)
            return ok, None
        n_pts = len(state["points"])
        if op[0] == "add" and any(i < 0 for i in op[2]):
            # the text does not say that negative indices count from the end (numpy's convention): refusing them is not a
            # failure of the property; a returned result is still judged
            ctx.count("negative-index-refused:" + method)
            return ok, None
        if op[0] in ("without", "without_str") and any(
                l not in [x for x, _ in state["labels"]] for l in ([op[1]] if op[0] == "without_str" else op[1])):
            # the text does not say what an unknown name in an exclusion list meets: refusing the call is acceptable
            ctx.count("unknown-exclusion-refused:" + method)
            return ok, None
        _ = n_pts
        ctx.fail(site, "raises", "%s raised %s where the property demands a result" % (method, result),
                 dict(rp, expected=exp))
        return False, None
    if obs["points"] != exp["points"]:
        ctx.fail(site + ".points", "wrong-points", "%s returned points %r, the requested labels cover %r"
                 % (method, obs["points"], exp["points"]), dict(rp, expected=exp, observed=obs))
        return False, None
    if obs["edges"] != exp["edges"]:
        ctx.fail(site + ".edges", "wrong-edges", "%s returned edges %r, the edges among the kept points are %r"
                 % (method, obs["edges"], exp["edges"]), dict(rp, expected=exp, observed=obs))
        return False, None
    if "labels" in exp:
        if "labels" not in obs:
            ctx.fail(site, "not-labelled", "%s returned an unlabelled %s" % (method, obs["cls"]), rp)
            return False, None
        got_names = [l for l, _ in obs["labels"]]
        exp_names = [l for l, _ in exp["labels"]]
        if op[0] in ("with", "with_str") and got_names != exp_names:
            # "in their original order": for a request that lists labels out of their order in the group the text can be
            # read as the group's own order or as the order of the request (what the code does); both are accepted
            group_order = [l for l, _ in state["labels"] if l in exp_names]
            if got_names == group_order:
                ctx.count("with_labels-order:group-order")
                exp_names = group_order
        if got_names != exp_names:
            if sorted(got_names) == sorted(exp_names):
                group_order = [l for l, _ in state["labels"] if l in exp_names]
                ctx.fail(site + ".order", "label-order-not-original",
                         "%s returned the labels in the order %r; their order in the group is %r%s"
                         % (method, got_names, group_order,
                            (", the order of the request %r" % exp_names) if op[0] in ("with", "with_str") else ""),
                         dict(rp, expected=exp_names, observed=got_names))
            else:
                ctx.fail(site + ".labels", "wrong-label-set", "%s returned labels %r, expected %r"
                         % (method, got_names, exp_names), dict(rp, expected=exp_names, observed=got_names))
            return False, None
        if dict((l, b) for l, b in obs["labels"]) != dict((l, list(b)) for l, b in exp["labels"]):
            ctx.fail(site + ".masks", "wrong-masks", "%s returned masks %r, the restricted masks are %r"
                     % (method, obs["labels"], exp["labels"]), dict(rp, expected=exp, observed=obs))
            return False, None
    elif op[0] == "get" and obs["cls"] != "PointUndirectedGraph":
        ctx.count("side:get_label-returns-" + obs["cls"])     # the class of the result is not named by the property text
    return ok, ("ok", obs)


# ------------------------------------------------------------------------------------- model side

def graph_tokens(state, intern):
    n = len(state["points"])
    t = [str(n), str(len(state["edges"]))]
    for u, v in state["edges"]:
        t += [str(u), str(v)]
    t.append(str(len(state["labels"])))
    for l, b in state["labels"]:
        t += [intern(l), "".join("1" if x else "0" for x in b)]
    return t


def op_line(state, op):
    """(driver op tokens, intern table) for one (state, op)"""
    table = {}

    def intern(l):
        if l not in table:
            table[l] = "s%d" % len(table)
        return table[l]
    g = graph_tokens(state, intern)
    k = op[0]
    if k in ("with_str", "without_str"):
        toks = [k.replace("_", "")] + g + [intern(op[1])]
    elif k in ("with", "without"):
        req = list(op[1])
        toks = [k] + g + [str(len(req))] + [intern(l) for l in req]
    elif k == "get":
        toks = ["get"] + g + [intern(op[1])]
    elif k == "add":
        toks = ["add"] + g + [intern(op[1]), str(len(op[2]))] + [str(i) for i in op[2]]
    else:
        toks = ["remove"] + g + [intern(op[1])]
    return toks, table


def parse_model(reply, table=None):
    """driver reply -> ('err', kind) | ('ok', {ids, edges, labels?})"""
    t = reply.split()
    if not t:
        raise common.Infra("empty driver reply")
    if t[0] == "err":
        return "err", t[1]
    if t[0] != "ok":
        raise common.Infra("driver reply %r" % reply[:200])
    back = dict((v, k) for k, v in (table or {}).items())
    i = 1
    n = int(t[i]); i += 1
    ids = [int(x) for x in t[i:i + n]]; i += n
    ne = int(t[i]); i += 1
    es = set()
    for k in range(ne):
        u, v = int(t[i + 2 * k]), int(t[i + 2 * k + 1])
        es.add((min(u, v), max(u, v)))
    i += 2 * ne
    out = {"ids": ids, "edges": [list(e) for e in sorted(es)]}
    if i < len(t):
        nl = int(t[i]); i += 1
        labels = []
        for k in range(nl):
            name = t[i + 2 * k]
            labels.append([back.get(name, name), [int(c) for c in t[i + 2 * k + 1]]])
        out["labels"] = labels
    return "ok", out


def compare_op(ctx, rec, reply):
    """model vs implementation on one (state, op)"""
    state, op, impl, table = rec["state"], rec["op"], rec["impl"], rec["table"]
    m = parse_model(reply, table)
    rp = {"kind": "op", "state": state, "op": op, "python": snippet(state, op), "model": reply[:300]}
    if impl[0] == "err" and state.get("mask_kind", "bool") != "bool":
        return   # which exception masks outside the documented contract meet is not modelled (the oracle judged the case)
    if impl[0] == "err":
        if m[0] != "err":
            ctx.mismatch(op[0], "implementation raises (%s), the model returns %s" % (impl[1], reply[:120]), rp)
        elif op[0] == "remove" and len(state["labels"]) == 1:
            pass   # which exception an emptied label dict meets (numpy's, from `nonzero` on a 0-d array) is not modelled
        elif {"empty": "value"}.get(m[1], m[1]) != impl[1]:
            # the model's `empty` is the graph constructor's ValueError for zero vertices; `index` the IndexError an
            # empty request (without_labels of every label) meets in from_mask.  The property text says nothing about
            # exception kinds: a different kind is counted, not a broken correspondence
            ctx.count("exception-kind-differs:%s:impl=%s:model=%s" % (op[0], impl[1], m[1]))
        return
    if m[0] == "err":
        ctx.mismatch(op[0], "model raises %s, the implementation returns a result" % m[1], rp)
        return
    obs = impl[1]
    where = dict((tuple(p), i) for i, p in enumerate(state["points"]))
    ids = [where.get(tuple(p), -1) for p in obs["points"]]
    if ids != m[1]["ids"]:
        ctx.mismatch(op[0], "points: implementation keeps input points %r, model %r" % (ids, m[1]["ids"]), rp)
    elif obs["edges"] != m[1]["edges"]:
        ctx.mismatch(op[0], "edges: implementation %r, model %r" % (obs["edges"], m[1]["edges"]), rp)
    elif "labels" in obs and obs["labels"] != m[1].get("labels"):
        ml = m[1].get("labels") or []
        if op[0] in ("with", "with_str") and dict((l, list(b)) for l, b in obs["labels"]) == dict((l, list(b)) for l, b in ml) \
                and [l for l, _ in obs["labels"]] == [l for l, _ in state["labels"] if l in dict(ml)]:
            ctx.count("with_labels-order:group-order(model: request order)")   # see `select_same_set`
        else:
            ctx.mismatch(op[0], "labels: implementation %r, model %r" % (obs["labels"], ml), rp)


# ------------------------------------------------------------------------------------- generators

def gen_points(rng, n, d):
    seen, pts = set(), []
    while len(pts) < n:
        p = tuple(common.dyadic(rng, 40, 2) for _ in range(d))
        if p not in seen:
            seen.add(p)
            pts.append(list(p))
    return pts


def gen_state(rng):
    n = rng.choice([1, 2, 3, 3, 4, 4, 5, 5, 6, 7, 8, 9])
    d = rng.choice([2, 2, 3])
    pts = gen_points(rng, n, d)
    pairs = [(u, v) for u in range(n) for v in range(u, n)]
    dens = rng.choice([0.0, 0.2, 0.4, 0.7, 1.0])
    edges = [[u, v] for u, v in pairs if (u != v and rng.random() < dens) or (u == v and rng.random() < 0.04)]
    k = rng.choice([1, 2, 2, 3, 3, 4, 5, 6])
    names = rng.sample(NAMES, k)
    p = rng.choice([0.15, 0.35, 0.6])
    masks = [[1 if rng.random() < p else 0 for _ in range(n)] for _ in range(k)]
    dup = rng.sample(range(k), 2) if k >= 2 and rng.random() < 0.15 else None
    for i in range(n):
        if not any(m[i] for m in masks):
            masks[rng.choice([j for j in range(k) if not dup or j != dup[1]])][i] = 1
    if dup:                                      # two labels with identical masks
        masks[dup[1]] = list(masks[dup[0]])
        for i in range(n):
            if not any(m[i] for m in masks):
                masks[dup[0]][i] = masks[dup[1]][i] = 1
    st = {"points": pts, "edges": edges, "labels": [[l, m] for l, m in zip(names, masks)]}
    q = rng.random()
    if q < 0.15:                                 # masks that are not boolean ndarrays (outside the documented contract)
        st["mask_kind"] = "int" if q < 0.08 else ("uint8" if q < 0.12 else "list")
    return st


def gen_op(rng, state):
    names = [l for l, _ in state["labels"]]
    n = len(state["points"])
    other = [x for x in NAMES if x not in names]
    r = rng.random()
    if r < 0.27:
        sub = [l for l in names if rng.random() < 0.55]
        q = rng.random()
        if q < 0.10 and names:
            return ["with_str", rng.choice(names) if rng.random() < 0.85 else rng.choice(other)]
        if q < 0.28:
            rng.shuffle(sub)
        elif q < 0.34 and sub:
            sub.insert(rng.randrange(len(sub) + 1), rng.choice(sub))
        elif q < 0.40:
            sub.insert(rng.randrange(len(sub) + 1), rng.choice(other))
        return ["with", sub]
    if r < 0.54:
        if rng.random() < 0.10:
            return ["without_str", rng.choice(names) if rng.random() < 0.85 else rng.choice(other)]
        sub = [l for l in names if rng.random() < 0.4]
        q = rng.random()
        if q < 0.2:
            rng.shuffle(sub)
        elif q < 0.28:                           # names the group does not have are ignored
            sub.insert(rng.randrange(len(sub) + 1), rng.choice(other))
        elif q < 0.36:                           # every label (in any order, possibly with repetitions): must be refused
            sub = list(names)
            rng.shuffle(sub)
            if rng.random() < 0.3:
                sub.append(rng.choice(names))
        elif q < 0.40 and sub:
            sub.append(rng.choice(sub))
        return ["without", sub]
    if r < 0.66:
        return ["get", rng.choice(names) if rng.random() < 0.93 else rng.choice(other)]
    if r < 0.86:
        name = rng.choice(names) if rng.random() < 0.35 else rng.choice(other)
        q = rng.random()
        if q < 0.06:
            idx = []
        elif q < 0.14:
            idx = [rng.choice([n, -n - 1, n + 3])] + [rng.randrange(n) for _ in range(rng.randint(0, 2))]
        else:
            idx = [rng.randrange(-n, n) for _ in range(rng.randint(1, n + 1))]
            if rng.random() < 0.5:   # large masks: re-using a name often keeps the cover
                idx = list(range(n)) if rng.random() < 0.4 else idx + [i for i in range(n) if rng.random() < 0.7]
        return ["add", name, idx, rng.choice(["list", "ndarray"]) if idx else "list"]
    return ["remove", rng.choice(names) if rng.random() < 0.93 else rng.choice(other)]


def explore_sequence(ctx, rng, lines, recs, n_ops, with_model=True):
    """one random operation sequence on the real objects, oracle on every step, model line per step"""
    state = gen_state(rng)
    try:
        g = build(state)
    except Exception as e:  # noqa: a covered recipe must be constructible
        ctx.fail("C15/constructor", "raises", "constructor refused a covered labelled graph: %s" % type(e).__name__,
                 {"kind": "op", "state": state, "op": None})
        return
    st0 = observe(g)
    if st0["points"] != state["points"] or st0["edges"] != [list(e) for e in sorted(map(tuple, state["edges"]))] or \
            st0["labels"] != state["labels"]:
        ctx.fail("C15/constructor", "wrong-state", "constructed group differs from its arguments",
                 {"kind": "op", "state": state, "op": None, "observed": st0})
        return
    for _ in range(n_ops):
        op = gen_op(rng, state)
        before = digest(g)
        status, result = apply_op(g, op)
        ok, impl = judge(ctx, state, op, status, result, before, digest(g))
        nontriv = len(state["points"]) >= 2 and len(state["labels"]) >= 2
        ctx.case(("op", json.dumps(state, sort_keys=True), json.dumps(op)), nontrivial=nontriv,
                 sample={"state": state, "op": op, "implementation": impl})
        ctx.count("op:" + op[0])
        ctx.count("outcome:" + (status if status == "ok" else "err-" + str(result)))
        if with_model and impl is not None:
            toks, table = op_line(state, op)
            cid = "o%d" % len(recs)
            recs[cid] = {"state": state, "op": op, "impl": impl, "table": table}
            lines.append(cid + " " + " ".join(toks))
        if not ok or impl is None:
            return
        if status == "ok" and op[0] != "get":
            g = result
            state = dict({"points": impl[1]["points"], "edges": impl[1]["edges"], "labels": impl[1]["labels"]},
                         **({"mask_kind": state["mask_kind"]} if "mask_kind" in state else {}))


def explore_all_subsets(ctx, rng, lines, recs):
    """one labelled graph, every subset of its labels through with_labels and without_labels (the quantifier
    'all subsets of labels for selection/removal'), every label through get_label and remove_label"""
    state = gen_state(rng)
    names = [l for l, _ in state["labels"]]
    g = build(state)
    ops = []
    for m in range(1 << len(names)):
        sub = [l for i, l in enumerate(names) if m >> i & 1]
        ops += [["with", sub], ["without", sub]]
    for l in names:
        ops += [["get", l], ["remove", l]]
    for op in ops:
        before = digest(g)
        status, result = apply_op(g, op)
        ok, impl = judge(ctx, state, op, status, result, before, digest(g))
        ctx.case(("op", json.dumps(state, sort_keys=True), json.dumps(op)),
                 nontrivial=len(state["points"]) >= 2 and len(names) >= 2)
        ctx.count("subset-sweep:" + op[0])
        if impl is not None:
            toks, table = op_line(state, op)
            cid = "o%d" % len(recs)
            recs[cid] = {"state": state, "op": op, "impl": impl, "table": table}
            lines.append(cid + " " + " ".join(toks))
        if not ok:
            return


# ------------------------------------------------------------------------------------- constructors

def constructor_case(ctx, rng, lines, recs, with_model=True):
    """the public constructors on recipes that may be malformed: a group with an unlabelled point must never come
    into existence (constructor, init_from_indices_mapping, init_with_all_label)"""
    np = np_()
    from collections import OrderedDict
    from menpo.shape import LabelledPointUndirectedGraph as L
    st = gen_state(rng)
    st.pop("mask_kind", None)
    n = len(st["points"])
    pts = np.array(st["points"], dtype=float)
    if len(st["edges"]) == 2:                      # a (2, 2) edge array is read as an adjacency matrix: not this property
        st["edges"] = st["edges"][:1]
    edges = np.array(st["edges"], dtype=int).reshape(-1, 2)
    which = rng.choice(["masks", "masks", "indices", "indices", "all"])
    table = {}

    def intern(l):
        if l not in table:
            table[l] = "s%d" % len(table)
        return table[l]
    etoks = [str(len(st["edges"]))] + [str(x) for e in st["edges"] for x in e]
    if which == "masks":
        defect = rng.choice(["none", "none", "uncovered", "uncovered", "short", "long", "empty"])
        labels = [[l, list(b)] for l, b in st["labels"]]
        if defect == "uncovered":
            for i in rng.sample(range(n), rng.randint(1, max(1, n // 2))):
                for _, b in labels:
                    b[i] = 0
        elif defect == "short" and n >= 2:
            labels[rng.randrange(len(labels))][1].pop()
        elif defect == "long":
            labels[rng.randrange(len(labels))][1].append(rng.randrange(2))
        elif defect == "empty":
            labels = []
        valid = bool(labels) and all(len(b) == n for _, b in labels) and covered(labels, n)
        rp = {"kind": "ctor", "how": "masks", "points": st["points"], "edges": st["edges"], "labels": labels,
              "python": "import numpy as np; from collections import OrderedDict\n"
                        "from menpo.shape import LabelledPointUndirectedGraph as L\n"
                        "g = L.init_from_edges(np.array(%r, dtype=float), np.array(%r, dtype=int).reshape(-1, 2), "
                        "OrderedDict((l, np.array(b, dtype=bool)) for l, b in %r))\nprint(g._labels_to_masks)"
                        % (st["points"], st["edges"], labels)}
        try:
            g = L.init_from_edges(pts, edges, OrderedDict((l, np.array(b, dtype=bool)) for l, b in labels))
            status, res = "ok", observe(g)
        except Exception as e:  # noqa
            status, res = "err", err_kind(e)
        want = {"points": st["points"], "edges": [list(e) for e in sorted(map(tuple, st["edges"]))], "labels": labels}
        toks = ["construct", str(n)] + etoks + [str(len(labels))]
        for l, b in labels:
            toks += [intern(l), "".join("1" if x else "0" for x in b) or "-"]
        ctx.count("constructor:masks-" + defect)
    elif which == "indices":
        defect = rng.choice(["none", "none", "negative", "out-of-range", "uncovered", "repeated"])
        mapping = []
        for l, b in st["labels"]:
            ix = [i for i in range(n) if b[i]]
            if defect in ("negative", "repeated") or rng.random() < 0.3:
                ix = [i - n if rng.random() < 0.4 else i for i in ix]
            if defect == "repeated" and ix:
                ix = ix + [rng.choice(ix)]
            rng.shuffle(ix)
            mapping.append([l, ix])
        if defect == "out-of-range":
            mapping[rng.randrange(len(mapping))][1].append(rng.choice([n, n + 2, -n - 1]))
        if defect == "uncovered":
            i = rng.randrange(n)
            mapping = [[l, [j for j in ix if j % n != i]] for l, ix in mapping]
        in_range = all(-n <= j < n for _, ix in mapping for j in ix)
        masks = [[l, [1 if any(j % n == i for j in ix) else 0 for i in range(n)]] for l, ix in mapping] if in_range else None
        valid = in_range and covered(masks, n)
        rp = {"kind": "ctor", "how": "indices", "points": st["points"], "edges": st["edges"], "mapping": mapping,
              "python": "import numpy as np; from collections import OrderedDict\n"
                        "from menpo.shape import LabelledPointUndirectedGraph as L\n"
                        "g = L.init_from_indices_mapping(np.array(%r, dtype=float), np.array(%r, dtype=int).reshape(-1, 2), "
                        "OrderedDict((l, np.array(ix, dtype=int)) for l, ix in %r))\nprint(g._labels_to_masks)"
                        % (st["points"], st["edges"], mapping)}
        try:
            as_array = rng.random() < 0.5
            g = L.init_from_indices_mapping(pts, edges, OrderedDict(
                (l, np.array(ix, dtype=int) if as_array else list(ix)) for l, ix in mapping))
            status, res = "ok", observe(g)
        except Exception as e:  # noqa
            status, res = "err", err_kind(e)
        want = {"points": st["points"], "edges": [list(e) for e in sorted(map(tuple, st["edges"]))], "labels": masks}
        toks = ["fromidx", str(n)] + etoks + [str(len(mapping))]
        for l, ix in mapping:
            toks += [intern(l), str(len(ix))] + [str(j) for j in ix]
        ctx.count("constructor:indices-" + defect)
    else:
        valid = True
        rp = {"kind": "ctor", "how": "all", "points": st["points"], "edges": st["edges"]}
        from menpo.shape.graph import _convert_edges_to_symmetric_adjacency_matrix as conv
        try:
            g = L.init_with_all_label(pts, conv(edges, n))
            status, res = "ok", observe(g)
        except Exception as e:  # noqa
            status, res = "err", err_kind(e)
        want = {"points": st["points"], "edges": [list(e) for e in sorted(map(tuple, st["edges"]))],
                "labels": [["all", [1] * n]]}
        toks = ["allLabel", str(n)] + etoks
        ctx.count("constructor:all")
    site = "C15/constructor"
    ctx.case(("ctor", json.dumps(rp, sort_keys=True)), nontrivial=n >= 2)
    if status == "ok":
        if not covered(res["labels"], len(res["points"])) or any(len(b) != len(res["points"]) for _, b in res["labels"]):
            ctx.fail(site + ".cover", "unlabelled-points-accepted",
                     "the constructor (%s) built a group in which points %r carry no label"
                     % (rp["how"], [i for i in range(len(res["points"]))
                                    if not any(len(b) > i and b[i] for _, b in res["labels"])]), dict(rp, observed=res))
            return
        if valid and (res["points"] != want["points"] or res["edges"] != want["edges"] or res["labels"] != want["labels"]):
            ctx.fail(site, "wrong-state", "the constructed group differs from its arguments (%s)" % rp["how"],
                     dict(rp, observed=res, expected=want))
            return
    elif valid:
        ctx.fail(site, "raises", "the constructor (%s) refused a covered labelled graph: %s" % (rp["how"], res), rp)
        return
    if with_model:
        cid = "c%d" % len(recs)
        recs[cid] = {"ctor": rp, "impl": (status, res), "table": table, "state": st}
        lines.append(cid + " " + " ".join(toks))


def compare_ctor(ctx, rec, reply):
    m = parse_model(reply, rec["table"])
    impl, rp = rec["impl"], dict(rec["ctor"], model=reply[:300])
    if impl[0] == "err" or m[0] == "err":
        if impl[0] == m[0] == "err" and impl[1] != m[1]:
            ctx.count("exception-kind-differs:constructor:impl=%s:model=%s" % (impl[1], m[1]))   # kinds: not in the text
        elif impl[0] != m[0]:
            ctx.mismatch("constructor", "implementation %s %s, model %s" % (impl[0], impl[1] if impl[0] == "err" else "",
                                                                           reply[:60]), rp)
        return
    obs = impl[1]
    if m[1]["ids"] != list(range(len(obs["points"]))) or obs["edges"] != m[1]["edges"] or obs["labels"] != m[1].get("labels"):
        ctx.mismatch("constructor", "constructed groups differ: implementation %r, model %r"
                     % (obs["labels"], reply[:200]), rp)


# ------------------------------------------------------------------------------------- labellers

def labeller_input(rng, n, kind):
    """(input object, points array)"""
    np = np_()
    d = rng.choice([2, 3])
    pts = np.array(gen_points(rng, n, d), dtype=float).reshape(n, d)
    if kind == "ndarray":
        v = rng.random()
        if v < 0.55:
            return pts.copy(), pts
        if v < 0.65:                               # Fortran-ordered
            return np.asfortranarray(pts), pts
        if v < 0.75:                               # a non-contiguous view (every second row of a larger buffer)
            big = np.zeros((2 * n, d))
            big[::2] = pts
            return big[::2], pts
        if v < 0.85:                               # read-only buffer
            a = pts.copy()
            a.setflags(write=False)
            return a, pts
        # other dtypes: the coordinates are small dyadic rationals, exactly representable in float32; integers by scaling
        if v < 0.93:
            return pts.astype(np.float32), pts.astype(np.float32).astype(float)
        ipts = np.round(pts * 4).astype(np.int64)
        if len(set(map(tuple, ipts.tolist()))) == n:
            return ipts, ipts.astype(float)
        return pts.copy(), pts
    from menpo.shape import PointCloud, LabelledPointUndirectedGraph
    if kind == "pointcloud":
        v = rng.random()
        if v < 0.7 or n < 3:
            return PointCloud(pts), pts
        if v < 0.85:                               # subclasses of PointCloud carrying their own connectivity
            from menpo.shape import TriMesh
            tl = np.array([[i, (i + 1) % n, (i + 2) % n] for i in range(0, n - 2, 2)], dtype=int)
            return TriMesh(pts, trilist=tl), pts
        from menpo.shape import PointUndirectedGraph
        return PointUndirectedGraph.init_from_edges(pts, np.array([[i, i + 1] for i in range(n - 1)], dtype=int)), pts
    from collections import OrderedDict
    edges = np.array([[i, (i + 1) % n] for i in range(n) if rng.random() < 0.5 and n > 1], dtype=int).reshape(-1, 2)
    m1 = np.array([rng.random() < 0.5 for _ in range(n)], dtype=bool)
    masks = OrderedDict([("all", np.ones(n, dtype=bool)), ("some", m1)])
    return LabelledPointUndirectedGraph.init_from_edges(pts, edges, masks), pts


def bbox_input(rng, kind, mirrored):
    """an axis-aligned 2-D box as `menpo.shape.bounding_box` lays it out (the documented input of the two
    bounding-box labellers), mirrored about the vertical axis for the `mirrored` variant"""
    np = np_()
    from menpo.shape import bounding_box, PointCloud, LabelledPointUndirectedGraph
    y0, x0 = common.dyadic(rng, 40, 2), common.dyadic(rng, 40, 2)
    y1, x1 = y0 + rng.randint(1, 40) / 4.0, x0 + rng.randint(1, 40) / 4.0
    bb = bounding_box((y0, x0), (y1, x1))
    pts = np.asarray(bb.points).copy()
    if mirrored:
        pts = pts[[3, 2, 1, 0]]
    if kind == "ndarray":
        return pts.copy(), pts
    if kind == "pointcloud":
        return PointCloud(pts), pts
    return LabelledPointUndirectedGraph.init_with_all_label(pts, np.zeros((4, 4), dtype=int)), pts


def out_connectivity(out):
    if hasattr(out, "adjacency_matrix") or hasattr(out, "trilist"):
        return [list(e) for e in extract_c15.undirected_edges(out)]
    return []


def labeller_oracle(ctx, name, f, rng, kind, n_exp, bbox=False):
    """one right-size case of one labeller on the real code; returns the implementation observation
    {ind, labels, edges} (indices into the input) or None"""
    np = np_()
    site = "C15/labeller/" + name
    x, pts = bbox_input(rng, kind, "mirrored" in name) if bbox else labeller_input(rng, n_exp, kind)
    rp = {"kind": "lab", "labeller": name, "input_kind": kind, "points": pts.tolist(),
          "python": "import numpy as np, menpo.landmark as ml\nr = ml.%s(np.array(%r))\nprint(r.points.tolist())"
                    % (name, pts.tolist())}
    before = digest(x) if kind != "ndarray" else repr(x.tobytes())
    try:
        out, mapping = f(x, return_mapping=True)
        out2 = f(x)
    except Exception as e:  # noqa
        ctx.fail(site, "raises", "%s raised %s on an input of the expected size %d (%s)"
                 % (name, type(e).__name__, n_exp, kind), rp)
        return None
    after = digest(x) if kind != "ndarray" else repr(x.tobytes())
    ctx.check(before == after, site + ".input", "input-mutated", "%s changed its input (%s)" % (name, kind), rp)
    opts = np.asarray(out.points)
    labels = extract_c15.labels_of(out, mapping)
    n_out = opts.shape[0]
    lab_ok = all(any(j in ix for _, ix in labels) for j in range(n_out)) and \
        all(0 <= j < n_out for _, ix in labels for j in ix)
    ctx.check(lab_ok, site + ".cover", "unlabelled-output-point",
              "%s: output points %r carry no label" % (name, [j for j in range(n_out)
                                                             if not any(j in ix for _, ix in labels)]), rp)
    ctx.check(digest(out) == digest(out2), site, "not-deterministic", "%s: two calls on the same input differ" % name,
              rp)
    if bbox:
        return None
    where = {}
    for i, p in enumerate(pts.tolist()):
        where[tuple(p)] = i
    ind = [where.get(tuple(p), -1) for p in opts.tolist()]
    if not ctx.check(all(i >= 0 for i in ind), site + ".reindex", "output-point-not-an-input-point",
                     "%s: output points %r are not input points" % (name, [j for j, i in enumerate(ind) if i < 0]), rp):
        return None
    if not ctx.check(len(set(ind)) == len(ind), site + ".reindex", "input-point-repeated",
                     "%s: an input point is returned twice (indices %r)" % (name, ind), rp):
        return None
    # commutes with any transform of the input: an affine map and a non-affine one
    A = np.array([[rng.choice([-2, -1, 1, 2, 3]) if i == j else rng.choice([0, 0, 1, -1]) for j in range(pts.shape[1])]
                  for i in range(pts.shape[1])], dtype=float)
    t = np.array([common.dyadic(rng, 20, 1) for _ in range(pts.shape[1])])
    for tname, T in (("affine", lambda p: p @ A.T + t), ("cubic", lambda p: p ** 3 - 2.0 * p + 1.0)):
        tp = T(pts)
        if kind == "ndarray":
            tx = tp.copy()
        elif kind == "pointcloud":
            from menpo.shape import PointCloud
            tx = PointCloud(tp)
        else:
            tx = x.copy()
            tx.points[...] = tp
        try:
            tout, tmap = f(tx, return_mapping=True)
            same = np.array_equal(np.asarray(tout.points), T(opts.astype(float))) and \
                extract_c15.labels_of(tout, tmap) == labels and out_connectivity(tout) == out_connectivity(out) and \
                type(tout) is type(out)
        except Exception:  # noqa
            same = False
        ctx.check(same, site + ".commute", "does-not-commute-with-" + tname,
                  "%s: labelling the transformed input differs from transforming the labelled output (%s map)"
                  % (name, tname), dict(rp, transform=tname, A=A.tolist(), t=t.tolist()))
    # the same clause through menpo's own transform objects: T.apply(labeller(x)) against labeller(T.apply(x))
    try:
        from menpo.transform import Affine, Translation, NonUniformScale
        dd = pts.shape[1]
        hm = np.eye(dd + 1)
        hm[:dd, :dd] = A
        hm[:dd, dd] = t
        menpo_ts = [("menpo-affine", Affine(hm)), ("menpo-translation", Translation(t)),
                    ("menpo-scale", NonUniformScale([rng.choice([0.5, 2.0, 4.0, -1.0]) for _ in range(dd)]))]
    except Exception:  # noqa: building the transform is not this property's business
        menpo_ts = []
    digest_out = digest(out)
    for tname, T in menpo_ts:
        try:
            lhs = T.apply(out)
            rhs, rmap = f(T.apply(x), return_mapping=True)
            scale = float(np.max(np.abs(np.asarray(lhs.points)))) if lhs.n_points else 1.0
            pa, pb = np.asarray(lhs.points, dtype=float), np.asarray(rhs.points, dtype=float)
            same = pa.shape == pb.shape and bool(np.all(np.abs(pa - pb) <= 1e-9 * (1.0 + scale))) and \
                extract_c15.labels_of(lhs, mapping) == extract_c15.labels_of(rhs, rmap) and \
                out_connectivity(lhs) == out_connectivity(rhs) and type(lhs) is type(rhs)
        except Exception:  # noqa
            same = False
        ctx.check(same, site + ".commute", "does-not-commute-with-" + tname,
                  "%s: labelling the transformed input differs from transforming the labelled output (%s)"
                  % (name, tname), dict(rp, transform=tname, A=A.tolist(), t=t.tolist()))
    ctx.check(digest(out) == digest_out and (digest(x) if kind != "ndarray" else repr(x.tobytes())) == before,
              site + ".input", "input-mutated", "%s: transforming the result changed the result or the input" % name, rp)
    base = x if kind == "ndarray" else x.points
    if np.shares_memory(np.asarray(out.points), base):
        # not a clause of the property text (the call itself leaves the input untouched): reported as a side finding
        ctx.notes.setdefault("side_findings_aliasing", [])
        msg = "%s returns a %s whose points share the buffer of its input" % (name, type(out).__name__)
        if msg not in ctx.notes["side_findings_aliasing"]:
            ctx.notes["side_findings_aliasing"].append(msg)
    return {"ind": ind, "labels": [[l.replace(" ", "~"), ix] for l, ix in labels], "edges": out_connectivity(out),
            "cls": extract_c15.cls_of(out),
            "mapping": [[l.replace(" ", "~"), ix] for l, ix in extract_c15.labels_of(None, mapping)]}


def labeller_wrong_size(ctx, name, f, rng, kind, n_exp, k):
    """input of a wrong size must be rejected; returns 'err <kind>' or None"""
    from menpo.landmark import LabellingError
    site = "C15/labeller/" + name
    x, pts = labeller_input(rng, k, kind) if k > 0 else (np_().zeros((0, 2)), np_().zeros((0, 2)))
    rp = {"kind": "lab", "labeller": name, "input_kind": kind if k > 0 else "ndarray", "points": pts.tolist(),
          "python": "import numpy as np, menpo.landmark as ml\nml.%s(np.array(%r).reshape(%d, -1))"
                    % (name, pts.tolist(), k)}
    try:
        f(x)
    except LabellingError:
        return "err labelling"
    except Exception as e:  # noqa: rejected, but not with the documented exception: a broken tie, not a violation
        return "err other:" + type(e).__name__
    ctx.fail(site + ".size", "wrong-size-accepted", "%s expects %d points and accepted %d (%s)" % (name, n_exp, k, kind),
             rp)
    return None


def model_labeller(reply):
    """reply of the driver's `call`: `<cls> <nmap> (name k idx…)… | ok <graph>`  or  `err <kind>`"""
    if reply.startswith("err"):
        return parse_model(reply)
    head, _, graph = reply.partition(" | ")
    h = head.split()
    cls, nmap, i, mapping = h[0], int(h[1]), 2, []
    for _ in range(nmap):
        k = int(h[i + 1])
        mapping.append([h[i], sorted(int(x) for x in h[i + 2:i + 2 + k])])
        i += 2 + k
    m = parse_model(graph)
    if m[0] == "err":
        return m
    labels = [[l, [j for j, b in enumerate(bits) if b]] for l, bits in m[1].get("labels", [])]
    return "ok", {"ind": m[1]["ids"], "edges": m[1]["edges"], "labels": labels, "cls": cls, "mapping": mapping}


def explore_labellers(ctx, rng, lines, recs, rounds, tables, with_model=True, only=None):
    fs = extract_c15.live_labellers()
    nexp = dict((n, t["n"]) for n, _, t in tables)
    for rnd in range(rounds):
        for name, f in fs.items():
            if only and name not in only:
                continue
            bbox = name in extract_c15.BBOX
            n = 4 if bbox else nexp.get(name, 0)
            if n == 0:
                ctx.fail("C15/labeller/" + name + ".size", "no-accepted-size",
                         "%s refuses every input size 1..%d" % (name, extract_c15.MAX_N), {"kind": "lab", "labeller": name})
                continue
            kind = ["ndarray", "pointcloud", "lgraph"][(rnd + rng.randrange(3)) % 3]
            obs = labeller_oracle(ctx, name, f, rng, kind, n, bbox)
            ctx.case(("lab", name, kind, rnd, ctx.evaluations), nontrivial=True,
                     sample={"labeller": name, "input": kind, "n": n,
                             "output_indices": (obs or {}).get("ind", [])[:12]} if rnd == 0 and name.startswith("pose") else None)
            ctx.count("labeller-input:" + kind)
            ctx.count("labeller-family:" + name.split("_")[0])
            if bbox:
                continue
            if with_model and obs is not None:
                cid = "l%d" % len(recs)
                recs[cid] = {"lab": name, "n": n, "impl": ("ok", obs), "input_kind": kind}
                lines.append("%s call %s %s %d 1" % (cid, name, kind, n))
            for k in sorted(set([n - 1, n + 1, 2 * n, n // 2, 0, rng.randint(1, 2 * n + 3)]) - {n}):
                if k < 0:
                    continue
                r = labeller_wrong_size(ctx, name, f, rng, kind, n, k)
                ctx.case(("labsize", name, kind, k), nontrivial=False)
                ctx.count("labeller-wrong-size")
                if with_model and r is not None:
                    cid = "l%d" % len(recs)
                    recs[cid] = {"lab": name, "n": k, "impl": ("err", r[4:]), "input_kind": kind}
                    lines.append("%s call %s %s %d %d" % (cid, name, kind if k > 0 else "ndarray", k, rng.randrange(2)))


def compare_labeller(ctx, rec, reply):
    m = model_labeller(reply)
    rp = {"kind": "lab", "labeller": rec["lab"], "n": rec["n"], "input_kind": rec["input_kind"], "model": reply[:200]}
    impl = rec["impl"]
    if impl[0] == "err" or m[0] == "err":
        if impl[0] == m[0] == "err" and impl[1] != m[1]:
            ctx.count("exception-kind-differs:lab:impl=%s:model=%s" % (impl[1], m[1]))          # kinds: not in the text
        elif impl[0] != m[0]:
            ctx.mismatch("lab", "%s on %d points: implementation %s %s, regenerated table %s %s"
                         % (rec["lab"], rec["n"], impl[0], impl[1] if impl[0] == "err" else "", m[0],
                            m[1] if m[0] == "err" else ""), rp)
        return
    o = impl[1]
    for key in ("cls", "ind", "labels", "edges", "mapping"):
        if o[key] != m[1][key]:
            ctx.mismatch("lab", "%s: %s on a random %s differ from the table probed on the index cloud: %r vs %r"
                         % (rec["lab"], key, rec["input_kind"], str(o[key])[:150], str(m[1][key])[:150]), rp)
            return


# ------------------------------------------------------------------------------------- labeller() on a manager

def lab_err_kind(e):
    from menpo.landmark import LabellingError
    return "labelling" if isinstance(e, LabellingError) else err_kind(e)


def manager_snapshot(lms):
    return [(k, id(lms[k]), digest(lms[k])) for k in lms.group_labels]


def relabel_case(ctx, rng, fs, nexp, lines, recs, with_model=True, only=None):
    """one landmarkable with a few landmark groups, one to three `labeller()` calls on it (its history), the oracle on
    every call, one model line (`relabelMany`) for the whole history"""
    np = np_()
    from menpo.shape import PointCloud
    from menpo.landmark import labeller
    names = [n for n in fs if n not in extract_c15.BBOX and nexp.get(n, 0) > 0 and (not only or n in only)]
    if not names:
        return
    name0 = rng.choice(names)
    n0 = nexp[name0]
    same = [n for n in fs if n not in extract_c15.BBOX and nexp.get(n, 0) == n0]
    chain = [name0] + [rng.choice(same) for _ in range(rng.choice([0, 0, 1, 2]))]
    d = rng.choice([2, 2, 3])
    scenario = rng.choice(["plain", "plain", "plain", "existing", "samekey", "none-single", "none-many", "missing",
                           "wrong-size"])
    gl0 = fs[name0].group_label
    src = gl0 if scenario == "samekey" else "PTS"
    size = n0 if scenario != "wrong-size" else rng.choice([n0 - 1, n0 + 1, 1, 2 * n0])
    groups = [(src, size)]
    if scenario == "existing":
        groups.insert(rng.randrange(2), (gl0, rng.randint(1, 5)))
    if scenario != "none-single" and (rng.random() < 0.7 or scenario == "none-many"):
        groups.insert(rng.randrange(len(groups) + 1), ("other", rng.randint(1, 6)))
    arg = None if scenario.startswith("none") else ("zz" if scenario == "missing" else src)
    total = sum(k for _, k in groups)
    allpts = np.array(gen_points(rng, total, d), dtype=float).reshape(total, d)
    if d == 2 and rng.random() < 0.3:
        from menpo.image import Image
        holder = Image.init_blank((4, 5))
    else:
        holder = PointCloud(np.zeros((2, d)))
    where, off = {}, 0
    for gi, (key, k) in enumerate(groups):
        chunk = allpts[off:off + k]
        holder.landmarks[key] = PointCloud(chunk)
        for j, pnt in enumerate(chunk.tolist()):
            where[tuple(pnt)] = 1000 * gi + j
        off += k
    rp = {"kind": "relabel", "groups": [[key, k] for key, k in groups], "dim": d, "points": allpts.tolist(),
          "group": arg, "labellers": chain, "holder": type(holder).__name__,
          "python": "import numpy as np, menpo.landmark as ml\nfrom menpo.shape import PointCloud\n"
                    "h = PointCloud(np.zeros((2, %d))); P = np.array(%r); o = 0\n"
                    "for k, n in %r:\n    h.landmarks[k] = PointCloud(P[o:o + n]); o += n\n"
                    "for f in %r:\n    ml.labeller(h, %r, getattr(ml, f))\nprint(h.landmarks)"
                    % (d, allpts.tolist(), [[key, k] for key, k in groups], chain, arg)}
    impl_err = None
    for step, name in enumerate(chain):
        f = fs[name]
        site = "C15/labeller()/" + name
        lms = holder.landmarks
        snap = manager_snapshot(lms)
        keys = [k for k, _, _ in snap]
        try:
            source = lms[arg]
            src_key = [k for k in keys if lms[k] is source][0]
        except Exception:  # noqa: the group cannot be resolved: the call must raise and change nothing
            source, src_key = None, None
        direct = None
        if source is not None:
            try:
                direct = f(source)
            except Exception:  # noqa
                direct = None
        try:
            ret = labeller(holder, arg, f)
            status = "ok"
        except Exception as e:  # noqa
            status, ret = "err", lab_err_kind(e)
        after = manager_snapshot(holder.landmarks)
        ctx.count("labeller():" + scenario)
        ctx.count("labeller()-outcome:" + (status if status == "ok" else "err-" + ret))
        if status == "err":
            if not ctx.check(after == snap, site + ".failed-call", "manager-changed-by-failing-call",
                             "labeller() raised (%s) and left the landmark manager changed" % ret, dict(rp, step=step)):
                return
            if direct is not None:
                ctx.fail(site, "raises", "labeller() raised %s although the labeller accepts the source group" % ret,
                         dict(rp, step=step))
                return
            impl_err = (ret, step)
            break
        if direct is None:
            ctx.fail(site + ".size", "wrong-size-accepted" if source is not None else "unresolvable-group-accepted",
                     "labeller() succeeded although %s" % ("the labeller refuses the source group" if source is not None
                                                          else "the group cannot be resolved"), dict(rp, step=step))
            return
        gl = f.group_label
        okc = True
        if ret is not holder:
            # a return convention of `labeller()`, not a clause of the property text: noted, not a failure
            ctx.count("side:labeller()-returns-other-object")
            ctx.notes.setdefault("side_findings_conventions", [])
            if len(ctx.notes["side_findings_conventions"]) < 5:
                ctx.notes["side_findings_conventions"].append("labeller() did not return the landmarkable (%s)" % name)
        a = dict((k, (i, dg)) for k, i, dg in after)
        for k, i, dg in snap:
            if k == gl:
                continue
            okc &= ctx.check(k in a and a[k][1] == dg, site + (".source" if k == src_key else ".others"),
                             "group-changed", "labeller(…, %r, %s) changed the %s group %r"
                             % (arg, name, "source" if k == src_key else "unrelated", k), dict(rp, step=step))
        want_keys = keys if gl in keys else keys + [gl]
        okc &= ctx.check([k for k, _, _ in after] == want_keys, site + ".keys", "wrong-keys",
                         "labeller() left the groups %r, expected %r" % ([k for k, _, _ in after], want_keys),
                         dict(rp, step=step))
        if not okc:
            return
        new = holder.landmarks[gl]
        if type(new) is not type(direct):
            ctx.count("side:stored-group-class-differs-from-direct-call")      # class identity: not named by the text
        if not ctx.check(digest(new) == digest(direct), site + ".new-group",
                         "stored-group-differs-from-direct-call",
                         "the group labeller() stored under %r differs from %s(source group)" % (gl, name),
                         dict(rp, step=step)):
            return
        if source is not None and src_key != gl:
            shared = np.shares_memory(np.asarray(new.points), np.asarray(source.points))
            if shared:
                # `LandmarkManager.__setitem__` (outside the anchored files) copies today; the text only demands that the
                # input is left untouched, which the digests above decide: sharing is a side finding, as for direct calls
                ctx.count("side:new-group-shares-source-buffer")
                ctx.notes.setdefault("side_findings_conventions", [])
                if len(ctx.notes["side_findings_conventions"]) < 5:
                    ctx.notes["side_findings_conventions"].append(
                        "the group stored under %r shares its points buffer with the source group (%s)" % (gl, name))
    ctx.case(("relabel", json.dumps(rp["groups"]), d, arg, tuple(chain), allpts.tobytes().hex()[:64]), nontrivial=True,
             sample={"groups": rp["groups"], "group": arg, "labellers": chain,
                     "outcome": "err %s at %d" % impl_err if impl_err else holder.landmarks.group_labels}
             if scenario in ("existing", "samekey") else None)
    if not with_model:
        return
    if impl_err:
        impl = ("err", impl_err[0])
    else:
        obs = []
        for k in holder.landmarks.group_labels:
            o = holder.landmarks[k]
            ids = [where.get(tuple(pnt), -1) for pnt in np.asarray(o.points).tolist()]
            labels = [[str(l).replace(" ", "~"), [int(x) for x in np.asarray(m).tolist()]]
                      for l, m in o._labels_to_masks.items()] if hasattr(o, "_labels_to_masks") else []
            obs.append({"key": k, "cls": extract_c15.cls_of(o), "dim": int(o.n_dims), "ids": ids,
                        "edges": out_connectivity(o), "labels": labels})
        impl = ("ok", obs)
    cid = "r%d" % len(recs)
    recs[cid] = {"relabel": rp, "impl": impl}
    lines.append("%s relabel %d %s %s %d %s" % (cid, len(groups), " ".join("%s %d %d" % (key, d, k) for key, k in groups),
                                               "-" if arg is None else arg, len(chain), " ".join(chain)))


def parse_manager(reply):
    t = reply.split()
    if t[0] == "err":
        return "err", t[1]
    if t[0] != "okm":
        raise common.Infra("driver reply %r" % reply[:200])
    out, i = [], 2
    for _ in range(int(t[1])):
        key, cls, dim = t[i], t[i + 1], int(t[i + 2])
        i += 3
        n = int(t[i]); i += 1
        ids = [int(x) for x in t[i:i + n]]; i += n
        ne = int(t[i]); i += 1
        es = sorted(set((min(int(t[i + 2 * k]), int(t[i + 2 * k + 1])), max(int(t[i + 2 * k]), int(t[i + 2 * k + 1])))
                        for k in range(ne)))
        i += 2 * ne
        nl = int(t[i]); i += 1
        labels = []
        for k in range(nl):
            labels.append([t[i + 2 * k], [int(c) for c in t[i + 2 * k + 1]]])
        i += 2 * nl
        out.append({"key": key, "cls": cls, "dim": dim, "ids": ids, "edges": [list(e) for e in es], "labels": labels})
    return "ok", out


def compare_relabel(ctx, rec, reply):
    m = parse_manager(reply)
    impl = rec["impl"]
    rp = dict(rec["relabel"], model=reply[:300])
    if impl[0] == "err" or m[0] == "err":
        if impl[0] == m[0] == "err" and impl[1] != m[1]:
            ctx.count("exception-kind-differs:relabel:impl=%s:model=%s" % (impl[1], m[1]))      # kinds: not in the text
        elif impl[0] != m[0]:
            ctx.mismatch("relabel", "labeller() history: implementation %s, model %s"
                         % (impl[0] + (" " + impl[1] if impl[0] == "err" else ""), reply[:60]), rp)
        return
    if impl[1] != m[1]:
        bad = [(a["key"], b["key"]) for a, b in zip(impl[1], m[1]) if a != b][:2]
        ctx.mismatch("relabel", "labeller() history: managers differ (groups %r; implementation keys %r, model keys %r)"
                     % (bad, [a["key"] for a in impl[1]], [b["key"] for b in m[1]]), rp)


def explore_relabel(ctx, rng, lines, recs, n_cases, tables, with_model=True, only=None):
    fs = extract_c15.live_labellers()
    nexp = dict((n, t["n"]) for n, _, t in tables)
    for _ in range(n_cases):
        relabel_case(ctx, rng, fs, nexp, lines, recs, with_model=with_model, only=only)


# ------------------------------------------------------------------------------------- hash seeds

def battery(rng, n_cases):
    """fixed (state, op) cases whose outcome must not depend on the interpreter's hash seed"""
    cases = []
    while len(cases) < n_cases:
        st = gen_state(rng)
        if len(st["labels"]) < 3 and rng.random() < 0.8:
            continue
        names = [l for l, _ in st["labels"]]
        k = len(cases) % 5
        if k in (0, 1):
            op = ["without", [l for l in names if rng.random() < 0.3]]
        elif k == 2:
            op = ["with", [l for l in names if rng.random() < 0.7]]
        elif k == 3:
            op = ["add", rng.choice(NAMES), [rng.randrange(len(st["points"]))], "list"]
        else:
            op = ["remove", rng.choice(names)]
        cases.append({"state": st, "op": op})
    return cases


def labeller_battery(rng, tables):
    """every labeller once, on an index-independent random cloud, directly and through `labeller()`: the labels of the
    result, their order and the keys of the manager must not depend on the hash seed either"""
    cases = []
    for name, _, t in tables:
        if t["n"] > 0:
            cases.append({"lab": name, "points": gen_points(rng, t["n"], 2)})
    return cases


def run_battery(cases):
    """executed in the parent and in every child: JSON-able outcomes"""
    out = []
    fs = None
    for c in cases:
        try:
            if "lab" in c:
                np = np_()
                from menpo.shape import PointCloud
                from menpo.landmark import labeller
                fs = fs or extract_c15.live_labellers()
                f = fs[c["lab"]]
                r, mp = f(np.array(c["points"], dtype=float), return_mapping=True)
                holder = PointCloud(np.zeros((1, 2)))
                holder.landmarks["zz"] = PointCloud(np.array(c["points"], dtype=float))
                holder.landmarks["aa"] = PointCloud(np.zeros((2, 2)))
                labeller(holder, "zz", f)
                o = observe(r)
                o["mapping_keys"] = [str(k) for k in mp.keys()]
                o["manager_keys"] = list(holder.landmarks.group_labels)
                out.append(["ok", o])
                continue
            g = build(c["state"])
            status, r = apply_op(g, c["op"])
            out.append([status, observe(r) if status == "ok" else r])
        except Exception as e:  # noqa
            out.append(["crash", type(e).__name__])
    return out


def child_main():
    import warnings
    warnings.filterwarnings("ignore")
    data = json.load(sys.stdin)
    json.dump({"hashseed": os.environ.get("PYTHONHASHSEED"), "results": run_battery(data["cases"])}, sys.stdout)


def spawn(cases, hashseeds):
    """one interpreter per hash seed, in parallel; returns {seed: results}"""
    code = ("import sys; sys.path[:0] = [%r, %r]; sys.dont_write_bytecode = True\n"
            "from harness import c15; c15.child_main()" % (common.ROOT, common.REPO))
    procs = []
    for hs in hashseeds:
        env = dict(os.environ, PYTHONHASHSEED=str(hs), MENPO_VERIF="1", OMP_NUM_THREADS="1")
        p = subprocess.Popen([sys.executable, "-c", code], stdin=subprocess.PIPE, stdout=subprocess.PIPE,
                             stderr=subprocess.PIPE, env=env, cwd=common.ROOT, text=True)
        procs.append((hs, p))
    payload = json.dumps({"cases": cases})
    out = {}
    for hs, p in procs:
        so, se = p.communicate(payload, timeout=600)
        if p.returncode != 0:
            raise common.Infra("hash-seed child %s failed: %s" % (hs, se[-1500:]))
        out[hs] = json.loads(so)["results"]
    return out


def hash_seed_check(ctx, rng, n_cases, n_procs, tables=None):
    cases = battery(rng, n_cases) + (labeller_battery(rng, tables) if tables else [])
    seeds = [1 + (7919 * (k + 1) + 31 * ctx.seed) % 4294967290 for k in range(n_procs)]
    res = spawn(cases, seeds)
    mine = json.loads(json.dumps(run_battery(cases)))
    ctx.notes["hash_seeds"] = seeds
    ctx.count("hash-seed-processes", n_procs)
    for i, c in enumerate(cases):
        outs = [("this-process", mine[i])] + [(str(s), res[s][i]) for s in seeds]
        ctx.case(("hash", json.dumps(c, sort_keys=True)), nontrivial=True)
        ctx.count("hash-battery:" + (c["op"][0] if "op" in c else "labeller"))
        first = outs[0][1]
        diff = [(s, o) for s, o in outs[1:] if o != first]
        if diff and "lab" in c:
            ctx.fail("C15/hash-seed/labeller/" + c["lab"], "result-differs-between-hash-seeds",
                     "%s: the result of the same call differs between interpreter processes: PYTHONHASHSEED=%s gives "
                     "%r, this process gives %r" % (c["lab"], diff[0][0], str(diff[0][1])[:200], str(first)[:200]),
                     {"kind": "lab", "labeller": c["lab"], "points": c["points"], "hash_seeds": [diff[0][0]]})
        elif diff:
            what = "labels" if (first[0] == "ok" and diff[0][1][0] == "ok" and
                                first[1].get("labels") != diff[0][1][1].get("labels")) else "result"
            method = {"with": "with_labels", "without": "without_labels", "add": "add_label",
                      "remove": "remove_label"}[c["op"][0]]
            ctx.fail("C15/hash-seed/" + method, "result-differs-between-hash-seeds",
                     "%s: the %s of the same call differ between interpreter processes: PYTHONHASHSEED=%s gives %r, "
                     "this process gives %r" % (method, what, diff[0][0],
                                                (diff[0][1][1].get("labels_prop") if diff[0][1][0] == "ok" else diff[0][1]),
                                                (first[1].get("labels_prop") if first[0] == "ok" else first)),
                     {"kind": "hash", "state": c["state"], "op": c["op"], "hash_seeds": dedup([diff[0][0]] + [str(x) for x in seeds]),
                      "python": "# run twice:  PYTHONHASHSEED=1 python x.py ; PYTHONHASHSEED=2 python x.py\n"
                                + snippet(c["state"], c["op"])})


# ------------------------------------------------------------------------------------- run / search / replay

def generated(ctx):
    """regenerate the labeller tables from the live module; returns (tables, obligation names or [])"""
    from . import scan_c15
    idx, bbox = extract_c15.tables()
    res = extract_c15.resolutions(idx)
    sites = scan_c15.set_sites()
    scan = scan_c15.labeller_scan()
    guard = scan_c15.validate_guard()
    files = extract_c15.lean_files(idx, bbox, res, sites, scan, guard)
    ctx.notes["validate_input_guard"] = guard
    names = extract_c15.obligation_names(idx)
    # the source-text tie (harness/trans_c15.py): labelled.py, from_mask, base.py and every labelling function are
    # TRANSLATED from the source text of the current tree into Generated/C15Src*.lean; the obligations of
    # GenProps/C15Src*.lean (translated = Core definition for all arguments; per labeller: commutes with maps, refuses other
    # sizes, agrees with the probed table on the probe, hence on every input) are re-built in the same `lake build`
    from . import trans_c15
    sfiles, snames, reasons = trans_c15.generated_files(idx)
    files.update(sfiles)
    ok = common.build_generated(ctx, files, extract_c15.TARGETS + trans_c15.all_targets(), len(names) + len(snames))
    if reasons and ok:
        # cannot happen (a stub never satisfies its obligation); kept so that an untranslatable source can never pass
        ctx.broken_obligations.append({"targets": trans_c15.all_targets(), "errors": [], "output_tail": ""})
        ok = False
    if reasons:
        ctx.notes["untranslatable"] = reasons
        ctx.broken_obligations[-1].setdefault("errors", []).extend("untranslatable: " + r for r in reasons)
    names = names + snames
    ctx.count("labeller-tables+source-translation:" + ("ok" if ok else "BROKEN"))
    ctx.notes["translated_from_source"] = dict(trans_c15.TRANSLATED, labellers=len(idx))
    ctx.notes["source_translation_obligations"] = len(snames)
    ctx.notes["resolution_rows"] = sum(len(r["rows"]) for r in res)
    ctx.notes["set_sites"] = [list(x[:3]) + [x[3]] for x in sites]
    ctx.notes["order_observing_sites"] = [list(x) for x in scan_c15.order_sites(sites)]
    ctx.notes["labeller_functions_scanned"] = len(scan)
    ctx.notes["labellers_tabulated"] = len(idx)
    ctx.notes["labellers_bounding_box"] = [n for n, _ in bbox]
    odd = [(n, t["accepts"], t["other_errors"][:3]) for n, _, t in idx if len(t["accepts"]) != 1 or t["other_errors"]]
    if odd:
        ctx.notes["labellers_odd_sizes"] = odd
    side = extract_c15.edges_out_of_range(idx)
    if side:
        # not a clause of the property text (points, labels, sizes, purity); reported, never a VIOLATION
        ctx.notes["side_findings"] = ["%s returns a %s with %d points whose connectivity refers to points %s... "
                                      "(%d edges out of range)" % (n, k, npts, off, cnt)
                                      for n, k, npts, off, cnt in side]
    return idx, (names if ok else [])


def search(ctx):
    """directed search after a broken tie (oracle only): the mismatching cases and their neighbours first — every
    label subset for selection, every label for get/remove, re-used names for add — then the labellers named by a
    broken obligation or mismatch on many random inputs of every kind, then the thorough generator"""
    rng = ctx.rng
    idx, _ = extract_c15.tables()
    suspects = set()
    for b in ctx.broken_obligations:
        for e in b.get("errors", []) + [b.get("output_tail", "")]:
            for n, _, _ in idx:
                if n in e:
                    suspects.add(n)
    for op, text, rp in ctx.mismatches:
        if rp.get("kind") == "lab":
            suspects.add(rp["labeller"])
    for op, text, rp in ctx.mismatches[:20]:
        if rp.get("kind") != "op":
            continue
        state = rp["state"]
        names = [l for l, _ in state["labels"]]
        ops = []
        for m in range(1 << min(len(names), 6)):
            sub = [l for i, l in enumerate(names) if m >> i & 1]
            ops += [["with", sub], ["without", sub], ["with", sub[::-1]]]
        for l in names:
            ops += [["get", l], ["remove", l], ["with_str", l], ["without_str", l]]
            for i in range(len(state["points"])):
                ops.append(["add", l, [i], "list"])
        ops.append(["add", "zz", list(range(len(state["points"]))), "ndarray"])
        for op2 in ops:
            g = build(state)
            before = digest(g)
            status, result = apply_op(g, op2)
            judge(ctx, state, op2, status, result, before, digest(g))
            ctx.searched += 1
            if ctx.failures:
                return True
    order_broken = any("orderSites" in e for b in ctx.broken_obligations
                       for e in b.get("errors", []) + [b.get("output_tail", "")])
    if order_broken:
        # a set whose iteration order is observed outside the whitelisted place: many more cases, more hash seeds
        hash_seed_check(ctx, rng, ctx.n(400, 1200), ctx.n(6, 12), idx)
        ctx.searched += ctx.n(400, 1200)
        if ctx.failures:
            return True
    if any(rp.get("kind") == "relabel" for _, _, rp in ctx.mismatches):
        for _, _, rp in ctx.mismatches:
            if rp.get("kind") == "relabel":
                suspects.update(rp.get("labellers", []))
    if suspects or ctx.broken_obligations:
        only = suspects or None
        explore_labellers(ctx, rng, [], {}, 12, idx, with_model=False, only=only)
        ctx.searched += 12 * (len(only) if only else len(idx))
        if ctx.failures:
            return True
        explore_relabel(ctx, rng, [], {}, 600, idx, with_model=False, only=only)
        ctx.searched += 600
        if ctx.failures:
            return True
    for k in range(ctx.n(1500, 6000)):
        explore_sequence(ctx, rng, [], {}, 5, with_model=False)
        constructor_case(ctx, rng, [], {}, with_model=False)
        ctx.searched += 2
        if ctx.failures:
            return True
    explore_labellers(ctx, rng, [], {}, 4, idx, with_model=False)
    if not ctx.failures:
        explore_relabel(ctx, rng, [], {}, 1500, idx, with_model=False)
    return bool(ctx.failures)


def run(ctx):
    idx, gen_names = generated(ctx)
    imports = IMPORTS + (["MenpoModel.GenProps.C15"] if any(".GenProps.wf_" in n for n in gen_names) else []) + \
        (["MenpoModel.GenProps.C15SrcLab"] if any(".GenProps.Src." in n for n in gen_names) else [])
    common.prepare_lean(ctx, PROP, imports, THEOREMS + gen_names)
    gen_ax = {}
    for n in gen_names:          # counted once, as generated obligations
        gen_ax[n.split(".")[-1]] = ctx.theorems.pop(n, [])
    ctx.notes["generated_obligation_axioms"] = sorted(set(a for v in gen_ax.values() for a in v)) or ["(none)"]
    ctx.trusted.extend(["harness/extract_c15.py (probing of the live labellers: sizes 1..200, index-encoding cloud)",
                        "numpy boolean/integer indexing, scipy sparse row/column selection, OrderedDict assignment "
                        "and pop (modelled, exercised by the correspondence)",
                        "CPython set iteration order: parameter of the coded without_labels model (any permutation)",
                        "harness/py2lean2.py + harness/trans_c15.py (source-to-Lean translator, rule table, helper "
                        "inlining, alias elimination) and the vocabulary lean/MenpoModel/Core/C15Src.lean",
                        "harness/scan_c15.py (ast classification of set uses and of what a labelling function does with "
                        "its argument)",
                        "modelled, not translated: graph.py `_mask_adjacency_matrix_and_points`, "
                        "`_convert_edges_to_symmetric_adjacency_matrix`, `PointUndirectedGraph.__init__`/`Graph.__init__`; "
                        "`TriMesh(points, trilist)`, `from_vector`; `LandmarkManager.__getitem__/__setitem__/n_dims`",
                        "the statements of GenProps/C15.lean and GenProps/C15SrcLab*.lean are emitted by Python "
                        "(extract_c15.lean_files, trans_c15._lab_props)",
                        "value-level translation: copies, copy= flags and object identity are not seen by the translated "
                        "obligations; non-mutation is decided by the oracle's digests"])
    rng = ctx.rng
    lines, recs = [], {}
    for k in range(ctx.n(1200, 20000)):
        explore_sequence(ctx, rng, lines, recs, rng.randint(2, 6))
    for k in range(ctx.n(14, 150)):
        explore_all_subsets(ctx, rng, lines, recs)
    for k in range(ctx.n(300, 6000)):
        constructor_case(ctx, rng, lines, recs)
    explore_labellers(ctx, rng, lines, recs, ctx.n(4, 50), idx)
    explore_relabel(ctx, rng, lines, recs, ctx.n(300, 4000), idx)
    hash_seed_check(ctx, rng, ctx.n(40, 240), ctx.n(3, 8), idx)
    # a few whole sequences through `run` (the definition `run_invariant` is about)
    seqs = []
    for k in range(ctx.n(80, 800)):
        seqs.append(sequence_case(ctx, rng, len(seqs), lines))
    model = common.run_driver(PROP, lines)
    for cid, rec in recs.items():
        if "lab" in rec:
            compare_labeller(ctx, rec, model[cid])
        elif "relabel" in rec:
            compare_relabel(ctx, rec, model[cid])
        elif "ctor" in rec:
            compare_ctor(ctx, rec, model[cid])
        else:
            compare_op(ctx, rec, model[cid])
    for rec in seqs:
        if rec is not None:
            compare_sequence(ctx, rec, model[rec["cid"]])
    return ctx.finish(search)


def sequence_case(ctx, rng, k, lines):
    """a whole operation list executed on the real objects (stop at the first raise) and by the model's `run`"""
    state = gen_state(rng)
    while "mask_kind" in state:          # the sequence model is about boolean masks (the documented contract)
        state = gen_state(rng)
    ops, g, st, impl = [], build(state), state, None
    for i in range(rng.randint(2, 5)):
        op = gen_op(rng, st)
        if op[0] in ("get", "with_str", "without_str"):
            continue
        ops.append(op)
        status, r = apply_op(g, op)
        if status != "ok":
            impl = ("err", r, len(ops) - 1)
            break
        g = r
        o = observe(g)
        if not covered(o["labels"], len(o["points"])):
            return None      # the per-operation oracle reports this; the sequence model assumes the invariant
        st = {"points": o["points"], "edges": o["edges"], "labels": o["labels"]}
    if impl is None:
        impl = ("ok", observe(g))
    table = {}

    def intern(l):
        if l not in table:
            table[l] = "s%d" % len(table)
        return table[l]
    toks = ["seq"] + graph_tokens(state, intern) + [str(len(ops))]
    for op in ops:
        if op[0] == "with":
            toks += ["W", str(len(op[1]))] + [intern(l) for l in op[1]]
        elif op[0] == "without":
            toks += ["X", str(len(op[1]))] + [intern(l) for l in op[1]]
        elif op[0] == "add":
            toks += ["A", intern(op[1]), str(len(op[2]))] + [str(i) for i in op[2]]
        else:
            toks += ["R", intern(op[1])]
    cid = "q%d" % k
    lines.append(cid + " " + " ".join(toks))
    ctx.case(("seq", json.dumps(state, sort_keys=True), json.dumps(ops)), nontrivial=len(ops) >= 2)
    ctx.count("sequence-length:%d" % len(ops))
    return {"cid": cid, "state": state, "ops": ops, "impl": impl, "table": table}


def compare_sequence(ctx, rec, reply):
    m = parse_model(reply, rec["table"])
    rp = {"kind": "seq", "state": rec["state"], "ops": rec["ops"], "model": reply[:300]}
    impl = rec["impl"]
    if impl[0] == "err":
        t = reply.split()
        at = int(t[3]) if len(t) >= 4 and t[2] == "at" else -1
        if m[0] != "err" or at != impl[2]:
            ctx.mismatch("seq", "implementation raises at operation %d, model: %s" % (impl[2], reply[:80]), rp)
        return
    if m[0] == "err":
        ctx.mismatch("seq", "model raises (%s), implementation completes the sequence" % reply[:60], rp)
        return
    where = dict((tuple(p), i) for i, p in enumerate(rec["state"]["points"]))
    ids = [where.get(tuple(p), -1) for p in impl[1]["points"]]
    if ids != m[1]["ids"] or impl[1]["edges"] != m[1]["edges"] or impl[1]["labels"] != m[1].get("labels"):
        ctx.mismatch("seq", "final groups differ: implementation %r %r, model %r"
                     % (ids, impl[1]["labels"], reply[:200]), rp)


def replay(ctx, path):
    data = json.load(open(path))
    rp = data.get("replay") or (data.get("broken_correspondence") or [{}])[0].get("case", {})
    kind = rp.get("kind")
    if kind in ("op", "hash") and rp.get("op") is not None:
        state, op = rp["state"], rp["op"]
        g = build(state)
        before = digest(g)
        status, result = apply_op(g, op)
        ok, impl = judge(ctx, state, op, status, result, before, digest(g))
        ctx.case(("replay", json.dumps(state), json.dumps(op)))
        toks, table = op_line(state, op)
        model = common.run_driver(PROP, ["0 " + " ".join(toks)])
        print("implementation:", impl if impl is not None else (status, observe(result) if status == "ok" else result))
        print("model         :", model["0"], {v: k for k, v in table.items()})
        print("property      :", expect(state, op))
        if impl is not None:
            compare_op(ctx, {"state": state, "op": op, "impl": impl, "table": table}, model["0"])
        if kind == "hash":
            seeds = dedup([int(s) for s in rp.get("hash_seeds", []) if str(s).isdigit()] + [1, 2, 3])[:4]
            res = spawn([{"state": state, "op": op}], seeds)
            for s in seeds:
                print("PYTHONHASHSEED=%s:" % s, res[s][0][1].get("labels_prop") if res[s][0][0] == "ok" else res[s][0])
            vals = [res[s][0] for s in seeds]
            if any(v != vals[0] for v in vals):
                ctx.fail("C15/hash-seed/replay", "result-differs-between-hash-seeds",
                         "the call still gives different results under different hash seeds", rp)
        return ctx.finish(None)
    if kind == "lab":
        idx, _ = extract_c15.tables()
        explore_labellers(ctx, ctx.rng, [], {}, 6, idx, with_model=False, only={rp["labeller"]})
        return ctx.finish(None)
    if kind == "ctor":
        print("constructor replay: the recorded snippet\n" + rp.get("python", ""))
        for _ in range(2000):
            constructor_case(ctx, ctx.rng, [], {}, with_model=False)
        return ctx.finish(None)
    if kind == "relabel":
        idx, _ = extract_c15.tables()
        print("labeller() replay: the recorded snippet\n" + rp.get("python", ""))
        explore_relabel(ctx, ctx.rng, [], {}, 400, idx, with_model=False, only=set(rp.get("labellers", [])) or None)
        return ctx.finish(None)
    if kind == "seq":
        print("sequence replay: re-running the operations one by one")
        state, g = rp["state"], build(rp["state"])
        for op in rp["ops"]:
            before = digest(g)
            status, result = apply_op(g, op)
            ok, impl = judge(ctx, state, op, status, result, before, digest(g))
            ctx.case(("replay", json.dumps(state), json.dumps(op)))
            print(op, "->", impl)
            if status != "ok" or impl is None:
                break
            g = result
            state = {"points": impl[1]["points"], "edges": impl[1]["edges"], "labels": impl[1]["labels"]}
        return ctx.finish(None)
    print("replay file carries no case (broken obligation?): re-running the regenerated obligations and the labellers")
    idx, names = generated(ctx)
    explore_labellers(ctx, ctx.rng, [], {}, 3, idx, with_model=False)
    return ctx.finish(search)
