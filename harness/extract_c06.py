"""C06 — introspection of the live menpo classes (DESIGN 2.3b, appendix 13 items 2-3).

* `pool(rng)`: populated instances of every concrete Copyable class (variants with / without landmarks,
  2-D / 3-D, nested landmarks, caches filled, models trimmed / incremented ...).
* `encode(obj)`: the object graph of a live object as a heap of cells in the vocabulary of
  `lean/MenpoModel/Core/C06Heap.lean` (buf / dict / list / frozen / obj C, immutable values inline).
* `tables()`: the attribute-kind table and the `copy` resolution table of the *current* tree, read from live
  objects and MROs (nothing is parsed from source text), and `lean_files()` that renders them into
  `Generated/C06AttrKinds.lean` plus the obligation file `GenProps/C06.lean`.
"""
import functools
import inspect
import pathlib
import types
from collections import OrderedDict

import numpy as np
import scipy.sparse as sp

GEN_MODULE = "MenpoModel.Generated.C06AttrKinds"
OBL_MODULE = "MenpoModel.GenProps.C06"
GEN_PATH = "MenpoModel/Generated/C06AttrKinds.lean"
OBL_PATH = "MenpoModel/GenProps/C06.lean"

SCAN_MODULES = ["menpo.base", "menpo.shape", "menpo.image", "menpo.transform", "menpo.model", "menpo.landmark",
                "menpo.transform.piecewiseaffine.base", "menpo.transform.rbf", "menpo.transform.thinplatesplines",
                "menpo.model.gmrf", "menpo.model.vectorizable", "menpo.shape.mesh", "menpo.shape.graph",
                "menpo.transform.homogeneous", "menpo.transform.base"]

IMM_TYPES = (type(None), bool, int, float, complex, str, bytes, np.generic, type, types.FunctionType,
             types.BuiltinFunctionType, types.MethodType, functools.partial, pathlib.PurePath, slice, range,
             np.dtype, frozenset)


def _class_with_copy(v):
    """a class object whose `copy` is an unbound method (`self.kind = dict`, `self.dtype = np.float64`):
    `Copyable.copy` calls `v.copy()` on it and gets a TypeError, which it does not catch - not an immutable the model
    may share silently; encoded as a foreign object (kind `other`, so that the table obligation fails loudly)"""
    return isinstance(v, type) and hasattr(v, "copy")


def qual(cls):
    return cls.__module__ + "." + cls.__qualname__


# ----------------------------------------------------------------------------- classes

def copyable_classes():
    """every Copyable class defined anywhere in the menpo package"""
    import importlib
    import pkgutil
    import menpo
    from menpo.base import Copyable
    out = {}
    # every module of the package (a Copyable class added anywhere is met), tests excluded
    names = list(SCAN_MODULES)
    try:
        names += sorted(m.name for m in pkgutil.walk_packages(menpo.__path__, "menpo.")
                        if ".test" not in m.name and not m.name.endswith("conftest") and m.name not in names)
    except Exception:
        pass
    for m in names:
        try:
            mod = importlib.import_module(m)
        except Exception:
            continue
        for name, c in vars(mod).items():
            if inspect.isclass(c) and issubclass(c, Copyable) and c.__module__.startswith("menpo"):
                out[qual(c)] = c
    return out


ABSTRACT = {
    # interfaces / bases that cannot be instantiated meaningfully on their own (no state of their own or
    # abstract methods); they still appear in the resolution table
    "menpo.base.Copyable", "menpo.base.Vectorizable", "menpo.base.Targetable",
    "menpo.landmark.base.Landmarkable", "menpo.transform.base.Transform", "menpo.transform.base.Transformable",
    "menpo.transform.base.composable.ComposableTransform", "menpo.transform.base.alignment.Alignment",
    "menpo.transform.homogeneous.base.HomogFamilyAlignment", "menpo.transform.rbf.RadialBasisFunction",
    "menpo.transform.piecewiseaffine.base.AbstractPWA", "menpo.shape.base.Shape",
    "menpo.shape.graph.PointGraph", "menpo.transform.homogeneous.scale.Scale",
}


def copy_supplier(cls):
    for k in cls.__mro__:
        if "copy" in k.__dict__:
            return qual(k)
    return "<none>"


# ----------------------------------------------------------------------------- instance pool

def _dy(rng, shape, kmax=32, den=4):
    return np.array([[rng.randint(-kmax, kmax) / den for _ in range(shape[1])] for _ in range(shape[0])]) \
        if len(shape) == 2 else np.array([rng.randint(-kmax, kmax) / den for _ in range(shape[0])])


def _pts(rng, n, d):
    """n distinct points in general position (small dyadic rationals)"""
    while True:
        p = _dy(rng, (n, d), 40, 4)
        if len({tuple(r) for r in p}) == n and np.linalg.matrix_rank(p - p.mean(0)) == min(d, n - 1):
            return p


def make_shape(rng, kind, d, n=None):
    from menpo.shape import (PointCloud, TriMesh, ColouredTriMesh, TexturedTriMesh, PointUndirectedGraph,
                             PointDirectedGraph, PointTree, LabelledPointUndirectedGraph)
    from menpo.image import Image
    n = n or rng.randint(4, 7)
    p = _pts(rng, n, d)
    tl = np.array([[i, i + 1, i + 2] for i in range(n - 2)])
    if kind == "PointCloud":
        return PointCloud(p)
    if kind == "TriMesh":
        return TriMesh(p, tl)
    if kind == "ColouredTriMesh":
        return ColouredTriMesh(p, tl, _dy(rng, (n, 3), 4, 4) % 1.0)
    if kind == "TexturedTriMesh":
        tex = Image(_dy(rng, (3, 4 * 5), 8, 8).reshape(3, 4, 5))
        return TexturedTriMesh(p, np.abs(_dy(rng, (n, 2), 4, 4)) % 1.0, tex, tl)
    edges = np.array([[i, i + 1] for i in range(n - 1)] + [[0, 2]])
    if kind == "PointUndirectedGraph":
        return PointUndirectedGraph.init_from_edges(p, edges)
    if kind == "PointDirectedGraph":
        return PointDirectedGraph.init_from_edges(p, edges)
    if kind == "PointTree":
        return PointTree.init_from_edges(p, np.array([[i // 2, i + 1] for i in range(n - 1)]), 0)
    if kind == "LabelledPointUndirectedGraph":
        k = rng.randint(1, n - 1)
        return LabelledPointUndirectedGraph.init_from_indices_mapping(
            p, np.array([[i, i + 1] for i in range(n - 1)]),
            OrderedDict([("a", list(range(k))), ("b", list(range(k, n))), ("all", list(range(n)))]))
    raise ValueError(kind)


SHAPE_KINDS = ["PointCloud", "TriMesh", "ColouredTriMesh", "TexturedTriMesh", "PointUndirectedGraph",
               "PointDirectedGraph", "PointTree", "LabelledPointUndirectedGraph"]


def add_landmarks(rng, o, d, depth=1):
    """attach 1-3 groups of random shape classes; with depth 2 one group carries landmarks itself"""
    names = ["a", "b", "é中", "g 0"]
    rng.shuffle(names)
    for i in range(rng.randint(1, 3)):
        if rng.random() < 0.08:
            g = make_shape(rng, "PointCloud", d, 1)        # boundary size: a single landmark
        else:
            g = make_shape(rng, rng.choice(SHAPE_KINDS), d)
        if depth > 1 and i == 0:
            add_landmarks(rng, g, d, depth - 1)
        o.landmarks[names[i]] = g
    return o


def make_image(rng, kind, d=2):
    from menpo.image import Image, MaskedImage, BooleanImage
    shp = (3, 4) if d == 2 else (2, 3, 3)
    c = rng.randint(1, 3)
    px = _dy(rng, (c, int(np.prod(shp))), 16, 16).reshape((c,) + shp)
    if kind == "Image":
        return Image(px)
    m = np.array([rng.random() < 0.7 for _ in range(int(np.prod(shp)))]).reshape(shp)
    m.flat[0] = True
    if kind == "MaskedImage":
        return MaskedImage(px, mask=m)
    return BooleanImage(m)


def make_transform(rng, kind, d=2):
    import menpo.transform as T
    from menpo.transform.piecewiseaffine.base import PythonPWA, CachedPWA
    from menpo.shape import PointCloud, TriMesh
    n = 5
    src, tgt = PointCloud(_pts(rng, n, d)), PointCloud(_pts(rng, n, d))
    if kind == "Homogeneous":
        h = np.eye(d + 1)
        h[:d, :] = _dy(rng, (d, d + 1), 8, 4)
        return T.Homogeneous(h)
    if kind == "Affine":
        h = np.eye(d + 1)
        h[:d, :] = _dy(rng, (d, d + 1), 8, 4) + np.eye(d, d + 1) * 5
        return T.Affine(h)
    if kind == "Similarity":
        return T.Similarity.init_identity(d).compose_before(T.UniformScale(1.5, d)).compose_before(
            T.Translation(_dy(rng, (d,), 8, 4)))
    if kind == "Rotation":
        if d == 2:
            return T.Rotation(np.array([[0.6, -0.8], [0.8, 0.6]]))
        return T.Rotation(np.array([[0.6, -0.8, 0], [0.8, 0.6, 0], [0, 0, 1.0]]))
    if kind == "Translation":
        return T.Translation(_dy(rng, (d,), 8, 4))
    if kind == "UniformScale":
        return T.UniformScale(rng.randint(1, 8) / 4.0, d)
    if kind == "NonUniformScale":
        return T.NonUniformScale([rng.randint(1, 8) / 4.0 for _ in range(d)])
    if kind.startswith("Alignment"):
        return getattr(T, kind)(src, tgt)
    if kind == "ThinPlateSplines":
        return T.ThinPlateSplines(PointCloud(_pts(rng, n, 2)), PointCloud(_pts(rng, n, 2)))
    if kind in ("PiecewiseAffine", "PythonPWA", "CachedPWA"):
        cls = {"PiecewiseAffine": T.PiecewiseAffine, "PythonPWA": PythonPWA, "CachedPWA": CachedPWA}[kind]
        sp_ = np.array([[0, 0], [0, 4.0], [4, 0], [4, 4], [2, 1]])
        t = cls(TriMesh(sp_), PointCloud(sp_ + _dy(rng, (5, 2), 2, 8)))
        if rng.random() < 0.7:  # fill the caches of CachedPWA
            try:
                t.apply(np.array([[1.0, 1.0], [2.0, 2.5]]))
            except Exception:
                pass
        return t
    if kind in ("R2LogR2RBF", "R2LogRRBF"):
        return getattr(T, kind)(_pts(rng, n, d))
    if kind == "WithDims":
        return T.WithDims([0, 1][: rng.randint(1, 2)])
    if kind == "TransformChain":
        members = [make_transform(rng, rng.choice(["Translation", "Affine", "AlignmentSimilarity", "ThinPlateSplines",
                                                  "UniformScale"]), 2) for _ in range(rng.randint(1, 3))]
        if rng.random() < 0.3:
            members.append(T.TransformChain([T.Translation([1.0, 2.0])]))
        return T.TransformChain(members)
    raise ValueError(kind)


TRANSFORM_KINDS = ["Homogeneous", "Affine", "Similarity", "Rotation", "Translation", "UniformScale", "NonUniformScale",
                   "AlignmentAffine", "AlignmentSimilarity", "AlignmentRotation", "AlignmentTranslation",
                   "AlignmentUniformScale", "ThinPlateSplines", "PiecewiseAffine", "PythonPWA", "R2LogR2RBF",
                   "R2LogRRBF", "WithDims", "TransformChain"]


def make_model(rng, kind):
    from menpo.model import LinearVectorModel, MeanLinearVectorModel, PCAVectorModel, PCAModel
    if kind == "LinearVectorModel":
        return LinearVectorModel(_dy(rng, (3, 6), 8, 4))
    if kind == "MeanLinearVectorModel":
        return MeanLinearVectorModel(_dy(rng, (3, 6), 8, 4), _dy(rng, (6,), 8, 4))
    if kind == "PCAVectorModel":
        m = PCAVectorModel(_dy(rng, (7, 5), 16, 4), centre=rng.random() < 0.75,
                           max_n_components=rng.choice([None, None, 3]), inplace=False)
    elif kind in ("PCAModel.from_components", "PCAModel.from_covariance"):
        # the alternative constructors keep `mean.as_vector()` as `_mean`: a READ-ONLY VIEW of the points / pixels of
        # `template_instance`, i.e. an array that cannot be written through itself but changes when its base (reachable
        # through another attribute) is written
        if rng.random() < 0.6:
            mean = add_landmarks(rng, make_shape(rng, "PointCloud", 2, 4), 2)
        else:
            mean = make_image(rng, "Image")
        n = mean.as_vector().shape[0]
        rs = np.random.RandomState(rng.randrange(1 << 30))
        if kind == "PCAModel.from_components":
            k = min(3, n - 1)
            comps = np.linalg.qr(rs.randn(n, k))[0].T
            m = PCAModel.init_from_components(comps, np.arange(k, 0, -1.0), mean, 10, rng.random() < 0.75)
        else:
            x = rs.randn(n, n + 4)
            m = PCAModel.init_from_covariance_matrix(np.cov(x), mean, n + 4, centred=rng.random() < 0.75,
                                                     max_n_components=rng.choice([None, 3]))
    else:
        if rng.random() < 0.5:
            samples = [add_landmarks(rng, make_shape(rng, "PointCloud", 2, 4), 2) for _ in range(6)]
        else:
            samples = [add_landmarks(rng, make_image(rng, "Image"), 2) for _ in range(6)]
            c = samples[0].n_channels
            samples = [s for s in samples if s.n_channels == c]
            while len(samples) < 4:
                samples.append(samples[0].copy())
        m = PCAModel(samples, centre=rng.random() < 0.75, max_n_components=rng.choice([None, None, 3]))
    r = rng.random()
    try:
        if r < 0.3 and m.n_components > 2:
            m.trim_components(2)
        elif r < 0.5 and m.n_components > 2:
            m.n_active_components = 2
    except Exception:
        pass
    return m


def make_lazy(rng):
    from menpo.base import LazyList
    r = rng.random()
    if r < 0.4:
        return LazyList.init_from_iterable([1, 2, 3])
    if r < 0.7:
        return LazyList.init_from_index_callable(lambda i: i * i, 4)
    return LazyList.init_from_iterable([1, 2, 3], f=lambda x: x + 1).map(lambda x: 2 * x)


SHAPE_LABELS = SHAPE_KINDS
IMAGE_LABELS = ["Image", "MaskedImage", "BooleanImage"]
MODEL_LABELS = ["LinearVectorModel", "MeanLinearVectorModel", "PCAVectorModel", "PCAModel",
                "PCAModel.from_components", "PCAModel.from_covariance"]
LABELS = (SHAPE_LABELS + IMAGE_LABELS + ["LandmarkManager", "LandmarkManager0"] + TRANSFORM_KINDS + ["CachedPWA"]
          + MODEL_LABELS + ["LazyList"])


def _vary_array(rng, o, attr, dtypes=(np.float32,)):
    """storage variants of a public data array: a view into a larger base array (the object does not own the
    memory), Fortran order, another dtype.  The value stays the same up to the cast."""
    r = rng.random()
    a = getattr(o, attr)
    if r < 0.25:
        base = np.concatenate([np.zeros_like(a[:1]), a, np.zeros_like(a[:1])], axis=0)
        setattr(o, attr, base[1:-1])
    elif r < 0.35:
        setattr(o, attr, np.asfortranarray(a))
    elif r < 0.45 and dtypes:
        setattr(o, attr, a.astype(dtypes[rng.randrange(len(dtypes))]))


def make(label, rng):
    """one populated instance for `label`, reproducible from the state of `rng`"""
    from menpo.landmark import LandmarkManager
    if label in SHAPE_LABELS:
        d = rng.choice([2, 2, 3])
        o = make_shape(rng, label, d)
        r = rng.random()
        if r < 0.75:
            add_landmarks(rng, o, d, 2 if r < 0.25 else 1)
        elif r < 0.85:
            o.landmarks  # an empty manager (created lazily by the property)
        _vary_array(rng, o, "points")
        return o
    if label in IMAGE_LABELS:
        d = rng.choice([2, 2, 3])
        o = make_image(rng, label, d)
        r = rng.random()
        if r < 0.75:
            add_landmarks(rng, o, d, 2 if r < 0.2 else 1)
        if rng.random() < 0.3:
            o.path = pathlib.Path("/nonexistent/img_%d.png" % rng.randint(0, 9))
        _vary_array(rng, o, "pixels", dtypes=() if label == "BooleanImage" else (np.float32, np.uint8))
        return o
    if label == "LandmarkManager":
        return add_landmarks(rng, make_shape(rng, "PointCloud", 2), 2, 2).landmarks
    if label == "LandmarkManager0":
        return LandmarkManager()
    if label in TRANSFORM_KINDS or label == "CachedPWA":
        fixed2 = ("ThinPlateSplines", "PiecewiseAffine", "PythonPWA", "CachedPWA", "TransformChain", "WithDims")
        return make_transform(rng, label, 2 if label in fixed2 else rng.choice([2, 3]))
    if label in MODEL_LABELS:
        return make_model(rng, label)
    if label == "LazyList":
        return make_lazy(rng)
    raise ValueError(label)


def pool(rng, per_class=1):
    """list of (label, object): `per_class` populated instances of every concrete Copyable class"""
    return [(lb, make(lb, rng)) for _ in range(per_class) for lb in LABELS]


# ----------------------------------------------------------------------------- heap encoding

class CyclicGraph(Exception):
    """the object graph contains a reference cycle (Copyable.copy would not terminate on it)"""


class Enc:
    """object graph -> cells.  cells[i] = ('B', obj) | ('N', kind, [(name, val)], obj) with val = ('i', tag) | ('r', j).
    `paths[i]` = first access path of cell i (for messages)."""

    def __init__(self):
        self.cells = []
        self.ids = {}
        self.paths = []
        self.keep = []   # keep temporaries alive so id() stays unique
        self.open = set()  # composite values being encoded: meeting one again is a reference cycle

    def val(self, v, path):
        from menpo.base import Copyable
        if isinstance(v, IMM_TYPES) and not _class_with_copy(v):
            return ("i", 0)
        if isinstance(v, tuple) and all(self._is_imm(x) for x in v):
            return ("i", 0)
        if id(v) in self.ids:
            return ("r", self.ids[id(v)])
        if isinstance(v, np.ndarray) and v.dtype != object:
            return self._add(v, ("B", v), path)
        if sp.issparse(v):
            return self._add(v, ("B", v), path)
        if id(v) in self.open:
            raise CyclicGraph(path)
        self.open.add(id(v))
        if isinstance(v, dict):
            slots = [(self._key(k), self.val(x, path + "[%r]" % (k,))) for k, x in v.items()]
            return self._add(v, ("N", "D", slots, v), path)
        if isinstance(v, (list, set)):
            slots = [(str(i), self.val(x, path + "[%d]" % i)) for i, x in enumerate(v)]
            return self._add(v, ("N", "L", slots, v), path)
        if isinstance(v, Copyable):
            slots = [(k, self.val(x, path + "." + k)) for k, x in v.__dict__.items()]
            return self._add(v, ("N", "O:" + qual(type(v)), slots, v), path)
        # anything else: a reference-holding thing Copyable.copy will share (tuple with mutable members,
        # object-dtype array, foreign object)
        if isinstance(v, tuple):
            slots = [(str(i), self.val(x, path + "[%d]" % i)) for i, x in enumerate(v)]
        elif isinstance(v, np.ndarray):
            slots = [(str(i), self.val(x, path + "[%d]" % i)) for i, x in enumerate(v.ravel().tolist())]
        elif hasattr(v, "__dict__"):
            slots = [(k, self.val(x, path + "." + k)) for k, x in vars(v).items()]
        else:
            slots = []
        return self._add(v, ("N", "F", slots, v), path)

    def _is_imm(self, v):
        return ((isinstance(v, IMM_TYPES) and not _class_with_copy(v))
                or (isinstance(v, tuple) and all(self._is_imm(x) for x in v)))

    def _key(self, k):
        return "k" + "".join(c if (c.isascii() and c.isalnum()) else "_%x_" % ord(c) for c in str(k))

    def _add(self, v, cell, path):
        # children first (they were encoded while building `slots`), then the cell itself
        self.open.discard(id(v))
        self.ids[id(v)] = len(self.cells)
        self.cells.append(cell)
        self.paths.append(path)
        self.keep.append(v)
        return ("r", len(self.cells) - 1)


def encode(obj):
    e = Enc()
    root = e.val(obj, "")
    return e, root


def elem_of(enc, val):
    if val[0] == "i":
        return "imm"
    c = enc.cells[val[1]]
    if c[0] == "B":
        return "buf"
    if c[1].startswith("O:"):
        return "obj"
    return "other"


def join_elems(es):
    if not es:
        return "none"
    return es[0] if all(e == es[0] for e in es) else "other"


def kind_of(enc, val):
    """mirror of `kindOf` in Core/C06Heap.lean"""
    if val[0] == "i":
        return ("elem", "imm")
    c = enc.cells[val[1]]
    if c[0] == "B":
        return ("elem", "buf")
    if c[1].startswith("O:"):
        return ("elem", "obj")
    if c[1] == "D":
        return ("dictOf", join_elems([elem_of(enc, v) for _, v in c[2]]))
    if c[1] == "L":
        return ("listOf", join_elems([elem_of(enc, v) for _, v in c[2]]))
    return ("elem", "other")


# ----------------------------------------------------------------------------- tables

def tables(seeds=(11,), per_class=40):
    """(attr_table, supplier_table, notes).  attr_table: {class: OrderedDict attr -> sorted kinds},
    over every object cell met in the pools; classes found in the namespaces but never instantiated
    get the pseudo attribute '<no-populated-instance>' of kind other (so the obligation fails loudly)."""
    import random
    classes = copyable_classes()
    attr = {}
    for s in seeds:
        rng = random.Random(s)
        for label, o in pool(rng, per_class):
            enc, root = encode(o)
            for c in enc.cells:
                if c[0] == "N" and c[1].startswith("O:"):
                    row = attr.setdefault(c[1][2:], {})
                    for name, v in c[2]:
                        row.setdefault(name, set()).add(kind_of(enc, v))
    sup = {}
    for q, c in sorted(classes.items()):
        sup[q] = copy_supplier(c)
    for q in attr:
        if q not in sup:
            # a class met in an object graph but not exported: resolve through the live class anyway
            mod, _, nm = q.rpartition(".")
            import importlib
            sup[q] = copy_supplier(getattr(importlib.import_module(mod), nm))
    missing = [q for q in sorted(classes) if q not in attr and q not in ABSTRACT]
    for q in missing:
        attr[q] = {"<no-populated-instance>": {("elem", "other")}}
    return attr, sup, {"missing_instances": missing, "n_classes": len(attr)}


def _lean_kind(k):
    return ".%s .%s" % (k[0], k[1])


def lean_files(extra_import=None, extra_obligations=""):
    attr, sup, notes = tables()
    lines = ["/-",
             "GENERATED by harness/extract_c06.py from the live classes of the menpo working tree - do not edit.",
             "attrKinds: for every Copyable class met in populated instances, each instance attribute with the runtime",
             "kinds seen for it.  copySupplier: the class whose __dict__ supplies `copy` (Python MRO).",
             "-/",
             "import MenpoModel.Core.C06Heap",
             "",
             "namespace MenpoModel.C06.Generated",
             "open MenpoModel.C06",
             "",
             "def attrKinds : AttrTable := ["]
    rows = []
    for q in sorted(attr):
        atts = []
        for a in sorted(attr[q]):
            ks = ", ".join(_lean_kind(k) for k in sorted(attr[q][a]))
            atts.append('    ("%s", [%s])' % (a, ks))
        rows.append('  ("%s", [\n%s])' % (q, ",\n".join(atts)))
    lines.append(",\n".join(rows) + "]")
    lines.append("")
    lines.append("def copySupplier : SupplierTable := [")
    lines.append(",\n".join('  ("%s", "%s")' % (q, sup[q]) for q in sorted(sup)) + "]")
    lines.append("")
    lines.append("end MenpoModel.C06.Generated")
    gen = "\n".join(lines) + "\n"
    obl = """/-
Obligations over the regenerated C06 tables (re-checked by `lake build` against what the code says now).
-/
import MenpoModel.Generated.C06AttrKinds
%s
namespace MenpoModel.C06.GenProps
open MenpoModel.C06

/-- every attribute of every Copyable class is copied deeply enough by the `copy` Python resolves for the
class, or shared only where the documentation says so -/
theorem attrKinds_ok : copyWF Generated.attrKinds Generated.copySupplier = true := by decide +kernel

/-- every class of the attribute table has a resolved `copy` that the model knows -/
theorem copySupplier_ok :
    Generated.attrKinds.all (fun row => resOf Generated.copySupplier row.1 != .unknown) = true := by decide +kernel
%s
end MenpoModel.C06.GenProps
"""
    obl = obl % (("import %s\n" % extra_import) if extra_import else "", extra_obligations)
    return {GEN_PATH: gen, OBL_PATH: obl}, notes
