"""C02 — transforming a shape moves points and landmarks as one and mutates nothing (DESIGN.md section 6, C02).

Parties: the real `Transform.apply` on real shapes; the property oracle (class, points against the transform applied
to the bare array, every landmark group at every depth against the transform applied to its bare array, every
other attribute by deep digest, deep digests of the input shape / its landmarks / the transform / the bare array
before and after, aliasing, write-through; batch_size invisible; a chain = its members one after the other;
`apply(landmark_manager)`; histories of calls on objects that share textures / arrays / managers and on earlier
results); the Lean model (value level `applyV`, heap level `applyH`, sequences `runH` / `runV`).

What the model is given per case:
* the shape as a tree (`enc_shape`): class, points, every other attribute — arrays and dicts of arrays by content,
  object-valued attributes (tcoords PointCloud, texture Image with its own landmarks) as the token stream of their
  deep digest (`toks_of` mirrors `MenpoModel.C02.digest`) — and the groups, recursively;
* the transform either as a formula the model evaluates itself (homogeneous matrix incl. the alignment classes,
  WithDims, chains of those: `exact_F`) or as the table  array -> transform.apply(array)  measured on the real code;
  with batch_size the table holds the BATCHES and the model does the cutting and stacking (`applyBatched`);
* for histories the heap itself, cell by cell, as the image of the real object graph (`HeapEmitter`: one cell per
  Python object, so sharing is what it is in the interpreter).
The reply carries the flags of the heap theorems' hypotheses (`rep`, `repd`, `tot`), the frame (`changed` = cells
below the old heap top that differ), `intact` / `fresh` / `agree`, and the value-level result, which is diffed
against the real result.

Regenerated on every run (`generated`): method-resolution table, attribute-kind table, and the table of instance
attributes `_transform_inplace` rebinds on the private copy (`measure_writes`, all 8 classes x every transform
class), with `decide` obligations in GenProps/C02.lean.

TRANSLATED from the source text on every run (`harness/trans_c02.py`): the methods behind `Transform.apply` — value
level (Generated/C02SrcV.lean, 17 methods / properties) and heap level (Generated/C02SrcH.lean, 9 methods: the same
text read with the heap vocabulary) — with the obligations `translated = hand-written, for all arguments and heaps`
in GenProps/C02SrcV.lean / C02SrcH.lean, which also restate the property theorems over the translated methods
resolved through the regenerated table.  The error branches of the model (batch_size <= 0, WithDims index errors, a
closure that raises part-way) are run against the real code in `error_branches` (driver ops `applye`, `wdims`).
"""
import json

from . import common
from . import extract_c02
from .common import fq

PROP = "C02"
INFO = dict(
    technique="Lean 4 proof (value-level functional specification of apply for the 8 shape classes assembled from the "
              "regenerated method-resolution table, incl. batch_size, TransformChain, WithDims; heap-level refinement "
              "and frame theorems over a representation predicate that fixes EVERY attribute of every object of the "
              "tree by its deep digest; invariant over arbitrary sequences of calls on shared objects; the error "
              "branches batch_size <= 0 / WithDims index errors / a closure that raises, with 'nothing that existed is "
              "written' proved for calls that RAISE as well) "
              "+ SOURCE-TO-LEAN TRANSLATION on every run (harness/trans_c02.py over harness/py2lean2.py + py2lean2x.py): "
              "17 methods / properties at value level and 9 at heap level are translated from the source text of the "
              "working tree and proved equal, for all arguments (and all heaps), to the definitions the theorems are "
              "about; the property theorems are restated over the translated methods resolved through the regenerated "
              "method-resolution table "
              "+ regenerated dispatch / attribute-kind / attribute-write obligations + model/implementation "
              "correspondence and a deep-digest oracle over shape class x landmark-group class x transform class x "
              "coordinate storage (dtype, layout, aliasing, previous lives), error branches included",
    level_text="Theorems over an executable model of Transform.apply / _apply_batched / Transformable._transform / "
               "Shape._transform_inplace / PointCloud._transform_self_inplace / LandmarkManager._transform_inplace / "
               "Copyable.copy and its LandmarkManager and LabelledPointUndirectedGraph overrides / "
               "TransformChain._apply / WithDims._apply / Homogeneous._apply; _transform, _transform_inplace, "
               "_transform_self_inplace and copy are looked up in the method-resolution table exactly as Python resolves "
               "them; _apply_batched is NOT resolved: the one modelled, translated and proved is Transform._apply_batched, "
               "which is what every transform class runs except TransformChain and PiecewiseAffine (regenerated "
               "applyTable, column batched; see partial).  TRANSLATED, not transcribed: on every run the "
               "source text of Transform.apply (nested closure, try / except AttributeError, default batch_size=None), "
               "Transform._apply_batched (the loop over range, the slices, append, np.vstack), "
               "Transformable._transform, Transformable._transform_inplace, Shape._transform_inplace, "
               "Shape._transform_self_inplace, PointCloud._transform_self_inplace, LandmarkManager._transform_inplace "
               "(the loop over the groups), Landmarkable.has_landmarks, Landmarkable.landmarks, "
               "LandmarkManager.n_groups, TransformChain._apply (reduce), WithDims._apply, Homogeneous._apply, "
               "Affine._apply, Affine.linear_component and Affine.translation_component is translated into Lean "
               "(Generated/C02SrcV.lean: objects as values; Generated/C02SrcH.lean: the same text read with the heap "
               "vocabulary - objects are cells, attribute assignment is a write, the closure allocates, a call may "
               "raise and hands the heap back) and proved equal to the hand-written definitions for all arguments, all "
               "callee functions and all heaps (GenProps/C02SrcV.lean, C02SrcH.lean: 47 obligations incl. the restated property theorems; the proofs unfold, "
               "normalise and split cases, so renamed temporaries, reordered independent statements, inverted tests "
               "keep them and a dropped branch, a swapped argument, an off-by-one break them).  The heap-level "
               "methods as the source states them, resolved through the table, ARE the model's applyH on every heap "
               "(hTransform_eq), so every heap theorem is a theorem about them; the value-level entry point agrees "
               "with the model applyT on shapes of all classes and on bare arrays (vApply_agrees).  "
               "Value level: for every shape of the 8 classes "
               "with landmark groups nested to any depth and every array function f, apply succeeds and returns the "
               "same class, points f(points), every group at every depth with points f(group points), all other "
               "attributes and the group names verbatim; it agrees with apply on the bare array; identity and "
               "composition laws; with batch_size None or positive the same holds with f = Transform._apply_batched(f, k), "
               "which equals f for every transform that treats points one by one; a TransformChain applied to a shape equals its members "
               "applied to the shape one after the other; WithDims (in-range indices) slices the points of every group alike.  Error "
               "branches (transform classes that run Transform._apply_batched): apply(x, batch_size <= 0) raises ValueError exactly when some array of the tree has points "
               "and otherwise equals apply(x) (apply_nonpos_batch); WithDims with an index outside [-n_dims, n_dims) or "
               "a mask of the wrong length raises IndexError, negative in-range indices, masks and a single integer "
               "select what numpy selects (withDimsE_*); there is never a partial result.  Heap "
               "level: for EVERY heap on which an address holds such a shape (arbitrary layout and sharing; every "
               "attribute - arrays, dicts of masks, the tcoords PointCloud, the texture Image with its own landmark "
               "manager - fixed by its deep digest), the heap after the call is the heap before plus new cells "
               "(nothing that existed is written: input shape, landmark manager, groups, arrays, textures, "
               "transform), the result is a new object holding the mapped shape with every other attribute of every "
               "object of the tree deep-equal to the input's, at every depth; the same for "
               "transform.apply(landmark_manager); and as an invariant by induction over arbitrary sequences of calls "
               "on initial objects that share whatever they share and on earlier results.  With an ARBITRARY closure "
               "(one that raises on some array: batch_size <= 0, a bad WithDims index, a point outside a "
               "piecewise-affine domain) and an ARBITRARY outcome the call still writes no cell that existed, and "
               "after a raising call the input holds the shape it held (h_apply_frame_any, h_apply_raise_intact).  "
               "copy alone preserves the "
               "deep digest of any value on any heap under any method-resolution table.  Kernel-checked witnesses show "
               "that with LandmarkManager.copy not overriding Copyable.copy the same call would write into the caller's "
               "landmark groups; GenProps/C02.lean re-proves on every run that the live classes resolve the four "
               "methods as the model assumes, that live objects have the attribute layout the heap model assumes, and "
               "that the attributes the live _transform_inplace rebinds on the private copy (measured on all 8 classes "
               "x every transform class) are exactly those the heap model rebinds, with no array buffer written in "
               "place.  Tied to /repo by running every shape class (2-D, 3-D, 0-3 landmark groups of all 8 classes, "
               "nested up to three deep; zero-point groups first / in the middle / last; float64/float32/int64/int32 "
               "coordinates; C / Fortran / strided / read-only / "
               "caller-owned arrays; groups aliased inside the manager or sharing the host's array; shapes that are "
               "results of earlier transforms) under every transform class with and without batch_size and diffing "
               "against the Lean driver, which cuts and stacks the batches itself and evaluates homogeneous matrices "
               "(homogeneous coordinate w != 0; always 1 in the affine family), chains of them and WithDims exactly; the error branches (batch_size 0 / negative, WithDims indices and "
               "masks, piecewise affine outside its domain) are run on the real code and through the methods as the "
               "source states them (driver op applye: same outcome, same exception kind, no old cell written); an "
               "independent oracle decides the property on the real code.",
    level_note="Trusted: Lean kernel; axioms propext/Classical.choice/Quot.sound; Python harness and extractor; driver "
               "parser; the source-to-Lean translator (harness/py2lean2.py, py2lean2x.py) and the C02 vocabulary "
               "(harness/trans_c02.py: which Lean term a Python expression of the vocabulary stands for; "
               "Core/C02Src.lean, Core/C02SrcH.lean: the meaning of those terms and the resolvers vApply / hTransform "
               "that look a method up in the table) - a rule that mistranslated a construct would make an obligation "
               "speak about something else; the correspondence runs on the same methods and would disagree.  "
               "Contract parameter (not verified, checked on every case by the oracle and on every run by the "
               "regenerated write table): a transform's _apply is a function of the array it is given, returns a new "
               "array (or raises) and writes neither into its argument nor into the transform.  Modelled, not verified: "
               "CPython attribute lookup and dict iteration order; numpy arrays as immutable-content cells that are "
               "only ever replaced; float rounding (points are compared to the same float computation on the bare "
               "array, and for the homogeneous family, chains of it and WithDims to the exact rational result within "
               "1e-9).  x.copy() is the model's copy at heap level (translating Copyable.copy belongs to C06).  Trusted "
               "vocabulary of the translation (one Lean word for a whole numpy expression; a change inside stops the "
               "match and breaks the obligation, but what the word MEANS is not verified): hstackOnes = "
               "np.hstack([x, np.ones([n, 1])]), dotT = a.dot(m.T) / np.dot(a, m.T), normLast = (y / y[:, -1][:, None])[:, :-1], "
               "sliceLinear / sliceTranslation = m[:-1, :-1] / m[:-1, -1], addRow = broadcast +, pySlice, pyRange, npVstack, "
               "colIndex = x[:, dims].  Which clause is decided where: 'nothing is modified' / no harmful aliasing is "
               "decided by the HEAP-level obligations and theorems (a dropped self.copy() breaks srcH_t_transform_eq), by "
               "the measured write tables and by the oracle's digests of the state the property names; the VALUE-level "
               "translation does not see object identity (there a copy is the value itself).  Sharing between result "
               "and input, and apply(array) returning its argument's memory, are not judged by the oracle (the text "
               "does not forbid them): the former is a correspondence observation, the latter a counted note.",
    rule="a case = one (shape, transform, batch_size) triple: shape class x n_dims x 0-3 landmark groups (each of one of "
         "the 8 classes, possibly with groups of their own, up to depth 3) x coordinate storage x transform class "
         "with dyadic / rational-circle parameters; distinct = distinct (shape class, group classes, transform class, "
         "dims, batch, storage, parameters); non-trivial = the transform moves at least one point and (the shape has a "
         "landmark group or structure beyond points)",
    partial=["'the transform is not modified' is a contract on _apply in the model (f is a function parameter that may "
             "raise; the heap theorems then show that NO existing cell is written, the transform's included, whether "
             "the call returns or raises); on the real code it "
             "is decided by the deep digest of the transform before/after on every case and by the regenerated "
             "obligation no_other_writes on every run (the CachedPWA memo attributes _applied_points/_iab are "
             "excluded: that the memo is unobservable is C09)",
             "heap level: success of the call (apply_succeeds, h_apply_succeeds) is proved for object graphs that are "
             "finite, of "
             "classes the method-resolution table lists and within the fuel (Python: recursion limit); that the real "
             "objects are such graphs is checked by the driver on every generated case (flag tot), not proved",
             "WithDims on an array WITHOUT points: numpy checks the index against n_dims even when there are no rows; an "
             "array is a list of rows in the model and has no width when it is empty, so there nothing is checked "
             "(the correspondence uses arrays with points for the index errors)",
             "batching of TransformChain and PiecewiseAffine: they override _apply_batched (TransformChain delegates to "
             "AbstractPWA._apply_batched, a loop of its own that also collects TriangleContainmentErrors); that body is "
             "neither translated nor modelled - 'batch_size is invisible' and the batch_size <= 0 outcome are decided "
             "for these two classes by oracle + correspondence only (every run: positive sizes on chains incl. a "
             "piecewise-affine member, batch_size 0 / negative on chains and piecewise affine); applyTable_ok pins who "
             "supplies the method",
             "apply_batched_expected / withDims_* / homApply are stated over TOTAL definitions (applyBatched cuts no batch "
             "for size 0, withDims reads a missing column as 0, homApply divides by w = 0 to 0): they carry the "
             "hypothesis batch_size None-or-positive, resp. are the code only for in-range indices / w != 0; the error "
             "behaviour is in applyBatchedE / withDimsE (apply_nonpos_batch, withDimsE_*), division by w = 0 (numpy: "
             "nan / inf) is not modelled",
             "piecewise-affine transforms outside their domain raise by design: there only 'nothing that existed is "
             "written' is claimed (theorem h_apply_frame_any, oracle + driver on every run), not a result"],
    assumptions=["numpy computes the same floats for the same operation on equal arrays of equal shape (points of "
                 "apply(shape) are compared with apply(shape.points) at 1e-9 relative)",
                 "contract of a transform's _apply: a pure, deterministic function of the array it is given (this is what "
                 "makes 'every group is moved by the SAME map' a theorem: one f for all groups), which returns or raises "
                 "without writing into its argument or into the transform (checked per case by the oracle's digests and "
                 "per run by no_other_writes, not proved)",
                 "Copyable.copy, LandmarkManager.copy and LabelledPointUndirectedGraph.copy are hand-transcribed "
                 "(Core/C02.lean), not translated: every 'mutates nothing' theorem rests on that transcription, on the "
                 "regenerated method-resolution table and on attrKinds_ok measured on sample instances",
                 "ndarrays are cells of immutable content that are only ever replaced; dtype and memory layout are not "
                 "modelled (Arr = List (List Rat)); they are exercised by the oracle only",
                 "`points`, `_landmarks`, `_landmark_groups` are plain instance attributes (no descriptor, no __setattr__ "
                 "hook): attribute assignment is a slot write",
                 "TransformChain / PiecewiseAffine run an overridden _apply_batched that is not modelled (see partial)"],
    design_ref="DESIGN.md section 6, C02")
IMPORTS = ["MenpoModel.Props.C02"]
THEOREMS = [
    # value level (Props/C02Base.lean)
    "MenpoModel.C02.applyV_expected",
    "MenpoModel.C02.apply_class_preserved",
    "MenpoModel.C02.apply_points",
    "MenpoModel.C02.apply_array_agrees",
    "MenpoModel.C02.apply_extra_unchanged",
    "MenpoModel.C02.apply_group_names",
    "MenpoModel.C02.apply_landmarks",
    "MenpoModel.C02.apply_id",
    "MenpoModel.C02.apply_comp",
    # heap level over Rep (Props/C02Base.lean)
    "MenpoModel.C02.inplace_spec",
    "MenpoModel.C02.copy_spec",
    "MenpoModel.C02.apply_refines",
    "MenpoModel.C02.apply_no_write",
    "MenpoModel.C02.apply_input_intact",
    "MenpoModel.C02.apply_result",
    "MenpoModel.C02.repB_sound",
    "MenpoModel.C02.apply_refines_checked",
    "MenpoModel.C02.shallow_manager_copy_mutates_input",
    "MenpoModel.C02.pass_self_leaves_points",
    # heap level, every attribute by deep digest (Props/C02Deep.lean and its lemma files)
    "MenpoModel.C02.digest_local",
    "MenpoModel.C02.copy_deep",
    "MenpoModel.C02.copy_keeps_digest",
    "MenpoModel.C02.copy_specD",
    "MenpoModel.C02.inplace_specD",
    "MenpoModel.C02.repDB_sound",
    "MenpoModel.C02.apply_refines_deep",
    "MenpoModel.C02.apply_deep",
    "MenpoModel.C02.apply_at_deep",
    "MenpoModel.C02.apply_extras_deep",
    "MenpoModel.C02.apply_manager_deep",
    # history / aliasing (Props/C02Seq.lean)
    "MenpoModel.C02.run_refines",
    "MenpoModel.C02.run_mutates_nothing",
    "MenpoModel.C02.runV_expected",
    "MenpoModel.C02.allRepB_sound",
    # batch_size, chains, WithDims (Props/C02Batch.lean)
    "MenpoModel.C02.chunks_spec",
    "MenpoModel.C02.batched_rowwise",
    "MenpoModel.C02.apply_batched_expected",
    "MenpoModel.C02.apply_batched_array_agrees",
    "MenpoModel.C02.apply_batch_invariant",
    "MenpoModel.C02.homApply_rowwise",
    "MenpoModel.C02.withDims_rowwise",
    "MenpoModel.C02.affine_eq_hom",
    "MenpoModel.C02.affineApply_rowwise",
    "MenpoModel.C02.chain_rowwise",
    "MenpoModel.C02.apply_chain",
    "MenpoModel.C02.withDims_width",
    "MenpoModel.C02.withDims_range",
    "MenpoModel.C02.apply_withDims_width",
    # total correctness on the heap (Props/C02Total.lean)
    "MenpoModel.C02.inplace_total",
    "MenpoModel.C02.copy_total",
    "MenpoModel.C02.knownToksB_sound",
    "MenpoModel.C02.apply_succeeds",
    # the write table (Props/C02Writes.lean)
    "MenpoModel.C02.inplaceWrites_shape",
    "MenpoModel.C02.inplace_writes_in_table",
    "MenpoModel.C02.apply_writes_nothing_old",
    # the methods as the SOURCE states them, value level (Props/C02Src.lean, Lemmas/C02Src.lean): what the methods
    # translated from the source text on every run are proved equal to (GenProps/C02SrcV.lean)
    "MenpoModel.C02.forLoopE_writeback",
    "MenpoModel.C02.batched_loop_eq",
    "MenpoModel.C02.forLoopE_append",
    "MenpoModel.C02.batched_comp_eq",
    "MenpoModel.C02.mapShapeE_ok",
    "MenpoModel.C02.vInplaceS_expected",
    "MenpoModel.C02.vTransform_shape",
    "MenpoModel.C02.vApply_shape",
    "MenpoModel.C02.vApply_array",
    "MenpoModel.C02.vApply_agrees",
    "MenpoModel.C02.vApply_expected",
    "MenpoModel.C02.applyBatchedE_pos",
    "MenpoModel.C02.applyBatchedE_nonpos",
    "MenpoModel.C02.mapShapeE_nonpos",
    "MenpoModel.C02.apply_nonpos_batch",
    "MenpoModel.C02.apply_nonpos_batch_array",
    "MenpoModel.C02.chainFnE_ok",
    "MenpoModel.C02.withDimsE_list_ok",
    "MenpoModel.C02.withDimsE_index_error",
    "MenpoModel.C02.withDimsE_mask_error",
    "MenpoModel.C02.withDimsE_single",
    "MenpoModel.C02.hom_plumbing",
    "MenpoModel.C02.affine_plumbing",
    # … heap level (Props/C02SrcH.lean): the source's `_transform` IS the model's `applyH`, on every heap
    "MenpoModel.C02.hInplace_eq",
    "MenpoModel.C02.hTransform_eq",
    "MenpoModel.C02.hTransform_ok",
    "MenpoModel.C02.hTransform_of_ok",
    "MenpoModel.C02.h_apply_deep",
    "MenpoModel.C02.h_apply_no_write",
    "MenpoModel.C02.h_apply_result",
    "MenpoModel.C02.h_apply_at_deep",
    "MenpoModel.C02.h_apply_manager_deep",
    "MenpoModel.C02.h_apply_succeeds",
    "MenpoModel.C02.hRun_eq",
    "MenpoModel.C02.h_run_refines",
    "MenpoModel.C02.h_run_mutates_nothing",
    # … "mutates nothing" when the call RAISES (Props/C02SrcE.lean): any closure, any outcome
    "MenpoModel.C02.hLoop_frame",
    "MenpoModel.C02.hSelf_frame",
    "MenpoModel.C02.h_inplace_frame",
    "MenpoModel.C02.h_apply_frame_any",
    "MenpoModel.C02.h_apply_raise_intact",
]
TOL = 1e-9
SHAPES = extract_c02.SHAPES
CACHE_ATTRS = {"_applied_points", "_iab"}      # CachedPWA memo (C09)
FUEL = 16


# ------------------------------------------------------------------------------- specs -> real objects
# A case is described by JSON-able specs so that a replay rebuilds exactly the same objects.

def dy(rng, lo=-8, hi=8, m=2):
    return rng.randint(lo * 2 ** m, hi * 2 ** m) / float(2 ** m)


def gen_points(rng, n, d, inside=None):
    if inside is not None:
        return [inside(rng) for _ in range(n)]
    pts = []
    while len(pts) < n:
        p = [dy(rng) for _ in range(d)]
        if p not in pts:
            pts.append(p)
    return pts


def gen_shape_spec(rng, cls, d, depth, inside=None, n_groups=None):
    """spec of one shape of class `cls` in `d` dimensions with landmark groups nested `depth` more levels"""
    n = rng.randint(4, 7)
    sp = {"cls": cls, "points": gen_points(rng, n, d, inside)}
    if cls in ("TriMesh", "ColouredTriMesh", "TexturedTriMesh"):
        sp["trilist"] = [rng.sample(range(n), 3) for _ in range(rng.randint(1, 4))]
    if cls == "ColouredTriMesh":
        sp["colours"] = [[rng.randint(0, 8) / 8.0 for _ in range(3)] for _ in range(n)]
    if cls == "TexturedTriMesh":
        sp["tcoords"] = [[rng.randint(0, 8) / 8.0 for _ in range(2)] for _ in range(n)]
        sp["texture"] = [[[rng.randint(0, 16) / 16.0 for _ in range(3)] for _ in range(3)] for _ in range(rng.choice([1, 3]))]
        if rng.random() < 0.4:
            sp["texture_landmarks"] = [[rng.randint(0, 8) / 4.0, rng.randint(0, 8) / 4.0] for _ in range(3)]
    if cls in ("PointUndirectedGraph", "PointDirectedGraph", "LabelledPointUndirectedGraph"):
        k = rng.choice([1, 3, 4, 5])
        edges = []
        while len(edges) < k:
            a, b = rng.sample(range(n), 2)
            if [a, b] not in edges and ([b, a] not in edges or cls == "PointDirectedGraph"):
                edges.append([a, b])
        sp["edges"] = edges
    if cls == "PointTree":
        order = list(range(n))
        rng.shuffle(order)
        sp["edges"] = [[order[rng.randrange(i)], order[i]] for i in range(1, n)]
        sp["root"] = order[0]
    if cls == "LabelledPointUndirectedGraph":
        k = rng.randint(1, 3)
        cut = sorted(rng.sample(range(1, n), k - 1)) if k > 1 else []
        bounds = [0] + cut + [n]
        names = rng.sample(["eye", "left brow", "nose-tip", "münd", "__all__"], k)
        sp["labels"] = [[names[i], [1 if bounds[i] <= j < bounds[i + 1] else 0 for j in range(n)]] for i in range(k)]
        if rng.random() < 0.3:
            sp["labels"].append(["overlap", [1] * n])
    groups = []
    if depth > 0:
        k = rng.choice([0, 1, 1, 2, 3]) if n_groups is None else n_groups
        names = rng.sample(["g0", "left eye", "PTS", "ü-grp", "__x", "LJSON"], k)
        for nm in names:
            gcls = rng.choice(SHAPES)
            groups.append([nm, gen_shape_spec(rng, gcls, d, depth - 1, inside,
                                              n_groups=None if rng.random() < 0.5 else 0)])
    sp["groups"] = groups
    # how the coordinates are stored (the constructors always make a fresh C-contiguous array; everything else
    # arises through `copy=False`, through assignment to `.points`, or as the result of an earlier transform)
    if inside is None and rng.random() < 0.3:
        sp["store"] = gen_store(rng, sp)
    # two names for ONE group object inside the manager (the copy made by apply must not transform it twice)
    if groups and rng.random() < 0.08:
        sp["alias"] = [[groups[0][0], "alias-of-" + groups[0][0]]]
    # a PointCloud group that uses the host's coordinate array itself
    pcs = [nm for nm, g in groups if g["cls"] == "PointCloud" and "store" not in g]
    if pcs and "store" not in sp and rng.random() < 0.15:
        sp["share_points"] = pcs[0]
    return sp


STORE_DTYPES = ["float32", "int64", "int32", "float64"]
STORE_LAYOUTS = ["C", "F", "strided", "readonly", "nocopy"]


def gen_store(rng, sp):
    """storage variant of sp['points']; integer dtypes get integral coordinates (kept distinct)"""
    dtype = rng.choice(STORE_DTYPES)
    layout = rng.choice(STORE_LAYOUTS if dtype != "float64" else STORE_LAYOUTS[1:])
    if dtype.startswith("int"):
        sp["points"] = integral_points(sp["points"])
    return {"dtype": dtype, "layout": layout}


def integral_points(points):
    """the points rounded to integers, kept pairwise distinct"""
    pts, seen = [], set()
    for p in points:
        q = [float(int(round(x))) for x in p]
        while tuple(q) in seen:
            q[0] += 1.0
        seen.add(tuple(q))
        pts.append(q)
    return pts


def stored(points, st):
    """the ndarray for a storage variant"""
    import numpy as np
    a = np.array(points, dtype=st["dtype"])
    lay = st["layout"]
    if lay == "F":
        a = np.asfortranarray(a)
    elif lay == "strided":
        big = np.zeros((2 * a.shape[0], a.shape[1] + 1), dtype=a.dtype)
        big[::2, :-1] = a
        a = big[::2, :-1]
    elif lay == "readonly":
        a.flags.writeable = False
    return a


def build_shape(sp):
    import numpy as np
    from collections import OrderedDict
    import menpo.shape as ms
    from menpo.image import Image
    st = sp.get("store")
    cls = sp["cls"]
    pts = np.array(sp["points"], dtype=float) if st is None else np.array(sp["points"], dtype=st["dtype"])
    if pts.ndim == 1:
        pts = pts.reshape(0, sp.get("n_dims", 2))
    if cls == "PointCloud":
        o = ms.PointCloud(pts, copy=not (st and st["layout"] == "nocopy"))
    elif cls == "TriMesh":
        o = ms.TriMesh(pts, trilist=np.array(sp["trilist"]), copy=not (st and st["layout"] == "nocopy"))
    elif cls == "ColouredTriMesh":
        o = ms.ColouredTriMesh(pts, trilist=np.array(sp["trilist"]), colours=np.array(sp["colours"]))
    elif cls == "TexturedTriMesh":
        tex = Image(np.array(sp["texture"], dtype=float))
        if sp.get("texture_landmarks"):
            tex.landmarks["t"] = ms.PointCloud(np.array(sp["texture_landmarks"]))
        o = ms.TexturedTriMesh(pts, tcoords=np.array(sp["tcoords"]), texture=tex, trilist=np.array(sp["trilist"]))
    elif cls == "PointUndirectedGraph":
        o = ms.PointUndirectedGraph.init_from_edges(pts, np.array(sp["edges"]))
    elif cls == "PointDirectedGraph":
        o = ms.PointDirectedGraph.init_from_edges(pts, np.array(sp["edges"]))
    elif cls == "PointTree":
        o = ms.PointTree.init_from_edges(pts, np.array(sp["edges"]), root_vertex=sp["root"])
    elif cls == "LabelledPointUndirectedGraph":
        masks = OrderedDict((nm, np.array(m, dtype=bool)) for nm, m in sp["labels"])
        o = ms.LabelledPointUndirectedGraph.init_from_edges(pts, np.array(sp["edges"]), masks)
    else:
        raise common.Infra("unknown shape class in spec: %r" % cls)
    if st is not None and st["layout"] in ("F", "strided", "readonly"):
        o.points = stored(sp["points"], st)          # public attribute; what a caller's own array looks like
    for nm, g in sp["groups"]:
        o.landmarks[nm] = build_shape(g)
        gst = g.get("store")
        if gst is not None and gst["layout"] in ("F", "strided", "readonly"):
            # `landmarks[nm] = x` stores a copy (C-contiguous, writeable): give the stored group the layout again
            o.landmarks[nm].points = stored(g["points"], gst)
    for n1, n2 in sp.get("alias", []):
        o.landmarks._landmark_groups[n2] = o.landmarks._landmark_groups[n1]
    if sp.get("share_points"):
        o.landmarks[sp["share_points"]].points = o.points
    if sp.get("pre"):
        # a previous life: the shape under test is itself the result of an earlier transform (its arrays are
        # whatever that transform returned: views, other dtypes, other layouts)
        o = build_transform(sp["pre"]).apply(o)
    return o


HOMOG = ["Homogeneous", "Affine", "Similarity", "Rotation", "Translation", "UniformScale", "NonUniformScale"]
ALIGN = ["AlignmentAffine", "AlignmentSimilarity", "AlignmentRotation", "AlignmentTranslation", "AlignmentUniformScale"]


def rot_matrix(rng, d):
    c, s = common.rat_circle(rng)
    c, s = float(c), float(s)
    if d == 2:
        return [[c, -s], [s, c]]
    ax = rng.randrange(3)
    i, j = [k for k in range(3) if k != ax]
    r = [[1.0 if a == b else 0.0 for b in range(3)] for a in range(3)]
    r[i][i], r[i][j], r[j][i], r[j][j] = c, -s, s, c
    return r


def gen_linear(rng, d):
    """well conditioned dyadic linear part: 3*I + small"""
    return [[(3.0 if i == j else 0.0) + dy(rng, -1, 1) for j in range(d)] for i in range(d)]


def gen_align_pts(rng, d, n=None):
    import numpy as np
    n = n or rng.randint(d + 2, d + 4)
    while True:
        src = np.array([[dy(rng) for _ in range(d)] for _ in range(n)])
        if np.linalg.matrix_rank(src - src.mean(0)) == d and len({tuple(p) for p in src.tolist()}) == n:
            break
    lin = np.array(gen_linear(rng, d)) / 2.0
    tgt = src.dot(lin.T) + np.array([dy(rng) for _ in range(d)]) + \
        np.array([[rng.randint(-2, 2) / 8.0 for _ in range(d)] for _ in range(n)])
    return src.tolist(), tgt.tolist()


def grid_mesh(rng):
    """jittered 3x3 grid in [0,8]^2 with a fixed triangulation (no folding: jitter < 1/4 cell)"""
    pts = [[4.0 * i + rng.randint(-3, 3) / 4.0, 4.0 * j + rng.randint(-3, 3) / 4.0] for i in range(3) for j in range(3)]
    tl = []
    for i in range(2):
        for j in range(2):
            a, b, c, dd = 3 * i + j, 3 * i + j + 1, 3 * (i + 1) + j, 3 * (i + 1) + j + 1
            tl += [[a, b, c], [b, dd, c]]
    return pts, tl


def gen_transform_spec(rng, kind, d):
    import numpy as np
    if kind == "Homogeneous":
        h = [row + [dy(rng)] for row in gen_linear(rng, d)] + [[rng.randint(0, 2) / 128.0 for _ in range(d)] + [1.0]]
        return {"kind": kind, "h": h}
    if kind == "Affine":
        h = [row + [dy(rng)] for row in gen_linear(rng, d)] + [[0.0] * d + [1.0]]
        return {"kind": kind, "h": h}
    if kind == "Similarity":
        r = rot_matrix(rng, d)
        s = rng.choice([0.5, 1.5, 2.0, 2.5])
        h = [[s * v for v in row] + [dy(rng)] for row in r] + [[0.0] * d + [1.0]]
        return {"kind": kind, "h": h}
    if kind == "Rotation":
        return {"kind": kind, "r": rot_matrix(rng, d)}
    if kind == "Translation":
        return {"kind": kind, "t": [dy(rng) for _ in range(d)]}
    if kind == "UniformScale":
        return {"kind": kind, "s": rng.choice([0.25, 0.5, 1.5, 2.0, 3.0]), "d": d}
    if kind == "NonUniformScale":
        return {"kind": kind, "s": [rng.choice([0.25, 0.5, 1.5, 2.0, 3.0]) for _ in range(d)]}
    if kind in ALIGN or kind == "ThinPlateSplines":
        if kind == "ThinPlateSplines":
            src, tgt = gen_align_pts(rng, 2, rng.randint(5, 8))
        else:
            src, tgt = gen_align_pts(rng, d)
        return {"kind": kind, "src": src, "tgt": tgt}
    if kind == "PiecewiseAffine":
        pts, tl = grid_mesh(rng)
        tgt = (np.array(pts).dot(np.array([[1.25, 0.25], [-0.5, 1.5]])) + np.array([3.0, -2.0]) +
               np.array([[rng.randint(-2, 2) / 8.0, rng.randint(-2, 2) / 8.0] for _ in pts])).tolist()
        return {"kind": kind, "mesh": pts, "trilist": tl, "tgt": tgt}
    if kind == "WithDims":
        dims = rng.choice([[1, 0], [0, 0]]) if d == 2 else rng.choice([[0, 1], [0, 2], [2, 1, 0], [1, 2]])
        return {"kind": kind, "dims": dims}
    if kind == "TransformChain":
        ks = [rng.choice(HOMOG + ALIGN[:2]) for _ in range(rng.randint(2, 3))]
        return {"kind": kind, "members": [gen_transform_spec(rng, k, d) for k in ks]}
    if kind == "ChainWithPWA":
        # a piecewise-affine member inside a chain (TransformChain batches the way AbstractPWA does)
        return {"kind": "TransformChain", "members": [gen_transform_spec(rng, "PiecewiseAffine", 2),
                                                      gen_transform_spec(rng, "Affine", 2)]}
    if kind == "ChainWithTPS":
        return {"kind": "TransformChain", "members": [gen_transform_spec(rng, "Affine", 2),
                                                      gen_transform_spec(rng, "ThinPlateSplines", 2)]}
    raise common.Infra("unknown transform kind %r" % kind)


def build_transform(sp):
    import numpy as np
    import menpo.transform as mt
    from menpo.shape import PointCloud, TriMesh
    k = sp["kind"]
    if k in ("Homogeneous", "Affine", "Similarity"):
        return getattr(mt, k)(np.array(sp["h"]))
    if k == "Rotation":
        return mt.Rotation(np.array(sp["r"]))
    if k == "Translation":
        return mt.Translation(np.array(sp["t"]))
    if k == "UniformScale":
        return mt.UniformScale(sp["s"], sp["d"])
    if k == "NonUniformScale":
        return mt.NonUniformScale(np.array(sp["s"]))
    if k in ALIGN or k == "ThinPlateSplines":
        return getattr(mt, k)(PointCloud(np.array(sp["src"])), PointCloud(np.array(sp["tgt"])))
    if k == "PiecewiseAffine":
        return mt.PiecewiseAffine(TriMesh(np.array(sp["mesh"]), trilist=np.array(sp["trilist"])),
                                  PointCloud(np.array(sp["tgt"])))
    if k == "WithDims":
        return mt.WithDims(sp["dims"])
    if k == "TransformChain":
        return mt.TransformChain([build_transform(m) for m in sp["members"]])
    raise common.Infra("unknown transform kind %r" % k)


def pwa_domain(tsp):
    """generator of points inside the source mesh when the transform is (or starts with) a piecewise affine one"""
    pw = tsp if tsp["kind"] == "PiecewiseAffine" else None
    if tsp["kind"] == "TransformChain" and tsp["members"] and tsp["members"][0]["kind"] == "PiecewiseAffine":
        pw = tsp["members"][0]
    return None if pw is None else pwa_inside(pw["mesh"], pw["trilist"])


def pwa_inside(mesh_pts, trilist):
    import numpy as np
    mp = np.array(mesh_pts)

    def draw(rng):
        tl = trilist[rng.randrange(len(trilist))]
        a, b, c = rng.randint(2, 10), rng.randint(2, 10), rng.randint(2, 10)
        p = (a * mp[tl[0]] + b * mp[tl[1]] + c * mp[tl[2]]) / float(a + b + c)
        return [float(p[0]), float(p[1])]
    return draw


KINDS_ND = HOMOG + ALIGN + ["TransformChain", "WithDims"]
KINDS_2D = ["ThinPlateSplines", "PiecewiseAffine", "ChainWithTPS", "ChainWithPWA"]


# ------------------------------------------------------------------------------- observation of real objects

def digest(o, seen=None, skip=()):
    """deep, order-preserving state digest through __dict__ (never calls a property, so it cannot itself
    create a lazily built LandmarkManager)"""
    import numpy as np
    import scipy.sparse as sp
    seen = set() if seen is None else seen
    if o is None or isinstance(o, (bool, int, float, str, bytes)):
        return repr(o)
    if isinstance(o, np.generic):
        return repr(o.item())
    if isinstance(o, np.ndarray):
        return ("nd", o.shape, str(o.dtype), o.tobytes())
    if sp.issparse(o):
        c = o.tocoo()
        trip = sorted(zip(c.row.tolist(), c.col.tolist(), c.data.tolist()))
        return ("sp", type(o).__name__, o.shape, str(o.dtype), tuple(trip))
    if isinstance(o, dict):
        return ("dict", type(o).__name__, tuple((repr(k), digest(v, seen, skip)) for k, v in o.items()))
    if isinstance(o, (list, tuple)):
        return (type(o).__name__, tuple(digest(v, seen, skip) for v in o))
    if id(o) in seen:
        return ("cycle", type(o).__name__)
    if hasattr(o, "__dict__") and not callable(o):
        seen = seen | {id(o)}

        def canon(k, v):
            # `_landmarks = None` and a LandmarkManager without groups are the same public state (the `landmarks` getter
            # creates the empty manager on first touch; has_landmarks / n_groups do not change)
            if k == "_landmarks" and v is not None and type(v).__name__ == "LandmarkManager" \
                    and len(v.__dict__.get("_landmark_groups") or ()) == 0:
                return None
            return v
        return ("obj", type(o).__name__, tuple((k, digest(canon(k, v), seen, skip)) for k, v in o.__dict__.items()
                                              if k not in skip))
    return ("other", type(o).__name__, getattr(o, "__name__", ""))


def groups_of(o):
    """[(name, group)] without touching the lazy `landmarks` property"""
    lm = o.__dict__.get("_landmarks")
    if lm is None:
        return []
    return list(lm.__dict__["_landmark_groups"].items())


MODEL_CLASSES = set(extract_c02.SHAPES) | {"LandmarkManager", "Image"}


def toks_of(v, it):
    """deep digest of a value as the token stream of the Lean model (`MenpoModel.C02.digest`): a list of tokens,
    each a list of strings.  I <int> | A <arr> | D | F | O <class> | K <name> | C"""
    import numpy as np
    import scipy.sparse as sp
    if v is None:
        return [["I", "0"]]
    if isinstance(v, (bool, np.bool_, int, np.integer)):
        return [["I", str(int(v))]]
    if isinstance(v, np.ndarray) and v.ndim >= 1:
        a = v.astype(float)
        return [["A"] + enc_arr(a.reshape(a.shape[0], -1).tolist() if a.size else [])]
    if sp.issparse(v):
        c = v.tocoo()
        return [["A"] + enc_arr([list(map(float, t)) for t in sorted(zip(c.row.tolist(), c.col.tolist(), c.data.tolist()))])]
    if isinstance(v, dict):
        out = [["D"]]
        for k, x in v.items():
            out += [["K", it("k:" + str(k))]] + toks_of(x, it)
        return out + [["C"]]
    if isinstance(v, list):
        out = [["D"]]
        for i, x in enumerate(v):
            out += [["K", "%d" % i]] + toks_of(x, it)
        return out + [["C"]]
    if hasattr(v, "__dict__") and not callable(v) and not isinstance(v, type):
        name = type(v).__name__
        out = [["O", name if name in MODEL_CLASSES else "other"]] if hasattr(v, "copy") else [["F"]]
        for k, x in v.__dict__.items():
            out += [["K", k]] + toks_of(x, it)
        return out + [["C"]]
    return [["I", str(1000 + int(it("imm:" + repr(v))[1:]))]]       # str, float, tuple, Path, function …


def extras_of(o):
    """[(attribute, wire value)] for everything but points and landmarks, in __dict__ order; wire value =
    ('i', int) | ('a', 2-D list) | ('d', [(key, 2-D list)]) | ('t', token stream) — the last for attributes that
    are themselves objects (the tcoords PointCloud, the texture Image with its own landmarks) or dicts of them"""
    import numpy as np
    import scipy.sparse as sp
    out = []
    for k, v in o.__dict__.items():
        if k in ("points", "_landmarks"):
            continue
        if v is None:
            out.append((k, ("i", -1)))
        elif isinstance(v, (bool, int, np.integer)):
            out.append((k, ("i", int(v))))
        elif isinstance(v, np.ndarray):
            a = v.astype(float)
            out.append((k, ("a", a.reshape(a.shape[0], -1).tolist() if a.ndim >= 1 and a.size else [])))
        elif sp.issparse(v):
            c = v.tocoo()
            out.append((k, ("a", [list(map(float, t)) for t in sorted(zip(c.row.tolist(), c.col.tolist(), c.data.tolist()))])))
        elif isinstance(v, dict) and all(isinstance(vv, np.ndarray) for vv in v.values()):
            out.append((k, ("d", [(kk, [[float(x) for x in np.asarray(vv).ravel()]]) for kk, vv in v.items()])))
        elif isinstance(v, list) and all(x is None or isinstance(x, (int, float, np.integer)) for x in v):
            out.append((k, ("a", [[-1.0 if x is None else float(x) for x in v]])))
        else:
            out.append((k, ("t", v)))
    return out


class Interner:
    def __init__(self):
        self.tab = {}

    def __call__(self, s):
        if s not in self.tab:
            self.tab[s] = "s%d" % len(self.tab)
        return self.tab[s]


def enc_arr(a):
    r = len(a)
    c = len(a[0]) if r else 0
    return ["%d" % r, "%d" % c] + [fq(x) for row in a for x in row]


def enc_shape(o, it):
    toks = [type(o).__name__] + enc_arr(o.points.tolist())
    ex = extras_of(o)
    toks.append(str(len(ex)))
    for k, (tag, val) in ex:
        toks.append(k)
        if tag == "i":
            toks += ["i", str(val)]
        elif tag == "a":
            toks += ["a"] + enc_arr(val)
        elif tag == "t":
            tt = toks_of(val, it)
            toks += ["t", str(len(tt))] + [x for t in tt for x in t]
        else:
            toks += ["d", str(len(val))]
            for kk, vv in val:
                toks += [it(kk)] + enc_arr(vv)
    gs = groups_of(o)
    toks.append(str(len(gs)))
    for nm, g in gs:
        toks += [it(nm)] + enc_shape(g, it)
    return toks


def all_arrays(o):
    """points arrays of the shape and of every group at every depth"""
    out = [o.points]
    for _, g in groups_of(o):
        out += all_arrays(g)
    return out


def arr_close(a, b, tol=TOL):
    import numpy as np
    a, b = np.asarray(a, dtype=float), np.asarray(b, dtype=float)
    if a.shape != b.shape:
        return False
    if a.size == 0:
        return True
    scale = max(1.0, float(np.max(np.abs(b))))
    return bool(np.all(np.abs(a - b) <= tol * (1 + scale)))


def hom_exact(h, pts):
    """exact rational image of points under the homogeneous matrix h (lists of floats)"""
    from fractions import Fraction as F
    H = [[F(x) for x in row] for row in h]
    d = len(H) - 1
    out = []
    for p in pts:
        hx = [F(x) for x in p] + [F(1)]
        hy = [sum(r[i] * hx[i] for i in range(d + 1)) for r in H]
        out.append([y / hy[d] for y in hy[:d]])
    return out


# ------------------------------------------------------------------------------- one case

class _Stop(Exception):
    """the oracle failed on this case (recorded); the remaining checks of the case are skipped so that one defect
    gives one replay per shape class, not one per symptom"""


def chk(ctx, cond, site, pattern, text, rp):
    if not cond:
        ctx.fail(site, pattern, text, rp)
        raise _Stop()


def compare_tree(ctx, site, t_fresh, before, after, rp, path="root"):
    """oracle, recursively: `after` must be `before` with the transform applied to points; everything else equal"""
    import numpy as np
    chk(ctx, type(after) is type(before), site, "class-changed",
                    "%s: class %s became %s" % (path, type(before).__name__, type(after).__name__), rp)
    want = t_fresh.apply(before.points.copy())
    chk(ctx, isinstance(after.points, np.ndarray) and arr_close(after.points, want), site,
                    "points-not-transformed" if path == "root" else "landmarks-not-moved",
                    "%s: points differ from transform.apply(points) (max abs diff %s)" % (
                        path, _maxdiff(after.points, want)), rp)
    it = Interner()
    eb, ea = [[(k, (tag, toks_of(v, it) if tag == "t" else v)) for k, (tag, v) in extras_of(x)] for x in (before, after)]
    chk(ctx, eb == ea and digest({k: v for k, v in before.__dict__.items() if k not in ("points", "_landmarks")}) ==
                    digest({k: v for k, v in after.__dict__.items() if k not in ("points", "_landmarks")}),
                    site, "structure-changed",
                    "%s: attributes other than points/landmarks changed: %s" % (
                        path, [k for (k, v), (k2, v2) in zip(eb, ea) if (k, v) != (k2, v2)] or "digest/attribute set"), rp)
    gb, ga = groups_of(before), groups_of(after)
    chk(ctx, [n for n, _ in gb] == [n for n, _ in ga], site, "groups-changed",
                    "%s: landmark groups %r became %r" % (path, [n for n, _ in gb], [n for n, _ in ga]), rp)
    for (n, b), (n2, a) in zip(gb, ga):
        compare_tree(ctx, site, t_fresh, b, a, rp, path + "/" + n)
    return True


def _maxdiff(a, b):
    import numpy as np
    try:
        return float(np.max(np.abs(np.asarray(a, dtype=float) - np.asarray(b, dtype=float))))
    except Exception:
        return "shape %r vs %r" % (getattr(a, "shape", None), getattr(b, "shape", None))


def objects_of(o):
    out = [o]
    lm = o.__dict__.get("_landmarks")
    if lm is not None:
        out.append(lm)
        out.append(lm.__dict__["_landmark_groups"])
    for _, g in groups_of(o):
        out += objects_of(g)
    return out


def run_case(ctx, ssp, tsp, batch, lines=None, pending=None, count=True, shrink=True, manager=False):
    """oracle on the real code; optionally queue the model query.  Returns True when the oracle held."""
    import numpy as np
    kind = tsp["kind"]
    site = "C02/apply/%s" % ssp["cls"]
    rp = {"shape": ssp, "transform": tsp, "batch_size": batch,
          "how": "from harness.c02 import build_shape, build_transform; s = build_shape(shape); t = build_transform("
                 "transform); r = t.apply(s, batch_size=batch_size)  # then compare r with s, and s/t with fresh builds"}
    shape = build_shape(ssp)
    t = build_transform(tsp)
    if tsp.get("warm"):
        # a previous life of the transform: it has been applied to something else before (memos, lazily built state)
        import numpy as _np
        t.apply(_np.array(tsp["warm"], dtype=float))
        ctx.count("transform-used-before") if count else None
    t_fresh = build_transform(tsp)
    d_shape = digest(shape)
    d_t = digest(t, skip=CACHE_ATTRS)
    kw = {} if batch is None else {"batch_size": batch}
    if count:
        gcls = sorted({g["cls"] for _, g in ssp["groups"]})
        ctx.count("shape:" + ssp["cls"])
        ctx.count("transform:" + kind)
        ctx.count("dims:%d" % spec_dims(ssp))
        ctx.count("groups:%d" % len(ssp["groups"]))
        for g in gcls:
            ctx.count("group-class:" + g)
        ctx.count("batch:" + ("none" if batch is None else "k"))
        for node in spec_nodes(ssp):
            if node.get("store"):
                ctx.count("store-dtype:" + node["store"]["dtype"])
                ctx.count("store-layout:" + node["store"]["layout"])
            if node.get("alias"):
                ctx.count("aliased-group")
            if node.get("share_points"):
                ctx.count("group-shares-host-array")
        if ssp.get("pre"):
            ctx.count("previous-life:" + ssp["pre"]["kind"])
        ctx.count("depth:%d" % spec_depth(ssp))
    try:
        res = t.apply(shape, **kw)
    except Exception as e:
        ctx.fail(site, "raises", "apply raised %s: %s" % (type(e).__name__, str(e)[:120]), rp)
        return False
    try:
        on_arr = oracle(ctx, site, rp, ssp, tsp, kw, shape, t, t_fresh, res, d_shape, d_t)
        ok = True
    except _Stop:
        on_arr, ok = None, False
        if shrink and ctx.failures and ctx.failures[-1][0] == site:
            minimise(ctx, ssp, tsp, batch)
    nontrivial = ok and (not arr_close(on_arr, shape.points)) and \
        (len(ssp["groups"]) > 0 or ssp["cls"] != "PointCloud")
    ctx.case((ssp["cls"], kind, batch, json.dumps(ssp, sort_keys=True), json.dumps(tsp, sort_keys=True)),
             nontrivial=nontrivial,
             sample={"shape": ssp["cls"], "dims": spec_dims(ssp), "groups": [[n, g["cls"], [m for m, _ in g["groups"]]]
                                                                                     for n, g in ssp["groups"]],
                     "transform": kind, "batch_size": batch})
    with_manager = ok and bool(ssp["groups"]) and manager
    if with_manager:
        ctx.count("entry:apply(landmark_manager)")
        try:
            oracle_manager(ctx, rp, ssp, tsp, kw)
        except _Stop:
            ok = False
    if lines is not None and ok:
        queue_model(ssp, tsp, kw, kind, t_fresh, lines, pending, rp, manager=with_manager)
    return ok


def oracle_manager(ctx, rp, ssp, tsp, kw):
    """`transform.apply(shape.landmarks)`: the LandmarkManager is Transformable itself — a new manager whose groups
    are the input's groups moved by the map; the input manager, its groups, the host shape and the transform intact"""
    from menpo.landmark import LandmarkManager
    site = "C02/apply/LandmarkManager"
    rp = dict(rp, how="s = build_shape(shape); t = build_transform(transform); r = t.apply(s.landmarks, batch_size="
                      "batch_size)  # then compare r's groups with s.landmarks, and s/t with fresh builds")
    shape, t, t_fresh = build_shape(ssp), build_transform(tsp), build_transform(tsp)
    lm = shape.landmarks
    d0, dt = digest(shape), digest(t, skip=CACHE_ATTRS)
    try:
        res = t.apply(lm, **kw)
    except Exception as e:
        res = None
        chk(ctx, False, site, "raises", "apply(landmark manager) raised %s: %s" % (type(e).__name__, str(e)[:120]), rp)
    chk(ctx, type(res) is LandmarkManager and res is not lm, site, "class-changed",
        "apply(landmark manager) returned %s%s" % (type(res).__name__, " (its argument)" if res is lm else ""), rp)
    gb = groups_of(build_shape(ssp))
    ga = list(res.__dict__["_landmark_groups"].items())
    chk(ctx, [n for n, _ in gb] == [n for n, _ in ga], site, "groups-changed",
        "landmark groups %r became %r" % ([n for n, _ in gb], [n for n, _ in ga]), rp)
    for (n, b), (_, a) in zip(gb, ga):
        compare_tree(ctx, site, t_fresh, b, a, rp, "manager/" + n)
    chk(ctx, digest(shape) == d0, site, "input-mutated", "the manager (or its host shape) changed during apply", rp)
    chk(ctx, digest(t, skip=CACHE_ATTRS) == dt, site, "transform-mutated", "the transform changed during apply", rp)
    mine = {id(x) for x in objects_of(shape)}
    shared = [type(x).__name__ for _, g in ga for x in objects_of(g) if id(x) in mine]
    chk(ctx, not shared and id(res.__dict__["_landmark_groups"]) not in mine, site, "shares-objects",
        "the returned manager shares %r with the input" % (shared[:4] or "its group dict"), rp)


def spec_nodes(sp):
    out = [sp]
    for _, g in sp["groups"]:
        out += spec_nodes(g)
    return out


def spec_dims(sp):
    return len(sp["points"][0]) if sp["points"] else sp.get("n_dims", 2)


def spec_depth(sp):
    """nesting depth of the landmark groups (0 = no groups)"""
    return 1 + max(spec_depth(g) for _, g in sp["groups"]) if sp["groups"] else 0


def first_failure(ssp, tsp, batch):
    """(site, pattern) of the first oracle failure of the case on the real code, or None"""
    scratch = common.Ctx(PROP, "quick", 0)
    scratch.known = []
    try:
        run_case(scratch, ssp, tsp, batch, count=False, shrink=False)
    except Exception:
        return None
    return scratch.failures[0][:2] if scratch.failures else None


def minimise(ctx, ssp, tsp, batch):
    """greedy shrinking of the failing case just recorded (same site and pattern must keep failing): drop the batch
    size, drop landmark groups at every depth, shorten chains; the recorded replay is replaced by the minimal one"""
    site, pattern, text, rp = ctx.failures[-1]
    done = getattr(ctx, "_c02_minimised", set())
    ctx._c02_minimised = done
    if (site, pattern) in done:
        return
    done.add((site, pattern))
    import copy as _copy
    cur = (_copy.deepcopy(ssp), _copy.deepcopy(tsp), batch)

    def group_paths(sp, prefix=()):
        out = []
        for i, (_, g) in enumerate(sp["groups"]):
            out.append(prefix + (i,))
            out += group_paths(g, prefix + (i,))
        return out

    def without(sp, path):
        sp = _copy.deepcopy(sp)
        node = sp
        for i in path[:-1]:
            node = node["groups"][i][1]
        del node["groups"][path[-1]]
        return sp

    budget = 60
    changed = True
    while changed and budget > 0:
        changed = False
        cands = []
        if cur[2] is not None:
            cands.append((cur[0], cur[1], None))
        for pth in sorted(group_paths(cur[0]), key=lambda q: -len(q)):
            cands.append((without(cur[0], pth), cur[1], cur[2]))
        if cur[1]["kind"] == "TransformChain" and len(cur[1]["members"]) > 1:
            for i in range(len(cur[1]["members"])):
                tt = _copy.deepcopy(cur[1])
                del tt["members"][i]
                cands.append((cur[0], tt, cur[2]))
        for c in cands:
            budget -= 1
            if budget <= 0:
                break
            if first_failure(*c) == (site, pattern):
                cur = c
                changed = True
                break
    rp2 = dict(rp, shape=cur[0], transform=cur[1], batch_size=cur[2], minimised_from={"groups": len(ssp["groups"])})
    ctx.failures[-1] = (site, pattern, text, rp2)


def oracle(ctx, site, rp, ssp, tsp, kw, shape, t, t_fresh, res, d_shape, d_t):
    """the property text as a predicate over the real objects; raises _Stop at the first failed clause"""
    import numpy as np
    kind = tsp["kind"]
    # (a) new object of the same class, (b) landmarks, (c) structure — against a fresh transform and a fresh input
    chk(ctx, res is not shape, site, "same-object", "apply returned its argument", rp)
    try:
        compare_tree(ctx, site, t_fresh, build_shape(ssp), res, rp)
    except _Stop:
        raise
    except Exception as e:
        chk(ctx, False, site, "result-malformed", "result cannot be inspected: %s: %s" % (type(e).__name__, str(e)[:120]), rp)
    # (e) the same transform object and the same batch size on the bare array, which must stay intact
    arr = shape.points.copy()
    arr_bytes = arr.tobytes()
    try:
        on_arr = t.apply(arr, **kw)
    except Exception as e:
        on_arr = None
        chk(ctx, False, site, "array-raises", "apply(array) raised %s" % type(e).__name__, rp)
    chk(ctx, arr_close(res.points, on_arr), site, "array-disagrees",
        "apply(shape).points differs from apply(shape.points) (max abs diff %s)" % _maxdiff(res.points, on_arr), rp)
    chk(ctx, arr.tobytes() == arr_bytes, site, "array-argument-written", "apply(array) wrote into its argument", rp)
    # NOT judged (the text demands the same numbers and no modification, not a fresh buffer: `TransformChain([])` hands
    # its argument back): counted only
    if on_arr is not None and np.shares_memory(on_arr, arr):
        ctx.count("note:apply(array)-returned-memory-of-its-argument")
    # homogeneous family: the numbers against exact rational arithmetic
    if kind in HOMOG + ALIGN:
        hm = np.array(t_fresh.h_matrix)
        want = np.array([[float(x) for x in row] for row in hom_exact(hm.tolist(), build_shape(ssp).points.tolist())],
                        dtype=float).reshape(-1, hm.shape[0] - 1)
        chk(ctx, arr_close(res.points, want), site, "points-wrong",
            "points differ from the exact image under h_matrix (max abs diff %s)" % _maxdiff(res.points, want), rp)
    # batching is invisible (every transform treats each point on its own): shape, landmarks at every depth
    if kw:
        plain = build_transform(tsp).apply(build_shape(ssp))
        for x, y in zip(all_arrays(res), all_arrays(plain)):
            chk(ctx, arr_close(x, y), site, "batched-differs",
                "apply(shape, batch_size=%r) differs from apply(shape) (max abs diff %s)" % (
                    kw["batch_size"], _maxdiff(x, y)), rp)
    # a chain applied to the shape = its members applied to the shape one after the other
    if kind == "TransformChain":
        seq = build_shape(ssp)
        for m in build_transform(tsp).transforms:
            seq = m.apply(seq)
        ok_seq = len(all_arrays(seq)) == len(all_arrays(res)) and \
            all(arr_close(x, y) for x, y in zip(all_arrays(res), all_arrays(seq)))
        chk(ctx, ok_seq, site, "chain-not-sequential",
            "TransformChain.apply(shape) differs from applying the members one after the other", rp)
    # (d) nothing mutated
    chk(ctx, digest(shape) == d_shape, site, "input-mutated",
        "the input shape (or its landmarks) changed during apply: %s" % _first_diff(build_shape(ssp), shape), rp)
    chk(ctx, digest(t, skip=CACHE_ATTRS) == d_t, site, "transform-mutated", "the transform changed during apply", rp)
    # aliasing between result and input: no object, dict or points buffer in common; writes through the result invisible
    mine = {id(x) for x in objects_of(shape)}
    shared = [type(x).__name__ for x in objects_of(res) if id(x) in mine]
    # Sharing between result and input is NOT modification and the property text does not forbid it: these three are
    # observations about the correspondence with the heap model (whose theorems say the result consists of new cells);
    # they lead to the directed search, they are not oracle failures.  The property-level consequence of harmful sharing
    # (the in-place pass on a shared manager / array moves the INPUT) is judged above: `input-mutated`.
    if shared:
        ctx.mismatch("sharing", "result shares %r with the input (the heap model: every object of the result is new)"
                     % shared[:4], rp)
    in_arrays = all_arrays(shape)
    out_arrays = all_arrays(res)
    if any(np.shares_memory(x, y) for x in in_arrays for y in out_arrays):
        ctx.mismatch("sharing", "a points array of the result shares memory with the input (the heap model: the closure's "
                                "result is a new array)", rp)
    for x in out_arrays:
        if x.flags.writeable:
            x += 1
    for x in objects_of(res):
        if isinstance(x, dict):
            x["__verif__"] = None
    if digest(shape) != d_shape:
        ctx.mismatch("sharing", "writing into the result changed the input (the heap model: result and input share no "
                                "mutable cell)", rp)
    return on_arr


def chunks_of(a, k):
    return [a[lo:lo + k] for lo in range(0, a.shape[0], k)]


def exact_F(tsp, t):
    """the transform as a formula the Lean model evaluates itself (None when it is not plumbing + h_matrix)"""
    import numpy as np
    k = tsp["kind"]
    if k in HOMOG + ALIGN:
        # the formula the live class runs: Homogeneous._apply or Affine._apply (affine_eq_hom: the same function)
        sup = extract_c02.supplier(type(t), "_apply")
        kindF = {"Homogeneous": "hom", "Affine": "aff"}.get(sup.__name__ if sup else None)
        if kindF is None:
            return None
        return [kindF] + enc_arr(np.array(t.h_matrix).tolist())
    if k == "WithDims" and all(isinstance(j, int) and j >= 0 for j in tsp["dims"]):
        return ["dims", str(len(tsp["dims"]))] + [str(j) for j in tsp["dims"]]
    if k == "TransformChain":
        ms = [exact_F(m, tm) for m, tm in zip(tsp["members"], t.transforms)]
        if all(m is not None for m in ms):
            return ["chain", str(len(ms))] + [x for m in ms for x in m]
    return None


def queue_model(ssp, tsp, kw, kind, t_fresh, lines, pending, rp, manager=False):
    import numpy as np
    batch = kw.get("batch_size")
    it = Interner()
    fresh_in = build_shape(ssp)
    res2 = build_transform(tsp).apply(build_shape(ssp), **kw)
    # the transform as the table of what the real code does to each array it is handed: whole arrays without
    # batch_size, the batches x[lo:lo+k] with it (the model does the cutting and stacking itself, `applyBatched`)
    tab, seen = [], set()
    for a in all_arrays(fresh_in):
        pieces = [a] if (batch is None or a.shape[0] == 0) else chunks_of(a, batch)
        for c in pieces:
            key = c.tobytes() + bytes(c.shape)
            if key in seen:
                continue
            seen.add(key)
            tab.append((np.asarray(c, dtype=float).tolist(), np.asarray(build_transform(tsp).apply(np.array(c)), dtype=float).tolist()))
    ftoks = ["tab", str(len(tab))]
    for a, b in tab:
        ftoks += enc_arr(a) + enc_arr(b)
    stoks = enc_shape(fresh_in, it)
    btok = "0" if batch is None else str(batch)
    cid = "m%d" % len(lines)
    lines.append("%s applyb %d %s %s %s" % (cid, FUEL, btok, " ".join(ftoks), " ".join(stoks)))
    pending[cid] = ("apply-tab", enc_shape(res2, it), rp)
    ex = exact_F(tsp, t_fresh)
    if ex is not None:
        cid = "h%d" % len(lines)
        lines.append("%s applyb %d %s %s %s" % (cid, FUEL, btok, " ".join(ex), " ".join(stoks)))
        pending[cid] = ("apply-" + ex[0], enc_shape(res2, it), rp)
    if manager and groups_of(fresh_in):
        resm = build_transform(tsp).apply(build_shape(ssp).landmarks, **kw)
        gs = list(resm.__dict__["_landmark_groups"].items())
        gtoks = [str(len(gs))]
        for nm, g in gs:
            gtoks += [it(nm)] + enc_shape(g, it)
        cid = "g%d" % len(lines)
        lines.append("%s applym %d %s %s %s" % (cid, FUEL, btok, " ".join(ex if ex is not None else ftoks), " ".join(stoks)))
        pending[cid] = ("apply-manager", gtoks, rp)


def _first_diff(a, b, path="root"):
    """where two shapes (fresh build vs the object after the call) differ"""
    if digest({k: v for k, v in a.__dict__.items() if k != "_landmarks"}) != \
            digest({k: v for k, v in b.__dict__.items() if k != "_landmarks"}):
        for k in a.__dict__:
            if k != "_landmarks" and digest(a.__dict__[k]) != digest(b.__dict__.get(k)):
                return "%s.%s" % (path, k)
        return path
    ga, gb = groups_of(a), groups_of(b)
    if [n for n, _ in ga] != [n for n, _ in gb]:
        return path + ".landmarks (groups)"
    for (n, x), (_, y) in zip(ga, gb):
        dd = _first_diff(x, y, path + "/" + n)
        if dd:
            return dd
    return ""


def tokens_agree(model_toks, impl_toks):
    """structure and extras token by token; numbers with tolerance"""
    if len(model_toks) != len(impl_toks):
        return False, "token count %d vs %d" % (len(model_toks), len(impl_toks))
    for i, (a, b) in enumerate(zip(model_toks, impl_toks)):
        if a == b:
            continue
        try:
            fa, fb = common.pq(a), common.pq(b)
        except (ValueError, ZeroDivisionError):
            return False, "token %d: %r vs %r" % (i, a, b)
        if not common.close(fa, fb, max(1.0, abs(float(fb))), TOL):
            return False, "token %d: %r vs %r" % (i, float(fa), float(fb))
    return True, ""


def check_model(ctx, lines, pending):
    if not lines:
        return
    model = common.run_driver(PROP, lines)
    for cid, (op, impl_toks, rp) in pending.items():
        reply = model[cid].split()
        ctx.count("model:" + op)
        if op == "run-history":
            if len(reply) < 5 or reply[0] != "ok":
                ctx.mismatch(op, "model answered %r" % " ".join(reply[:8]), rp)
                continue
            flags = dict(x.split("=") for x in reply[1:5])
            if flags != {"rep": "1", "changed": "0", "repafter": "1", "fresh": "1"}:
                ctx.mismatch(op, "model flags %r (rep: the heap image of the real objects satisfies the hypothesis of "
                                 "run_refines; changed: cells written below the old heap top; repafter: all objects hold "
                                 "the value-level shapes afterwards, deep)" % flags, rp)
                continue
            ok, why = tokens_agree(reply[5:], impl_toks)
            if not ok:
                ctx.mismatch(op, "results of the model differ from the implementation: " + why, rp)
            continue
        if op in ("applye", "wdims"):
            outcome, toks = impl_toks
            got = "ok" if reply[0] == "ok" else (reply[1] if len(reply) > 1 else "?")
            if got != outcome:
                ctx.mismatch(op, "the model says %r, the implementation %r (ok = returns; value / index = the exception "
                                 "raised)" % (" ".join(reply[:6]), outcome), rp)
                continue
            if op == "applye":
                flags = dict(x.split("=") for x in (reply[1:4] if got == "ok" else reply[2:5]))
                want = {"changed": "0", "intact": "1", "agree": "1"} if got == "ok" else \
                       {"heap": outcome, "changed": "0", "intact": "1"}
                if flags != want:
                    ctx.mismatch(op, "model flags %r, wanted %r (heap: outcome of the heap-level run; changed: cells written "
                                     "below the old heap top, also when the call raises; intact: the input reads back)"
                                 % (flags, want), rp)
                    continue
            if got == "ok":
                ok, why = tokens_agree(reply[4:] if op == "applye" else reply[1:], toks)
                if not ok:
                    ctx.mismatch(op, "result of the model differs from the implementation: " + why, rp)
            continue
        nflags = 4 if op == "apply-manager" else 7
        if len(reply) < nflags + 1 or reply[0] != "ok":
            ctx.mismatch(op, "model answered %r" % " ".join(reply[:8]), rp)
            continue
        flags = dict(x.split("=") for x in reply[1:nflags + 1])
        want = {"changed": "0", "intact": "1", "fresh": "1", "agree": "1"}
        if op != "apply-manager":
            want.update({"rep": "1", "repd": "1", "tot": "1"})
        if flags != want:
            # the case lies outside the theorems' hypothesis or the heap model disagrees with the value model
            ctx.mismatch(op, "model flags %r (rep / repd: hypothesis of the heap theorems, shallow / every attribute "
                             "by deep digest; tot: hypothesis of apply_succeeds; changed: cells written below the old heap top; intact: the input reads "
                             "back, deep; agree: heap result = value result, deep)" % flags, rp)
            continue
        ok, why = tokens_agree(reply[nflags + 1:], impl_toks)
        if not ok:
            ctx.mismatch(op, "result of the model differs from the implementation: " + why, rp)


# ------------------------------------------------------------------------------- exploration

def draw_case(rng, cls, kind, d):
    """(shape spec, transform spec, batch size)"""
    if kind in KINDS_2D:
        d = 2
    tsp = gen_transform_spec(rng, kind, d)
    inside = pwa_domain(tsp)
    ssp = gen_shape_spec(rng, cls, d, 3 if rng.random() < 0.15 else 2, inside)
    if rng.random() < 0.25:
        tsp["warm"] = gen_points(rng, rng.randint(1, 4), d, inside)
    if inside is None and rng.random() < 0.12:
        # previous life: the shape under test is the result of an earlier transform of the same dimension
        ssp["pre"] = gen_transform_spec(rng, rng.choice(["Homogeneous", "Affine", "Rotation", "NonUniformScale"]), d)
    n = len(ssp["points"])
    batch = rng.choice([None, None, None, 1, 2, 3, n, n + 2])
    return ssp, tsp, batch


def explore(ctx, rounds, lines, pending, model_share=1.0):
    rng = ctx.rng
    for _ in range(rounds):
        for cls in SHAPES:
            for d in (2, 3):
                for kind in KINDS_ND + (KINDS_2D if d == 2 else []):
                    ssp, tsp, batch = draw_case(rng, cls, kind, d)
                    use_model = lines is not None and rng.random() < model_share
                    run_case(ctx, ssp, tsp, batch, lines if use_model else None, pending,
                             manager=rng.random() < 0.25)


def directed(ctx, lines, pending):
    """corner cases every run: no landmarks, empty manager, every group class once, deep nesting, identity-like
    transforms, a bare LandmarkManager-free texture"""
    rng = ctx.rng
    for cls in SHAPES:
        for d in (2, 3):
            # every group class under this shape class, nested groups inside
            ssp = gen_shape_spec(rng, cls, d, 0)
            ssp["groups"] = [["g%d" % i, gen_shape_spec(rng, g, d, 1, n_groups=1)] for i, g in enumerate(SHAPES)]
            for node in spec_nodes(ssp):
                for key in ("store", "alias", "share_points"):
                    node.pop(key, None)
            run_case(ctx, ssp, gen_transform_spec(rng, "Affine", d), None, lines, pending, manager=True)
            # no groups at all, identity-like transforms
            ssp = gen_shape_spec(rng, cls, d, 0)
            run_case(ctx, ssp, {"kind": "Translation", "t": [0.0] * d}, None, lines, pending)
            run_case(ctx, ssp, {"kind": "UniformScale", "s": 1.0, "d": d}, 2, lines, pending)
            # chains of boundary length: the EMPTY chain (apply(array) hands its argument back: legal) and one member
            ssp = gen_shape_spec(rng, cls, d, 1, n_groups=1)
            for node in spec_nodes(ssp):
                for key in ("store", "alias", "share_points"):
                    node.pop(key, None)
            ctx.count("chain-length:0")
            run_case(ctx, ssp, {"kind": "TransformChain", "members": []}, [None, 2][d % 2], lines, pending)
            ctx.count("chain-length:1")
            run_case(ctx, ssp, {"kind": "TransformChain", "members": [gen_transform_spec(rng, "Affine", d)]},
                     [2, None][d % 2], lines, pending)
    # storage of the coordinates: every dtype and every layout under every shape class, on the host and on a
    # group; then the same shapes in a second life (result of an earlier transform), and aliasing inside the manager
    combos = [(dt, STORE_LAYOUTS[i % len(STORE_LAYOUTS)]) for i, dt in enumerate(STORE_DTYPES)] + \
             [(STORE_DTYPES[i % len(STORE_DTYPES)], lay) for i, lay in enumerate(STORE_LAYOUTS)]
    kinds = ["Translation", "Affine", "WithDims", "UniformScale", "Rotation", "TransformChain", "NonUniformScale",
             "Similarity", "AlignmentAffine"]
    for ci, cls in enumerate(SHAPES):
        for j, (dt, lay) in enumerate(combos):
            d = 2 + (ci + j) % 2
            ssp = gen_shape_spec(rng, cls, d, 0)
            g = gen_shape_spec(rng, SHAPES[(ci + j) % len(SHAPES)], d, 0)
            g2 = gen_shape_spec(rng, "PointCloud", d, 0)
            for node in (ssp, g, g2):
                node["store"] = {"dtype": dt, "layout": lay}
                if dt.startswith("int"):
                    node["points"] = integral_points(node["points"])
            g["groups"] = [["deep", g2]]
            ssp["groups"] = [["g", g]]
            kind = kinds[(ci + j) % len(kinds)]
            batch = [None, 2, None, 3][(ci + j) % 4]
            run_case(ctx, ssp, gen_transform_spec(rng, kind, d), batch, lines, pending, manager=(j % 3 == 0))
        for d in (2, 3):
            ssp = gen_shape_spec(rng, cls, d, 2, n_groups=2)
            for node in spec_nodes(ssp):
                for key in ("store", "alias", "share_points"):
                    node.pop(key, None)
            ssp["pre"] = gen_transform_spec(rng, ["Homogeneous", "Affine"][d % 2], d)
            run_case(ctx, ssp, gen_transform_spec(rng, kinds[(ci + d) % len(kinds)], d), [None, 2][d % 2], lines, pending)
            ssp = gen_shape_spec(rng, cls, d, 1, n_groups=2)
            for node in spec_nodes(ssp):
                for key in ("store", "alias", "share_points"):
                    node.pop(key, None)
            ssp["alias"] = [[ssp["groups"][0][0], "alias-of-" + ssp["groups"][0][0]]]
            ssp["groups"].append(["shared-array", {"cls": "PointCloud", "points": gen_points(rng, 3, d), "groups": []}])
            ssp["share_points"] = "shared-array"
            run_case(ctx, ssp, gen_transform_spec(rng, kinds[(ci + d + 3) % len(kinds)], d), None, lines, pending,
                     manager=True)
    # a shape whose landmark manager exists but is empty
    import numpy as np
    from menpo.shape import PointCloud
    pc = PointCloud(np.array([[0.0, 1.0], [2.0, 3.0]]))
    pc.landmarks  # noqa: creates the empty manager
    t = build_transform({"kind": "Translation", "t": [1.0, 2.0]})
    before = digest(pc)
    site = "C02/apply/PointCloud"
    rp = {"how": "pc = PointCloud([[0,1],[2,3]]); pc.landmarks; Translation([1,2]).apply(pc)"}
    try:
        r = t.apply(pc)
        ctx.check(arr_close(r.points, [[1.0, 3.0], [3.0, 5.0]]) and groups_of(r) == [], site, "points-not-transformed",
                  "empty landmark manager: wrong result", rp)
        ctx.check(digest(pc) == before, site, "input-mutated", "empty landmark manager: input changed", rp)
    except Exception as e:
        ctx.fail(site, "raises", "empty landmark manager: apply raised %s" % type(e).__name__, rp)
    ctx.case(("empty-manager",), nontrivial=True)
    # zero-point point clouds carrying (nested) groups, through the model as well, with and without batch_size
    for d in (2, 3):
        for kind in ("Translation", "Affine", "WithDims", "TransformChain"):
            for batch in (None, 2):
                g = gen_shape_spec(rng, rng.choice(SHAPES), d, 1, n_groups=1)
                for node in spec_nodes(g):
                    for key in ("store", "alias", "share_points"):
                        node.pop(key, None)
                empty = {"cls": "PointCloud", "points": [], "n_dims": d, "groups": []}
                ssp = {"cls": "PointCloud", "points": [], "n_dims": d, "groups": [["g", g], ["also-empty", empty]]}
                ctx.count("zero-point-host:spec")
                run_case(ctx, ssp, gen_transform_spec(rng, kind, d), batch, lines, pending, manager=True)
    # a legal ZERO-POINT landmark group attached BEFORE, BETWEEN and AFTER non-empty groups, under a host of every class,
    # 2-D and 3-D: the loop over the groups must neither stop at nor skip past the empty one (every later group moves)
    zkinds = ["Translation", "Affine", "UniformScale", "TransformChain", "Similarity", "NonUniformScale"]
    for ci, cls in enumerate(SHAPES):
        for d in (2, 3):
            for pos in (0, 1, 2):
                ssp = gen_shape_spec(rng, cls, d, 0)
                full = [gen_shape_spec(rng, SHAPES[(ci + pos + k) % len(SHAPES)], d, 0) for k in (0, 1)]
                full[1]["groups"] = [["inner-empty", {"cls": "PointCloud", "points": [], "n_dims": d, "groups": []}],
                                     ["inner", gen_shape_spec(rng, "PointCloud", d, 0)]]
                grp = [["a", full[0]], ["b", full[1]]]
                grp.insert(pos, ["empty-%d" % pos, {"cls": "PointCloud", "points": [], "n_dims": d, "groups": []}])
                ssp["groups"] = grp
                for node in spec_nodes(ssp):
                    for key in ("store", "alias", "share_points"):
                        node.pop(key, None)
                ctx.count("zero-point-group:" + ["first", "middle", "last"][pos])
                run_case(ctx, ssp, gen_transform_spec(rng, zkinds[(ci + d + pos) % len(zkinds)], d),
                         [None, 2][(ci + pos) % 2], lines, pending, manager=(pos == 0))
    # boundary size: a host with ZERO points that still carries landmark groups (legal: an annotated but empty
    # template); the groups must move with the map exactly as on any other host
    import menpo.shape as ms
    for d in (2, 3):
        makers = {
            "PointCloud": lambda d=d: ms.PointCloud(np.zeros((0, d))),
            "TriMesh": lambda d=d: ms.TriMesh(np.zeros((0, d)), trilist=np.zeros((0, 3), dtype=int)),
            "ColouredTriMesh": lambda d=d: ms.ColouredTriMesh(np.zeros((0, d)), trilist=np.zeros((0, 3), dtype=int),
                                                              colours=np.zeros((0, 3))),
        }
        for cls, mk in makers.items():
            for kind in ("Translation", "Affine", "UniformScale"):
                tsp = gen_transform_spec(rng, kind, d)
                site = "C02/apply/" + cls
                gpts = np.array(gen_points(rng, 4, d), dtype=float)
                rp = {"how": "host = %s with 0 points in %dD; host.landmarks['g'] = PointCloud(%r); "
                             "build_transform(%r).apply(host)" % (cls, d, gpts.tolist(), tsp)}
                ctx.case(("zero-point-host", cls, d, kind, gpts.tobytes()), nontrivial=True)
                ctx.count("zero-point-host:" + cls)
                try:
                    host = mk()
                    host.landmarks["g"] = ms.PointCloud(gpts.copy())
                    t = build_transform(tsp)
                    before = digest(host)
                    r = t.apply(host)
                    want = build_transform(tsp).apply(gpts.copy())
                    ctx.check(type(r) is type(host) and r.points.shape == (0, d), site, "class-or-points",
                              "zero-point host: result is %s with points %r" % (type(r).__name__, r.points.shape), rp)
                    ctx.check(r.has_landmarks and arr_close(r.landmarks["g"].points, want), site, "landmarks-not-moved",
                              "zero-point host: its landmark group was not moved by the same map as the bare array", rp)
                    ctx.check(digest(host) == before, site, "input-mutated", "zero-point host: input changed", rp)
                except Exception as e:
                    ctx.fail(site, "raises", "zero-point host: apply raised %s: %s" % (type(e).__name__, e), rp)


# ------------------------------------------------------------------------------- the error branches

def _outcome(call):
    """('ok', result) or (exception kind, None); kinds: value (ValueError), index (IndexError), else the class name"""
    try:
        return "ok", call()
    except ValueError:
        return "value", None
    except IndexError:
        return "index", None
    except Exception as e:                                                          # noqa: BLE001
        return type(e).__name__, None


def error_branches(ctx, lines, pending):
    """batch_size <= 0 and WithDims with negative / out-of-range indices, masks, a single integer: what the real code does
    (returns / which exception) against the model's error branches (`applyBatchedE`, `withDimsE`, run through the
    methods as the source states them: driver op `applye`), and — property (d) — the input and the transform are
    unchanged also when the call raises"""
    import numpy as np
    from menpo.transform import WithDims
    rng = ctx.rng
    kinds = ["Affine", "Translation", "Similarity", "NonUniformScale", "Rotation", "UniformScale", "Homogeneous"]

    def plain(cls, d, depth):
        sp = gen_shape_spec(rng, cls, d, depth)
        for node in spec_nodes(sp):
            for key in ("store", "alias", "share_points"):
                node.pop(key, None)
        return sp

    def run(ssp, t_build, kw, fe_toks, what):
        """one call on the real code + one line for the model"""
        shape, t = build_shape(ssp), t_build()
        d_shape, d_t = digest(shape), digest(t, skip=CACHE_ATTRS)
        outcome, res = _outcome(lambda: t.apply(shape, **kw))
        site = "C02/apply-raises/" + ssp["cls"]
        rp = {"shape": ssp, "how": what, "kwargs": kw, "outcome": outcome}
        ctx.case(("error-branch", what, json.dumps(ssp, sort_keys=True)), nontrivial=True)
        ctx.count("error-branch:%s:%s" % (what.split()[0].split("(")[0], outcome))
        ctx.check(digest(shape) == d_shape, site, "input-mutated",
                  "%s: the input shape changed although the call %s" % (what, "returned" if outcome == "ok" else "raised " + outcome), rp)
        ctx.check(digest(t, skip=CACHE_ATTRS) == d_t, site, "transform-mutated",
                  "%s: the transform changed although the call %s" % (what, "returned" if outcome == "ok" else "raised " + outcome), rp)
        if lines is not None:
            it = Interner()
            stoks = enc_shape(build_shape(ssp), it)
            b = kw.get("batch_size")
            cid = "e%d" % len(lines)
            lines.append("%s applye %d %s %s %s" % (cid, FUEL, "n" if b is None else "k %d" % b, " ".join(fe_toks),
                                                  " ".join(stoks)))
            pending[cid] = ("applye", (outcome, enc_shape(res, it) if outcome == "ok" else None), rp)

    # (1) batch_size <= 0 (and one positive size through the same path), every shape class, 2-D and 3-D
    for ci, cls in enumerate(SHAPES):
        for d in (2, 3):
            tsp = gen_transform_spec(rng, kinds[(ci + d) % len(kinds)], d)
            ex = exact_F(tsp, build_transform(tsp))
            if ex is None:
                continue
            for k in (0, -1, -3, 2):
                ssp = plain(cls, d, 2)
                run(ssp, lambda tsp=tsp: build_transform(tsp), {"batch_size": k}, ["tot"] + ex,
                    "batch_size=%d %s" % (k, tsp["kind"]))
    # … through the two OVERRIDES of _apply_batched (TransformChain delegates to AbstractPWA's; PiecewiseAffine): for
    # batch_size <= 0 the closure is never run on an array that has points, so the model needs no table (`tab 0`)
    for ci, cls in enumerate(SHAPES):
        for k in (0, -2):
            d = 2 + (ci + k) % 2
            tsp = gen_transform_spec(rng, "TransformChain", d)
            run(plain(cls, d, 1), lambda tsp=tsp: build_transform(tsp), {"batch_size": k}, ["tot", "tab", "0"],
                "batch_size=%d TransformChain" % k)
        tsp = gen_transform_spec(rng, "PiecewiseAffine", 2)
        inside = pwa_domain(tsp)
        ssp = gen_shape_spec(rng, cls, 2, 1, inside)
        for node in spec_nodes(ssp):
            for key in ("store", "alias", "share_points"):
                node.pop(key, None)
        run(ssp, lambda tsp=tsp: build_transform(tsp), {"batch_size": [0, -1][ci % 2]}, ["tot", "tab", "0"],
            "batch_size=%d PiecewiseAffine" % [0, -1][ci % 2])
    # … trees without a single point: nothing to batch, the call returns whatever the batch size
    for d in (2, 3):
        for k in (0, -2):
            empty = lambda: {"cls": "PointCloud", "points": [], "n_dims": d, "groups": []}     # noqa: E731
            ssp = empty()
            inner = empty()
            inner["groups"] = [["deep", empty()]]
            ssp["groups"] = [["a", empty()], ["b", inner]]
            tsp = gen_transform_spec(rng, "Affine", d)
            run(ssp, lambda tsp=tsp: build_transform(tsp), {"batch_size": k},
                ["tot"] + exact_F(tsp, build_transform(tsp)), "batch_size=%d all-empty" % k)
    # (2) WithDims: negative indices, out of range, masks, a single integer — on bare arrays
    for d in (2, 3):
        for n_pts in (1, 4):
            arr = np.array(gen_points(rng, n_pts, d), dtype=float)
            variants = [("l", [-1, 0]), ("l", [0, d]), ("l", [-d - 1]), ("l", [d - 1, -d]), ("l", [0, 0, 1]),
                        ("m", [True] + [False] * (d - 2) + [True]), ("m", [True] * (d - 1)), ("m", [False] * d + [True]),
                        ("s", d - 1), ("s", -1), ("s", d), ("s", -d - 1)]
            for tag, dims in variants:
                py = np.array(dims) if tag == "m" else dims
                outcome, res = _outcome(lambda: WithDims(py).apply(arr.copy()))
                ctx.case(("withdims-array", d, n_pts, tag, str(dims)), nontrivial=True)
                ctx.count("error-branch:withdims-array:" + outcome)
                if lines is not None:
                    dt = {"l": lambda: ["l", str(len(dims))] + [str(j) for j in dims],
                          "m": lambda: ["m", str(len(dims))] + ["1" if b else "0" for b in dims],
                          "s": lambda: ["s", str(dims)]}[tag]()
                    cid = "w%d" % len(lines)
                    lines.append("%s wdims %s %s" % (cid, " ".join(dt), " ".join(enc_arr(arr.tolist()))))
                    pending[cid] = ("wdims", (outcome, enc_arr(np.asarray(res, dtype=float).tolist()) if outcome == "ok" else None),
                                    {"how": "WithDims(%r).apply(%r)" % (dims, arr.tolist()), "outcome": outcome})
    # (3) a transform that raises by design on SOME arrays: piecewise affine with a landmark group partly outside the
    # triangulated domain.  The call raises part-way through the in-place pass on its private copy (the groups before
    # the offending one have already been moved there); input shape, landmarks and transform must be as they were.
    from menpo.transform.piecewiseaffine.base import TriangleContainmentError
    for rep_ in range(2):
        tsp = gen_transform_spec(rng, "PiecewiseAffine", 2)
        inside = pwa_domain(tsp)
        for cls in (SHAPES[rep_::4]):
            ssp = gen_shape_spec(rng, cls, 2, 0, inside)
            g_in = gen_shape_spec(rng, "PointCloud", 2, 0, inside)
            g_out = gen_shape_spec(rng, "PointCloud", 2, 0, inside)
            g_out["points"][-1] = [1000.0, -1000.0]                    # far outside every triangle
            g_after = gen_shape_spec(rng, "TriMesh", 2, 0, inside)
            ssp["groups"] = [["inside", g_in], ["partly-outside", g_out], ["after", g_after]]
            for node in spec_nodes(ssp):
                for key in ("store", "alias", "share_points"):
                    node.pop(key, None)
            shape, t = build_shape(ssp), build_transform(tsp)
            d_shape, d_t = digest(shape), digest(t, skip=CACHE_ATTRS)
            try:
                t.apply(shape)
                outcome = "ok"
            except TriangleContainmentError:
                outcome = "unknown"
            except Exception as e:                                                  # noqa: BLE001
                outcome = type(e).__name__
            site = "C02/apply-raises/" + cls
            rp = {"shape": ssp, "transform": tsp, "how": "piecewise affine, a landmark group partly outside the domain",
                  "outcome": outcome}
            ctx.case(("error-branch", "pwa-outside", json.dumps(ssp, sort_keys=True)), nontrivial=True)
            ctx.count("error-branch:pwa-outside:" + outcome)
            ctx.check(digest(shape) == d_shape, site, "input-mutated",
                      "piecewise affine outside its domain: the input shape changed although the call raised", rp)
            ctx.check(digest(t, skip=CACHE_ATTRS) == d_t, site, "transform-mutated",
                      "piecewise affine outside its domain: the transform changed although the call raised", rp)
            if lines is not None:
                it = Interner()
                fresh = build_shape(ssp)
                tab = []
                for a in all_arrays(fresh):
                    oc, r_ = _outcome(lambda a=a: build_transform(tsp).apply(np.array(a)))
                    tab.append(enc_arr(np.asarray(a, dtype=float).tolist()) +
                               (["o"] + enc_arr(np.asarray(r_, dtype=float).tolist()) if oc == "ok" else ["x"]))
                cid = "e%d" % len(lines)
                lines.append("%s applye %d n tabE %d %s %s" % (cid, FUEL, len(tab), " ".join(x for t_ in tab for x in t_),
                                                            " ".join(enc_shape(fresh, it))))
                pending[cid] = ("applye", (outcome, None), rp)
    # … and on shapes: the IndexError leaves the input as it was; negative in-range indices select from the end
    for ci, cls in enumerate(SHAPES):
        d = 2 + ci % 2
        for dims in ([0, d], [-1, 0], [-d - 2, 0]):
            ssp = plain(cls, d, 1)
            run(ssp, lambda dims=dims: WithDims(dims), {}, ["dimsE", "l", str(len(dims))] + [str(j) for j in dims],
                "WithDims(%r)" % (dims,))


# ------------------------------------------------------------------------------- histories on shared objects

SCENARIOS = ["independent", "shared-texture", "shared-array", "shared-manager"]
RUN_KINDS = HOMOG + ALIGN + ["TransformChain"]


def gen_run_spec(rng, scenario, d):
    """a few shapes that share what the scenario says, and a sequence of calls on them or on earlier results"""
    def plain(cls, depth=1):
        sp = gen_shape_spec(rng, cls, d, depth)
        for node in spec_nodes(sp):
            for key in ("store", "alias", "share_points"):
                node.pop(key, None)
        return sp
    if scenario == "shared-texture":
        shapes = [plain("TexturedTriMesh"), plain("TexturedTriMesh", 0)]
    elif scenario == "shared-array":
        a = plain("PointCloud")
        b = plain(rng.choice(["PointCloud", "TriMesh"]), 0)
        b["points"] = a["points"]
        if b["cls"] == "TriMesh":
            b["trilist"] = [rng.sample(range(len(a["points"])), 3)]
        a["groups"].append(["same-array", {"cls": "PointCloud", "points": a["points"], "groups": []}])
        shapes = [a, b]
    elif scenario == "shared-manager":
        a = plain(rng.choice(SHAPES), 2)
        if not a["groups"]:
            a["groups"] = [["g", plain("PointCloud", 0)]]
        shapes = [a, plain(rng.choice(SHAPES), 0)]
    else:
        shapes = [plain(rng.choice(SHAPES), 2), plain(rng.choice(SHAPES))]
    kinds = RUN_KINDS + (["ThinPlateSplines"] if d == 2 else [])
    calls, n = [], len(shapes)
    for i in range(rng.randint(3, 5)):
        calls.append({"t": gen_transform_spec(rng, rng.choice(kinds), d), "batch": rng.choice([None, None, 2, 3]),
                      "src": rng.randrange(n + i)})
    return {"scenario": scenario, "shapes": shapes, "calls": calls}


def build_env(spec):
    """the real objects of a run spec, sharing what the scenario says"""
    import numpy as np
    import menpo.shape as ms
    from menpo.image import Image
    sc, sps = spec["scenario"], spec["shapes"]
    if sc == "shared-texture":
        # two textured meshes built with copy=False on ONE texture Image (public constructor flag)
        tex = Image(np.array(sps[0]["texture"], dtype=float))
        if sps[0].get("texture_landmarks"):
            tex.landmarks["t"] = ms.PointCloud(np.array(sps[0]["texture_landmarks"]))
        env = []
        for sp in sps:
            o = ms.TexturedTriMesh(np.array(sp["points"], dtype=float), np.array(sp["tcoords"], dtype=float), tex,
                                   trilist=np.array(sp["trilist"]), copy=False)
            for nm, g in sp["groups"]:
                o.landmarks[nm] = build_shape(g)
            env.append(o)
        return env
    if sc == "shared-array":
        # two shapes built with copy=False on ONE coordinate array, a group of the first using it as well
        arr = np.array(sps[0]["points"], dtype=float)
        a = ms.PointCloud(arr, copy=False)
        for nm, g in sps[0]["groups"]:
            a.landmarks[nm] = build_shape(g)
        a.landmarks["same-array"].points = arr
        if sps[1]["cls"] == "TriMesh":
            b = ms.TriMesh(arr, trilist=np.array(sps[1]["trilist"]), copy=False)
        else:
            b = ms.PointCloud(arr, copy=False)
        return [a, b]
    env = [build_shape(sp) for sp in sps]
    if sc == "shared-manager":
        # ONE LandmarkManager object under two hosts (not reachable through the public setter, which copies;
        # it is what unpickled or hand-assembled objects can look like)
        env[1]._landmarks = env[0]._landmarks
    return env


class HeapEmitter:
    """the real object graph as cells of the Lean heap model, one cell per Python object (sharing preserved)"""

    def __init__(self, it):
        self.it, self.cells, self.addr, self.keep = it, [], {}, []

    def alloc(self, obj, toks):
        self.cells.append(toks)
        if obj is not None:
            self.addr[id(obj)] = len(self.cells) - 1
            self.keep.append(obj)
        return ["r", str(len(self.cells) - 1)]

    def slots(self, items):
        out = [str(len(items))]
        for k, v in items:
            out += [k] + v
        return out

    def deep(self, v):
        """a value inside an object-valued attribute: mirrors toks_of"""
        import numpy as np
        import scipy.sparse as sp
        if v is None:
            return ["i", "0"]
        if isinstance(v, (bool, np.bool_, int, np.integer)):
            return ["i", str(int(v))]
        if id(v) in self.addr:
            return ["r", str(self.addr[id(v)])]
        if isinstance(v, np.ndarray) and v.ndim >= 1:
            a = v.astype(float)
            return self.alloc(v, ["A"] + enc_arr(a.reshape(a.shape[0], -1).tolist() if a.size else []))
        if sp.issparse(v):
            c = v.tocoo()
            return self.alloc(v, ["A"] + enc_arr([list(map(float, t)) for t in
                                                  sorted(zip(c.row.tolist(), c.col.tolist(), c.data.tolist()))]))
        if isinstance(v, dict):
            return self.alloc(v, ["D"] + self.slots([(self.it("k:" + str(k)), self.deep(x)) for k, x in v.items()]))
        if isinstance(v, list):
            return self.alloc(v, ["D"] + self.slots([("%d" % i, self.deep(x)) for i, x in enumerate(v)]))
        if hasattr(v, "__dict__") and not callable(v) and not isinstance(v, type):
            items = [(k, self.deep(x)) for k, x in v.__dict__.items()]
            name = type(v).__name__
            head = ["O", name if name in MODEL_CLASSES else "other"] if hasattr(v, "copy") else ["F"]
            return self.alloc(v, head + self.slots(items))
        return ["i", str(1000 + int(self.it("imm:" + repr(v))[1:]))]

    def shape(self, o):
        """a shape object of a tree: mirrors enc_shape / extras_of"""
        import numpy as np
        if id(o) in self.addr:
            return ["r", str(self.addr[id(o)])]
        wire = dict(extras_of(o))
        items = []
        for k, v in o.__dict__.items():
            if k == "_landmarks":
                if v is None:
                    items.append((k, ["i", "0"]))
                elif id(v) in self.addr:
                    items.append((k, ["r", str(self.addr[id(v)])]))
                else:
                    gd = v.__dict__["_landmark_groups"]
                    gv = [(self.it(nm), self.shape(g)) for nm, g in gd.items()]
                    dref = self.alloc(gd, ["D"] + self.slots(gv))
                    items.append((k, self.alloc(v, ["O", "LandmarkManager"] + self.slots([("_landmark_groups", dref)]))))
            elif k == "points":
                if id(v) in self.addr:
                    items.append((k, ["r", str(self.addr[id(v)])]))
                else:
                    items.append((k, self.alloc(v, ["A"] + enc_arr(v.tolist()))))
            else:
                tag, val = wire[k]
                if tag == "i":
                    items.append((k, ["i", str(val)]))
                elif tag == "a":
                    items.append((k, ["r", str(self.addr[id(v)])] if id(v) in self.addr else
                                  self.alloc(v, ["A"] + enc_arr(val))))
                elif tag == "d":
                    if id(v) in self.addr:
                        items.append((k, ["r", str(self.addr[id(v)])]))
                    else:
                        ms_ = [(self.it(kk), self.alloc(v[kk], ["A"] + enc_arr(vv))) for kk, vv in val]
                        items.append((k, self.alloc(v, ["D"] + self.slots(ms_))))
                else:
                    items.append((k, self.deep(v)))
        return self.alloc(o, ["O", type(o).__name__] + self.slots(items))


def run_sequence(ctx, spec, lines=None, pending=None):
    """oracle (and optionally the model query) for a sequence of calls on shared objects and earlier results"""
    import numpy as np
    site = "C02/history/" + spec["scenario"]
    rp = {"run": spec, "how": "from harness.c02 import build_env, build_transform; objs = build_env(run); for c in "
                              "run['calls']: objs.append(build_transform(c['t']).apply(objs[c['src']], batch_size="
                              "c['batch']))  # every earlier object must keep its deep digest"}
    ctx.count("history:" + spec["scenario"])
    ctx.case(("history", json.dumps(spec, sort_keys=True)), nontrivial=True,
             sample={"history": spec["scenario"], "shapes": [sp["cls"] for sp in spec["shapes"]],
                     "calls": [[c["t"]["kind"], c["batch"], c["src"]] for c in spec["calls"]]})
    env = build_env(spec)
    objs = list(env)
    born = [digest(o) for o in objs]
    try:
        for ci, c in enumerate(spec["calls"]):
            t, t_fresh = build_transform(c["t"]), build_transform(c["t"])
            kw = {} if c["batch"] is None else {"batch_size": c["batch"]}
            src = objs[c["src"]]
            try:
                r = t.apply(src, **kw)
            except Exception as e:
                r = None
                chk(ctx, False, site, "raises", "call %d raised %s: %s" % (ci, type(e).__name__, str(e)[:100]), rp)
            for k, o in enumerate(objs):
                chk(ctx, digest(o) == born[k], site, "earlier-object-mutated",
                    "call %d (%s on object %d) changed object %d%s" % (
                        ci, c["t"]["kind"], c["src"], k, " (an initial object)" if k < len(env) else " (an earlier result)"), rp)
            compare_tree(ctx, site, t_fresh, src, r, rp, "call%d" % ci)
            old = {id(x) for o in objs for x in objects_of(o)}
            sh = [type(x).__name__ for x in objects_of(r) if id(x) in old]
            chk(ctx, not sh, site, "shares-objects", "result of call %d shares %r with an earlier object" % (ci, sh[:4]), rp)
            old_arr = [a for o in objs for a in reachable_arrays(o)]
            chk(ctx, not any(np.shares_memory(x, y) for x in all_arrays(r) for y in old_arr), site, "shares-points",
                "a points array of the result of call %d shares memory with an earlier object" % ci, rp)
            objs.append(r)
            born.append(digest(r))
    except _Stop:
        return False
    if lines is None:
        return True
    # the model: the heap is the image of the real initial object graph, the calls as tables / formulas
    it = Interner()
    env2 = build_env(spec)
    em = HeapEmitter(it)
    refs = [em.shape(o) for o in env2]
    htoks = [str(len(em.cells))] + [x for c in em.cells for x in c]
    etoks = [str(len(env2))]
    for r_, o in zip(refs, env2):
        etoks += [r_[1]] + enc_shape(o, it)
    objs2 = list(env2)
    ctoks = [str(len(spec["calls"]))]
    # formulas only when every call has one: a table is keyed by the floats the real code saw, which an exact
    # earlier result of the model would miss by an ulp
    all_exact = all(exact_F(c["t"], build_transform(c["t"])) is not None for c in spec["calls"])
    ctx.count("model:run-" + ("formulas" if all_exact else "tables"))
    for c in spec["calls"]:
        t = build_transform(c["t"])
        kw = {} if c["batch"] is None else {"batch_size": c["batch"]}
        src = objs2[c["src"]]
        ex = exact_F(c["t"], t) if all_exact else None
        if ex is None:
            tab, seen = [], set()
            for a in all_arrays(src):
                pieces = [a] if (c["batch"] is None or a.shape[0] == 0) else chunks_of(a, c["batch"])
                for pc in pieces:
                    key = pc.tobytes() + bytes(pc.shape)
                    if key not in seen:
                        seen.add(key)
                        tab.append((np.asarray(pc, dtype=float).tolist(),
                                    np.asarray(build_transform(c["t"]).apply(np.array(pc)), dtype=float).tolist()))
            ex = ["tab", str(len(tab))]
            for a, b in tab:
                ex += enc_arr(a) + enc_arr(b)
        ctoks += ["0" if c["batch"] is None else str(c["batch"])] + ex + [str(c["src"])]
        objs2.append(t.apply(src, **kw))
    rtoks = [str(len(spec["calls"]))]
    for o in objs2[len(env2):]:
        rtoks += enc_shape(o, it)
    cid = "r%d" % len(lines)
    lines.append("%s run %d %s %s %s" % (cid, FUEL, " ".join(htoks), " ".join(etoks), " ".join(ctoks)))
    pending[cid] = ("run-history", rtoks, rp)
    return True


def histories(ctx, n_per_scenario, lines, pending):
    rng = ctx.rng
    for sc in SCENARIOS:
        for i in range(n_per_scenario):
            run_sequence(ctx, gen_run_spec(rng, sc, 2 + i % 2), lines, pending)


def tree_objects(o, path="root"):
    """[(path, object)] of the tree the in-place pass walks: shape, its manager, the group dict, the groups …"""
    out = [(path, o)]
    lm = o.__dict__.get("_landmarks")
    if lm is not None:
        out.append((path + "._landmarks", lm))
        out.append((path + "._landmarks._landmark_groups", lm.__dict__["_landmark_groups"]))
        for nm, g in lm.__dict__["_landmark_groups"].items():
            out += tree_objects(g, path + "/" + nm)
    return out


def reachable_arrays(o, seen=None, out=None, depth=0):
    """every ndarray reachable from `o` (through attributes, dicts, lists), once each"""
    import numpy as np
    seen = set() if seen is None else seen
    out = [] if out is None else out
    if id(o) in seen or depth > 10:
        return out
    seen.add(id(o))
    if isinstance(o, np.ndarray):
        out.append(o)
    elif isinstance(o, dict):
        for v in o.values():
            reachable_arrays(v, seen, out, depth + 1)
    elif isinstance(o, (list, tuple)):
        for v in o:
            reachable_arrays(v, seen, out, depth + 1)
    elif hasattr(o, "__dict__") and not callable(o) and not isinstance(o, type):
        for v in o.__dict__.values():
            reachable_arrays(v, seen, out, depth + 1)
    return out


def measure_writes(seed=0):
    """(b) of the tie between heap model and code: on live objects of all 8 shape classes (groups nested to depth
    2, 2-D and 3-D) x every transform class x {no batch, batch_size=2}, take the private copy `_transform` would
    make, run `_transform_inplace` on it and record, for every object of the tree, the instance attributes whose
    binding changed; and every array buffer whose content changed in place, every dict item rebound, every
    attribute of the transform written.  Returns ([(class name, [attribute])], [other write])."""
    import random
    rng = random.Random(20260929 + seed)
    writes, others = {}, []
    for cls in SHAPES:
        for d in (2, 3):
            for kind in KINDS_ND + (KINDS_2D if d == 2 else []):
                for batch in (None, 2):
                    tsp = gen_transform_spec(rng, kind, 2 if kind in KINDS_2D else d)
                    inside = pwa_domain(tsp)
                    ssp = gen_shape_spec(rng, cls, d, 0, inside)
                    ssp["groups"] = [["a", gen_shape_spec(rng, rng.choice(SHAPES), d, 0, inside)],
                                     ["b", gen_shape_spec(rng, rng.choice(SHAPES), d, 0, inside)]]
                    ssp["groups"][1][1]["groups"] = [["n", gen_shape_spec(rng, rng.choice(SHAPES), d, 0, inside)]]
                    for node in spec_nodes(ssp):
                        for key in ("store", "alias", "share_points"):
                            node.pop(key, None)
                    t = build_transform(tsp)
                    kw = {} if batch is None else {"batch_size": batch}
                    priv = build_shape(ssp).copy()
                    objs = tree_objects(priv)
                    before = [(pth, o, {k: id(v) for k, v in (o.items() if isinstance(o, dict) else o.__dict__.items())})
                              for pth, o in objs]
                    arrays = reachable_arrays(priv)
                    abytes = [a.tobytes() for a in arrays]
                    t_state = digest(t, skip=CACHE_ATTRS)
                    try:
                        priv._transform_inplace(lambda x: t.apply(x, **kw))
                    except Exception as e:                                     # noqa: BLE001
                        others.append("%s under %s raised %s" % (cls, kind, type(e).__name__))
                        continue
                    for pth, o, ids in before:
                        now = {k: id(v) for k, v in (o.items() if isinstance(o, dict) else o.__dict__.items())}
                        changed = sorted(str(k) for k in set(ids) | set(now) if ids.get(k) != now.get(k))
                        if isinstance(o, dict):
                            if changed:
                                others.append("dict %s: items %s rebound (%s under %s)" % (pth, changed, cls, kind))
                            continue
                        name = type(o).__name__
                        if name in writes and writes[name] != changed:
                            others.append("%s rebinds %s under %s but %s elsewhere" % (name, changed, kind, writes[name]))
                        writes.setdefault(name, changed)
                    for a, b in zip(arrays, abytes):
                        if a.tobytes() != b:
                            others.append("an array buffer of the copy of %s was written in place under %s" % (cls, kind))
                    if digest(t, skip=CACHE_ATTRS) != t_state:
                        others.append("%s wrote its own attributes during _transform_inplace of %s" % (kind, cls))
    order = [n for n in extract_c02.CLS_ORDER if n in writes] + sorted(n for n in writes if n not in extract_c02.CLS_ORDER)
    return [(n, writes[n]) for n in order], sorted(set(others))


GEN_THEOREMS_V = ["MenpoModel.C02.GenProps." + t for t in (
    "src_n_groups_eq", "src_landmarks_eq", "src_has_landmarks_eq", "src_shape_inplace_eq", "src_shape_self_eq",
    "src_pc_self_eq", "src_lm_inplace_eq", "src_t_inplace_eq", "src_t_transform_eq", "src_apply_batched_eq",
    "src_apply_eq", "src_apply_default", "srcMethods_eq", "src_chain_apply_eq", "src_withdims_apply_eq",
    "src_affine_linear_eq", "src_affine_translation_eq", "src_hom_apply_eq", "src_affine_apply_eq",
    "src_dispatch_eq", "src_apply_agrees", "src_apply_expected", "src_apply_class_points_extra", "src_apply_landmarks",
    "src_apply_array_agrees", "src_apply_nonpos_batch", "src_apply_raises")]


GEN_THEOREMS_H = ["MenpoModel.C02.GenProps." + t for t in (
    "srcH_n_groups_eq", "srcH_landmarks_eq", "srcH_has_landmarks_eq", "srcH_shape_inplace_eq", "srcH_shape_self_eq",
    "srcH_pc_self_eq", "srcH_lm_inplace_eq", "srcH_t_inplace_eq", "srcH_t_transform_eq", "srcHMethods_eq",
    "srcH_dispatch_eq", "srcH_transform_is_applyH", "srcH_apply_deep", "srcH_apply_no_write", "srcH_apply_at_deep",
    "srcH_apply_manager_deep", "srcH_apply_succeeds", "srcH_run_mutates_nothing", "srcH_apply_frame_any",
    "srcH_apply_raise_intact")]


def generated(ctx):
    measured = measure_writes()
    common.build_generated(ctx, extract_c02.lean_files(measured), extract_c02.TARGETS, extract_c02.N_OBLIGATIONS)
    rows = extract_c02.dispatch_rows()
    ctx.notes["dispatch_table"] = {n: [None if s is None else s.__name__ for s in sups] for n, sups in rows}
    ctx.notes["inplace_writes_measured"] = {n: w for n, w in measured[0]}
    ctx.notes["other_writes_measured"] = measured[1]
    # the methods behind Transform.apply, TRANSLATED from the source text of the working tree (harness/trans_c02.py) and
    # proved equal to the hand-written ones the theorems are about (GenProps/C02SrcV.lean)
    from . import trans_c02
    ctx.trusted += ["harness/py2lean2.py + harness/py2lean2x.py + harness/trans_c02.py (source-to-Lean translator and the "
                    "C02 vocabulary: which Lean term a Python expression stands for) and the resolvers vApply / hTransform "
                    "of Core/C02Src.lean, Core/C02SrcH.lean (Python's method lookup over the regenerated table)",
                    "harness/extract_c02.py (method-resolution / attribute-kind / attribute-write tables from live objects)"]
    files, why = trans_c02.value_files()
    ok = common.build_generated(ctx, files, trans_c02.TARGETS_V, len(GEN_THEOREMS_V))
    ctx.notes["translated_from_source"] = {"value_level": trans_c02.TRANSLATED_V, "untranslatable": why}
    hfiles, hwhy = trans_c02.heap_files()
    okh = common.build_generated(ctx, hfiles, trans_c02.TARGETS_H, len(GEN_THEOREMS_H))
    ctx.notes["translated_from_source"]["heap_level"] = trans_c02.TRANSLATED_H
    ctx.notes["translated_from_source"]["untranslatable_heap_level"] = hwhy
    if ok and okh:
        # the obligations hold: their proofs are audited like the property theorems
        ax = common.axiom_audit(PROP + "gen", [trans_c02.TARGETS_V[1], trans_c02.TARGETS_H[1]],
                                GEN_THEOREMS_V + GEN_THEOREMS_H)
        ctx.notes["generated_theorems_audited"] = {k.split(".")[-1]: v for k, v in sorted(ax.items())}


def search(ctx):
    """directed search on the real code (oracle only) after a broken tie: every class of the table, many more draws"""
    before = ctx.evaluations
    directed(ctx, None, None)
    error_branches(ctx, None, None)
    histories(ctx, 12, None, None)
    explore(ctx, 4, None, None)
    ctx.searched += ctx.evaluations - before
    return bool(ctx.failures)


def run(ctx):
    common.prepare_lean(ctx, PROP, IMPORTS, THEOREMS, generated=generated)
    lines, pending = [], {}
    directed(ctx, lines, pending)
    error_branches(ctx, lines, pending)
    histories(ctx, ctx.n(6, 60), lines, pending)
    explore(ctx, ctx.n(4, 40), lines, pending, model_share=ctx.n(1.0, 0.5))
    check_model(ctx, lines, pending)
    return ctx.finish(search)


def replay(ctx, path):
    data = json.load(open(path))
    rp = data.get("replay") or (data.get("broken_correspondence") or [{}])[0].get("case") or {}
    print(json.dumps({k: data[k] for k in data if k not in ("replay", "broken_correspondence")}, indent=1)[:1500])
    if "run" in rp:
        common.prepare_lean(ctx, PROP, IMPORTS, THEOREMS, generated=generated)
        lines, pending = [], {}
        ok = run_sequence(ctx, rp["run"], lines, pending)
        print("recorded history (%s, %d calls) -> oracle %s" % (rp["run"]["scenario"], len(rp["run"]["calls"]),
                                                                "holds" if ok else "FAILS"))
        check_model(ctx, lines, pending)
        for op, text, _ in ctx.mismatches:
            print("model/implementation: %s: %s" % (op, text))
        return ctx.finish(search)
    if "shape" not in rp or "transform" not in rp or rp.get("outcome") is not None:
        print("no single recorded case (broken obligation, directed or error-branch case): re-running the quick check with seed %r"
              % data.get("seed"))
        return run(common.Ctx(PROP, "quick", int(data.get("seed", 0))))
    common.prepare_lean(ctx, PROP, IMPORTS, THEOREMS, generated=generated)
    lines, pending = [], {}
    ok = run_case(ctx, rp["shape"], rp["transform"], rp.get("batch_size"), lines, pending)
    print("recorded case: shape %s, transform %s, batch_size %r -> oracle %s" % (
        rp["shape"]["cls"], rp["transform"]["kind"], rp.get("batch_size"), "holds" if ok else "FAILS"))
    check_model(ctx, lines, pending)
    for op, text, _ in ctx.mismatches:
        print("model/implementation: %s: %s" % (op, text))
    return ctx.finish(search)
