"""C02 — transforming a shape moves points and landmarks as one and mutates nothing (DESIGN.md section 6, C02).

Parties: the real `Transform.apply` on real shapes; the property oracle (class, points against the transform applied
to the bare array, every landmark group at every depth against the transform applied to its bare array, every
other attribute by deep digest, deep digests of the input shape / its landmarks / the transform / the bare array
before and after, aliasing, write-through); the Lean model (value level `applyV`, heap level `applyH` driven with
the transform as the table  array -> transform.apply(array)  measured on the real code, and for the homogeneous
family also with the exact rational matrix).
"""
import json

from . import common
from . import extract_c02
from .common import fq

PROP = "C02"
INFO = dict(
    technique="Lean 4 proof (value-level functional specification of apply for the 8 shape classes assembled from the "
              "regenerated method-resolution table; heap-level refinement and frame theorem: the call only allocates, "
              "the copy is a separated tree of fresh cells, the in-place pass rebinds `points` of fresh objects only) "
              "+ regenerated dispatch / attribute-kind obligations + model/implementation correspondence and a "
              "deep-digest oracle over shape class x landmark-group class x transform class",
    level_text="Theorems over an executable model of Transform.apply / Transformable._transform / Shape._transform_inplace "
               "/ PointCloud._transform_self_inplace / LandmarkManager._transform_inplace / Copyable.copy and its "
               "LandmarkManager and LabelledPointUndirectedGraph overrides, each method looked up in the "
               "method-resolution table exactly as Python resolves it.  Value level: for every shape of the 8 classes "
               "with landmark groups nested to any depth and every array function f, apply succeeds and returns the "
               "same class, points f(points), every group at every depth with points f(group points), all other "
               "attributes and the group names verbatim; it agrees with apply on the bare array; identity and "
               "composition laws.  Heap level: for EVERY heap on which an address holds such a shape (arbitrary "
               "layout and sharing), the heap after the call is the heap before plus new cells (nothing that existed "
               "is written: input shape, landmark manager, groups, arrays, transform), the result is a new object "
               "holding the mapped shape, and the input still holds what it held.  A kernel-checked witness shows that "
               "with LandmarkManager.copy not overriding Copyable.copy the same call would write into the caller's "
               "landmark groups; GenProps/C02.lean re-proves on every run that the live classes resolve the four "
               "methods as the model assumes and that live objects have the attribute layout the heap model assumes.  "
               "Tied to /repo by running every shape class (2-D, 3-D, 0-3 landmark groups of all 8 classes, nested "
               "once) under every transform class and diffing against the Lean driver; an independent oracle decides "
               "the property on the real code.",
    level_note="Trusted: Lean kernel; axioms propext/Classical.choice/Quot.sound; Python harness and extractor; driver "
               "parser.  Contract parameter (not verified, checked on every case by the oracle): a transform's "
               "_apply is a function of the array it is given, returns a new array and writes neither into its "
               "argument nor into the transform.  Modelled, not verified: CPython attribute lookup and dict iteration "
               "order; numpy arrays as immutable-content cells that are only ever replaced; float rounding (points are "
               "compared to the same float computation on the bare array, and for the homogeneous family to the exact "
               "rational result within 1e-9).",
    rule="a case = one (shape, transform, batch_size) triple: shape class x n_dims x 0-3 landmark groups (each of one of "
         "the 8 classes, possibly with groups of their own) x transform class with dyadic / rational-circle "
         "parameters; distinct = distinct (shape class, group classes, transform class, dims, batch, parameters); "
         "non-trivial = the transform moves at least one point and (the shape has a landmark group or structure "
         "beyond points)",
    partial=["'the transform is not modified' is a contract on _apply in the model (f is a pure function parameter); it is "
             "decided on the real code by the deep digest of the transform before/after (the CachedPWA memo attributes "
             "_applied_points/_iab are excluded: that the memo is unobservable is C09)",
             "heap level: attributes that are themselves objects or dicts (tcoords PointCloud, texture Image, label-mask "
             "dict contents) are covered by the value-level theorem and the correspondence only; their deep equality "
             "after copy is C06's copy theorem",
             "piecewise-affine transforms are exercised in their domain only (outside it apply raises by design)"],
    assumptions=["numpy computes the same floats for the same operation on equal arrays of equal shape (points of "
                 "apply(shape) are compared with apply(shape.points) at 1e-9 relative)"],
    design_ref="DESIGN.md section 6, C02")
IMPORTS = ["MenpoModel.Props.C02"]
THEOREMS = [
    "MenpoModel.C02.applyV_expected",
    "MenpoModel.C02.apply_class_preserved",
    "MenpoModel.C02.apply_points",
    "MenpoModel.C02.apply_array_agrees",
    "MenpoModel.C02.apply_extra_unchanged",
    "MenpoModel.C02.apply_group_names",
    "MenpoModel.C02.apply_landmarks",
    "MenpoModel.C02.apply_id",
    "MenpoModel.C02.apply_comp",
    "MenpoModel.C02.inplace_spec",
    "MenpoModel.C02.copy_spec",
    "MenpoModel.C02.apply_refines",
    "MenpoModel.C02.apply_no_write",
    "MenpoModel.C02.apply_input_intact",
    "MenpoModel.C02.apply_result",
    "MenpoModel.C02.repB_sound",
    "MenpoModel.C02.apply_refines_checked",
    "MenpoModel.C02.shallow_manager_copy_mutates_input",
    "MenpoModel.C02.pass_self_leaves_points",
]
TOL = 1e-9
SHAPES = extract_c02.SHAPES
CACHE_ATTRS = {"_applied_points", "_iab"}      # CachedPWA memo (C09)
FUEL = 12


# ------------------------------------------------------------------------------- specs -> real objects
# A case is described by JSON-able specs so that a replay rebuilds exactly the same objects.

def dy(rng, lo=-8, hi=8, m=2):
    return rng.randint(lo * 2 ** m, hi * 2 ** m) / float(2 ** m)


def gen_points(rng, n, d, inside=None):
    if inside is not None:
        return [inside(rng) for _ in range(n)]
    pts = []
    while len(pts) < n:
        p = [dy(rng) for _ in range(d)]
        if p not in pts:
            pts.append(p)
    return pts


def gen_shape_spec(rng, cls, d, depth, inside=None, n_groups=None):
    """spec of one shape of class `cls` in `d` dimensions with landmark groups nested `depth` more levels"""
    n = rng.randint(4, 7)
    sp = {"cls": cls, "points": gen_points(rng, n, d, inside)}
    if cls in ("TriMesh", "ColouredTriMesh", "TexturedTriMesh"):
        sp["trilist"] = [rng.sample(range(n), 3) for _ in range(rng.randint(1, 4))]
    if cls == "ColouredTriMesh":
        sp["colours"] = [[rng.randint(0, 8) / 8.0 for _ in range(3)] for _ in range(n)]
    if cls == "TexturedTriMesh":
        sp["tcoords"] = [[rng.randint(0, 8) / 8.0 for _ in range(2)] for _ in range(n)]
        sp["texture"] = [[[rng.randint(0, 16) / 16.0 for _ in range(3)] for _ in range(3)] for _ in range(rng.choice([1, 3]))]
        if rng.random() < 0.4:
            sp["texture_landmarks"] = [[rng.randint(0, 8) / 4.0, rng.randint(0, 8) / 4.0] for _ in range(3)]
    if cls in ("PointUndirectedGraph", "PointDirectedGraph", "LabelledPointUndirectedGraph"):
        k = rng.choice([1, 3, 4, 5])
        edges = []
        while len(edges) < k:
            a, b = rng.sample(range(n), 2)
            if [a, b] not in edges and ([b, a] not in edges or cls == "PointDirectedGraph"):
                edges.append([a, b])
        sp["edges"] = edges
    if cls == "PointTree":
        order = list(range(n))
        rng.shuffle(order)
        sp["edges"] = [[order[rng.randrange(i)], order[i]] for i in range(1, n)]
        sp["root"] = order[0]
    if cls == "LabelledPointUndirectedGraph":
        k = rng.randint(1, 3)
        cut = sorted(rng.sample(range(1, n), k - 1)) if k > 1 else []
        bounds = [0] + cut + [n]
        names = rng.sample(["eye", "left brow", "nose-tip", "münd", "__all__"], k)
        sp["labels"] = [[names[i], [1 if bounds[i] <= j < bounds[i + 1] else 0 for j in range(n)]] for i in range(k)]
        if rng.random() < 0.3:
            sp["labels"].append(["overlap", [1] * n])
    groups = []
    if depth > 0:
        k = rng.choice([0, 1, 1, 2, 3]) if n_groups is None else n_groups
        names = rng.sample(["g0", "left eye", "PTS", "ü-grp", "__x", "LJSON"], k)
        for nm in names:
            gcls = rng.choice(SHAPES)
            groups.append([nm, gen_shape_spec(rng, gcls, d, depth - 1, inside,
                                              n_groups=None if rng.random() < 0.5 else 0)])
    sp["groups"] = groups
    return sp


def build_shape(sp):
    import numpy as np
    from collections import OrderedDict
    import menpo.shape as ms
    from menpo.image import Image
    cls, pts = sp["cls"], np.array(sp["points"], dtype=float)
    if cls == "PointCloud":
        o = ms.PointCloud(pts)
    elif cls == "TriMesh":
        o = ms.TriMesh(pts, trilist=np.array(sp["trilist"]))
    elif cls == "ColouredTriMesh":
        o = ms.ColouredTriMesh(pts, trilist=np.array(sp["trilist"]), colours=np.array(sp["colours"]))
    elif cls == "TexturedTriMesh":
        tex = Image(np.array(sp["texture"], dtype=float))
        if sp.get("texture_landmarks"):
            tex.landmarks["t"] = ms.PointCloud(np.array(sp["texture_landmarks"]))
        o = ms.TexturedTriMesh(pts, tcoords=np.array(sp["tcoords"]), texture=tex, trilist=np.array(sp["trilist"]))
    elif cls == "PointUndirectedGraph":
        o = ms.PointUndirectedGraph.init_from_edges(pts, np.array(sp["edges"]))
    elif cls == "PointDirectedGraph":
        o = ms.PointDirectedGraph.init_from_edges(pts, np.array(sp["edges"]))
    elif cls == "PointTree":
        o = ms.PointTree.init_from_edges(pts, np.array(sp["edges"]), root_vertex=sp["root"])
    elif cls == "LabelledPointUndirectedGraph":
        masks = OrderedDict((nm, np.array(m, dtype=bool)) for nm, m in sp["labels"])
        o = ms.LabelledPointUndirectedGraph.init_from_edges(pts, np.array(sp["edges"]), masks)
    else:
        raise common.Infra("unknown shape class in spec: %r" % cls)
    for nm, g in sp["groups"]:
        o.landmarks[nm] = build_shape(g)
    return o


HOMOG = ["Homogeneous", "Affine", "Similarity", "Rotation", "Translation", "UniformScale", "NonUniformScale"]
ALIGN = ["AlignmentAffine", "AlignmentSimilarity", "AlignmentRotation", "AlignmentTranslation", "AlignmentUniformScale"]


def rot_matrix(rng, d):
    c, s = common.rat_circle(rng)
    c, s = float(c), float(s)
    if d == 2:
        return [[c, -s], [s, c]]
    ax = rng.randrange(3)
    i, j = [k for k in range(3) if k != ax]
    r = [[1.0 if a == b else 0.0 for b in range(3)] for a in range(3)]
    r[i][i], r[i][j], r[j][i], r[j][j] = c, -s, s, c
    return r


def gen_linear(rng, d):
    """well conditioned dyadic linear part: 3*I + small"""
    return [[(3.0 if i == j else 0.0) + dy(rng, -1, 1) for j in range(d)] for i in range(d)]


def gen_align_pts(rng, d, n=None):
    import numpy as np
    n = n or rng.randint(d + 2, d + 4)
    while True:
        src = np.array([[dy(rng) for _ in range(d)] for _ in range(n)])
        if np.linalg.matrix_rank(src - src.mean(0)) == d and len({tuple(p) for p in src.tolist()}) == n:
            break
    lin = np.array(gen_linear(rng, d)) / 2.0
    tgt = src.dot(lin.T) + np.array([dy(rng) for _ in range(d)]) + \
        np.array([[rng.randint(-2, 2) / 8.0 for _ in range(d)] for _ in range(n)])
    return src.tolist(), tgt.tolist()


def grid_mesh(rng):
    """jittered 3x3 grid in [0,8]^2 with a fixed triangulation (no folding: jitter < 1/4 cell)"""
    pts = [[4.0 * i + rng.randint(-3, 3) / 4.0, 4.0 * j + rng.randint(-3, 3) / 4.0] for i in range(3) for j in range(3)]
    tl = []
    for i in range(2):
        for j in range(2):
            a, b, c, dd = 3 * i + j, 3 * i + j + 1, 3 * (i + 1) + j, 3 * (i + 1) + j + 1
            tl += [[a, b, c], [b, dd, c]]
    return pts, tl


def gen_transform_spec(rng, kind, d):
    import numpy as np
    if kind == "Homogeneous":
        h = [row + [dy(rng)] for row in gen_linear(rng, d)] + [[rng.randint(0, 2) / 128.0 for _ in range(d)] + [1.0]]
        return {"kind": kind, "h": h}
    if kind == "Affine":
        h = [row + [dy(rng)] for row in gen_linear(rng, d)] + [[0.0] * d + [1.0]]
        return {"kind": kind, "h": h}
    if kind == "Similarity":
        r = rot_matrix(rng, d)
        s = rng.choice([0.5, 1.5, 2.0, 2.5])
        h = [[s * v for v in row] + [dy(rng)] for row in r] + [[0.0] * d + [1.0]]
        return {"kind": kind, "h": h}
    if kind == "Rotation":
        return {"kind": kind, "r": rot_matrix(rng, d)}
    if kind == "Translation":
        return {"kind": kind, "t": [dy(rng) for _ in range(d)]}
    if kind == "UniformScale":
        return {"kind": kind, "s": rng.choice([0.25, 0.5, 1.5, 2.0, 3.0]), "d": d}
    if kind == "NonUniformScale":
        return {"kind": kind, "s": [rng.choice([0.25, 0.5, 1.5, 2.0, 3.0]) for _ in range(d)]}
    if kind in ALIGN or kind == "ThinPlateSplines":
        if kind == "ThinPlateSplines":
            src, tgt = gen_align_pts(rng, 2, rng.randint(5, 8))
        else:
            src, tgt = gen_align_pts(rng, d)
        return {"kind": kind, "src": src, "tgt": tgt}
    if kind == "PiecewiseAffine":
        pts, tl = grid_mesh(rng)
        tgt = (np.array(pts).dot(np.array([[1.25, 0.25], [-0.5, 1.5]])) + np.array([3.0, -2.0]) +
               np.array([[rng.randint(-2, 2) / 8.0, rng.randint(-2, 2) / 8.0] for _ in pts])).tolist()
        return {"kind": kind, "mesh": pts, "trilist": tl, "tgt": tgt}
    if kind == "WithDims":
        dims = rng.choice([[1, 0], [0, 0]]) if d == 2 else rng.choice([[0, 1], [0, 2], [2, 1, 0], [1, 2]])
        return {"kind": kind, "dims": dims}
    if kind == "TransformChain":
        ks = [rng.choice(HOMOG + ALIGN[:2]) for _ in range(rng.randint(2, 3))]
        return {"kind": kind, "members": [gen_transform_spec(rng, k, d) for k in ks]}
    if kind == "ChainWithTPS":
        return {"kind": "TransformChain", "members": [gen_transform_spec(rng, "Affine", 2),
                                                      gen_transform_spec(rng, "ThinPlateSplines", 2)]}
    raise common.Infra("unknown transform kind %r" % kind)


def build_transform(sp):
    import numpy as np
    import menpo.transform as mt
    from menpo.shape import PointCloud, TriMesh
    k = sp["kind"]
    if k in ("Homogeneous", "Affine", "Similarity"):
        return getattr(mt, k)(np.array(sp["h"]))
    if k == "Rotation":
        return mt.Rotation(np.array(sp["r"]))
    if k == "Translation":
        return mt.Translation(np.array(sp["t"]))
    if k == "UniformScale":
        return mt.UniformScale(sp["s"], sp["d"])
    if k == "NonUniformScale":
        return mt.NonUniformScale(np.array(sp["s"]))
    if k in ALIGN or k == "ThinPlateSplines":
        return getattr(mt, k)(PointCloud(np.array(sp["src"])), PointCloud(np.array(sp["tgt"])))
    if k == "PiecewiseAffine":
        return mt.PiecewiseAffine(TriMesh(np.array(sp["mesh"]), trilist=np.array(sp["trilist"])),
                                  PointCloud(np.array(sp["tgt"])))
    if k == "WithDims":
        return mt.WithDims(sp["dims"])
    if k == "TransformChain":
        return mt.TransformChain([build_transform(m) for m in sp["members"]])
    raise common.Infra("unknown transform kind %r" % k)


def pwa_inside(mesh_pts, trilist):
    import numpy as np
    mp = np.array(mesh_pts)

    def draw(rng):
        tl = trilist[rng.randrange(len(trilist))]
        a, b, c = rng.randint(2, 10), rng.randint(2, 10), rng.randint(2, 10)
        p = (a * mp[tl[0]] + b * mp[tl[1]] + c * mp[tl[2]]) / float(a + b + c)
        return [float(p[0]), float(p[1])]
    return draw


KINDS_ND = HOMOG + ALIGN + ["TransformChain", "WithDims"]
KINDS_2D = ["ThinPlateSplines", "PiecewiseAffine", "ChainWithTPS"]


# ------------------------------------------------------------------------------- observation of real objects

def digest(o, seen=None, skip=()):
    """deep, order-preserving state digest through __dict__ (never calls a property, so it cannot itself
    create a lazily built LandmarkManager)"""
    import numpy as np
    import scipy.sparse as sp
    seen = set() if seen is None else seen
    if o is None or isinstance(o, (bool, int, float, str, bytes)):
        return repr(o)
    if isinstance(o, np.generic):
        return repr(o.item())
    if isinstance(o, np.ndarray):
        return ("nd", o.shape, str(o.dtype), o.tobytes())
    if sp.issparse(o):
        c = o.tocoo()
        trip = sorted(zip(c.row.tolist(), c.col.tolist(), c.data.tolist()))
        return ("sp", type(o).__name__, o.shape, str(o.dtype), tuple(trip))
    if isinstance(o, dict):
        return ("dict", type(o).__name__, tuple((repr(k), digest(v, seen, skip)) for k, v in o.items()))
    if isinstance(o, (list, tuple)):
        return (type(o).__name__, tuple(digest(v, seen, skip) for v in o))
    if id(o) in seen:
        return ("cycle", type(o).__name__)
    if hasattr(o, "__dict__") and not callable(o):
        seen = seen | {id(o)}
        return ("obj", type(o).__name__, tuple((k, digest(v, seen, skip)) for k, v in o.__dict__.items() if k not in skip))
    return ("other", type(o).__name__, getattr(o, "__name__", ""))


def groups_of(o):
    """[(name, group)] without touching the lazy `landmarks` property"""
    lm = o.__dict__.get("_landmarks")
    if lm is None:
        return []
    return list(lm.__dict__["_landmark_groups"].items())


def extras_of(o):
    """[(attribute, wire value)] for everything but points and landmarks, in __dict__ order; wire value =
    ('i', int) | ('a', 2-D list) | ('d', [(key, 2-D list)])"""
    import numpy as np
    import scipy.sparse as sp
    out = []
    for k, v in o.__dict__.items():
        if k in ("points", "_landmarks"):
            continue
        if v is None:
            out.append((k, ("i", -1)))
        elif isinstance(v, (bool, int, np.integer)):
            out.append((k, ("i", int(v))))
        elif isinstance(v, np.ndarray):
            a = v.astype(float)
            out.append((k, ("a", a.reshape(a.shape[0], -1).tolist() if a.ndim >= 1 and a.size else [])))
        elif sp.issparse(v):
            c = v.tocoo()
            out.append((k, ("a", [list(map(float, t)) for t in sorted(zip(c.row.tolist(), c.col.tolist(), c.data.tolist()))])))
        elif isinstance(v, dict):
            out.append((k, ("d", [(kk, [[float(x) for x in np.asarray(vv).ravel()]]) for kk, vv in v.items()])))
        elif isinstance(v, list):
            out.append((k, ("a", [[-1.0 if x is None else float(x) for x in v]])))
        elif hasattr(v, "points"):        # tcoords PointCloud
            out.append((k, ("a", v.points.tolist())))
        elif hasattr(v, "pixels"):        # texture Image (+ its own landmarks, which must not move)
            px = v.pixels.astype(float)
            rows = px.reshape(px.shape[0], -1).tolist()
            for _, g in groups_of(v):
                rows.append([float(x) for x in g.points.ravel()] + [0.0] * (len(rows[0]) - g.points.size))
            out.append((k, ("a", rows)))
        else:
            out.append((k, ("d", [("unsupported_" + type(v).__name__, [[0.0]])])))
    return out


class Interner:
    def __init__(self):
        self.tab = {}

    def __call__(self, s):
        if s not in self.tab:
            self.tab[s] = "s%d" % len(self.tab)
        return self.tab[s]


def enc_arr(a):
    r = len(a)
    c = len(a[0]) if r else 0
    return ["%d" % r, "%d" % c] + [fq(x) for row in a for x in row]


def enc_shape(o, it):
    toks = [type(o).__name__] + enc_arr(o.points.tolist())
    ex = extras_of(o)
    toks.append(str(len(ex)))
    for k, (tag, val) in ex:
        toks.append(k)
        if tag == "i":
            toks += ["i", str(val)]
        elif tag == "a":
            toks += ["a"] + enc_arr(val)
        else:
            toks += ["d", str(len(val))]
            for kk, vv in val:
                toks += [it(kk)] + enc_arr(vv)
    gs = groups_of(o)
    toks.append(str(len(gs)))
    for nm, g in gs:
        toks += [it(nm)] + enc_shape(g, it)
    return toks


def all_arrays(o):
    """points arrays of the shape and of every group at every depth"""
    out = [o.points]
    for _, g in groups_of(o):
        out += all_arrays(g)
    return out


def arr_close(a, b, tol=TOL):
    import numpy as np
    a, b = np.asarray(a, dtype=float), np.asarray(b, dtype=float)
    if a.shape != b.shape:
        return False
    if a.size == 0:
        return True
    scale = max(1.0, float(np.max(np.abs(b))))
    return bool(np.all(np.abs(a - b) <= tol * (1 + scale)))


def hom_exact(h, pts):
    """exact rational image of points under the homogeneous matrix h (lists of floats)"""
    from fractions import Fraction as F
    H = [[F(x) for x in row] for row in h]
    d = len(H) - 1
    out = []
    for p in pts:
        hx = [F(x) for x in p] + [F(1)]
        hy = [sum(r[i] * hx[i] for i in range(d + 1)) for r in H]
        out.append([y / hy[d] for y in hy[:d]])
    return out


# ------------------------------------------------------------------------------- one case

class _Stop(Exception):
    """the oracle failed on this case (recorded); the remaining checks of the case are skipped so that one defect
    gives one replay per shape class, not one per symptom"""


def chk(ctx, cond, site, pattern, text, rp):
    if not cond:
        ctx.fail(site, pattern, text, rp)
        raise _Stop()


def compare_tree(ctx, site, t_fresh, before, after, rp, path="root"):
    """oracle, recursively: `after` must be `before` with the transform applied to points; everything else equal"""
    import numpy as np
    chk(ctx, type(after) is type(before), site, "class-changed",
                    "%s: class %s became %s" % (path, type(before).__name__, type(after).__name__), rp)
    want = t_fresh.apply(before.points.copy())
    chk(ctx, isinstance(after.points, np.ndarray) and arr_close(after.points, want), site,
                    "points-not-transformed" if path == "root" else "landmarks-not-moved",
                    "%s: points differ from transform.apply(points) (max abs diff %s)" % (
                        path, _maxdiff(after.points, want)), rp)
    eb, ea = extras_of(before), extras_of(after)
    chk(ctx, eb == ea and digest({k: v for k, v in before.__dict__.items() if k not in ("points", "_landmarks")}) ==
                    digest({k: v for k, v in after.__dict__.items() if k not in ("points", "_landmarks")}),
                    site, "structure-changed",
                    "%s: attributes other than points/landmarks changed: %s" % (
                        path, [k for (k, v), (k2, v2) in zip(eb, ea) if (k, v) != (k2, v2)] or "digest/attribute set"), rp)
    gb, ga = groups_of(before), groups_of(after)
    chk(ctx, [n for n, _ in gb] == [n for n, _ in ga], site, "groups-changed",
                    "%s: landmark groups %r became %r" % (path, [n for n, _ in gb], [n for n, _ in ga]), rp)
    for (n, b), (n2, a) in zip(gb, ga):
        compare_tree(ctx, site, t_fresh, b, a, rp, path + "/" + n)
    return True


def _maxdiff(a, b):
    import numpy as np
    try:
        return float(np.max(np.abs(np.asarray(a, dtype=float) - np.asarray(b, dtype=float))))
    except Exception:
        return "shape %r vs %r" % (getattr(a, "shape", None), getattr(b, "shape", None))


def objects_of(o):
    out = [o]
    lm = o.__dict__.get("_landmarks")
    if lm is not None:
        out.append(lm)
        out.append(lm.__dict__["_landmark_groups"])
    for _, g in groups_of(o):
        out += objects_of(g)
    return out


def run_case(ctx, ssp, tsp, batch, lines=None, pending=None, count=True, shrink=True):
    """oracle on the real code; optionally queue the model query.  Returns True when the oracle held."""
    import numpy as np
    kind = tsp["kind"]
    site = "C02/apply/%s" % ssp["cls"]
    rp = {"shape": ssp, "transform": tsp, "batch_size": batch,
          "how": "from harness.c02 import build_shape, build_transform; s = build_shape(shape); t = build_transform("
                 "transform); r = t.apply(s, batch_size=batch_size)  # then compare r with s, and s/t with fresh builds"}
    shape = build_shape(ssp)
    t = build_transform(tsp)
    t_fresh = build_transform(tsp)
    d_shape = digest(shape)
    d_t = digest(t, skip=CACHE_ATTRS)
    kw = {} if batch is None else {"batch_size": batch}
    if count:
        gcls = sorted({g["cls"] for _, g in ssp["groups"]})
        ctx.count("shape:" + ssp["cls"])
        ctx.count("transform:" + kind)
        ctx.count("dims:%d" % len(ssp["points"][0]))
        ctx.count("groups:%d" % len(ssp["groups"]))
        for g in gcls:
            ctx.count("group-class:" + g)
        ctx.count("batch:" + ("none" if batch is None else "k"))
    try:
        res = t.apply(shape, **kw)
    except Exception as e:
        ctx.fail(site, "raises", "apply raised %s: %s" % (type(e).__name__, str(e)[:120]), rp)
        return False
    try:
        on_arr = oracle(ctx, site, rp, ssp, tsp, kw, shape, t, t_fresh, res, d_shape, d_t)
        ok = True
    except _Stop:
        on_arr, ok = None, False
        if shrink and ctx.failures and ctx.failures[-1][0] == site:
            minimise(ctx, ssp, tsp, batch)
    nontrivial = ok and (not arr_close(on_arr, shape.points)) and \
        (len(ssp["groups"]) > 0 or ssp["cls"] != "PointCloud")
    ctx.case((ssp["cls"], kind, batch, json.dumps(ssp, sort_keys=True), json.dumps(tsp, sort_keys=True)),
             nontrivial=nontrivial,
             sample={"shape": ssp["cls"], "dims": len(ssp["points"][0]), "groups": [[n, g["cls"], [m for m, _ in g["groups"]]]
                                                                                     for n, g in ssp["groups"]],
                     "transform": kind, "batch_size": batch})
    if lines is not None and ok:
        queue_model(ssp, tsp, kw, kind, t_fresh, lines, pending, rp)
    return ok


def first_failure(ssp, tsp, batch):
    """(site, pattern) of the first oracle failure of the case on the real code, or None"""
    scratch = common.Ctx(PROP, "quick", 0)
    scratch.known = []
    try:
        run_case(scratch, ssp, tsp, batch, count=False, shrink=False)
    except Exception:
        return None
    return scratch.failures[0][:2] if scratch.failures else None


def minimise(ctx, ssp, tsp, batch):
    """greedy shrinking of the failing case just recorded (same site and pattern must keep failing): drop the batch
    size, drop landmark groups at every depth, shorten chains; the recorded replay is replaced by the minimal one"""
    site, pattern, text, rp = ctx.failures[-1]
    done = getattr(ctx, "_c02_minimised", set())
    ctx._c02_minimised = done
    if (site, pattern) in done:
        return
    done.add((site, pattern))
    import copy as _copy
    cur = (_copy.deepcopy(ssp), _copy.deepcopy(tsp), batch)

    def group_paths(sp, prefix=()):
        out = []
        for i, (_, g) in enumerate(sp["groups"]):
            out.append(prefix + (i,))
            out += group_paths(g, prefix + (i,))
        return out

    def without(sp, path):
        sp = _copy.deepcopy(sp)
        node = sp
        for i in path[:-1]:
            node = node["groups"][i][1]
        del node["groups"][path[-1]]
        return sp

    budget = 60
    changed = True
    while changed and budget > 0:
        changed = False
        cands = []
        if cur[2] is not None:
            cands.append((cur[0], cur[1], None))
        for pth in sorted(group_paths(cur[0]), key=lambda q: -len(q)):
            cands.append((without(cur[0], pth), cur[1], cur[2]))
        if cur[1]["kind"] == "TransformChain" and len(cur[1]["members"]) > 1:
            for i in range(len(cur[1]["members"])):
                tt = _copy.deepcopy(cur[1])
                del tt["members"][i]
                cands.append((cur[0], tt, cur[2]))
        for c in cands:
            budget -= 1
            if budget <= 0:
                break
            if first_failure(*c) == (site, pattern):
                cur = c
                changed = True
                break
    rp2 = dict(rp, shape=cur[0], transform=cur[1], batch_size=cur[2], minimised_from={"groups": len(ssp["groups"])})
    ctx.failures[-1] = (site, pattern, text, rp2)


def oracle(ctx, site, rp, ssp, tsp, kw, shape, t, t_fresh, res, d_shape, d_t):
    """the property text as a predicate over the real objects; raises _Stop at the first failed clause"""
    import numpy as np
    kind = tsp["kind"]
    # (a) new object of the same class, (b) landmarks, (c) structure — against a fresh transform and a fresh input
    chk(ctx, res is not shape, site, "same-object", "apply returned its argument", rp)
    try:
        compare_tree(ctx, site, t_fresh, build_shape(ssp), res, rp)
    except _Stop:
        raise
    except Exception as e:
        chk(ctx, False, site, "result-malformed", "result cannot be inspected: %s: %s" % (type(e).__name__, str(e)[:120]), rp)
    # (e) the same transform object and the same batch size on the bare array, which must stay intact
    arr = shape.points.copy()
    arr_bytes = arr.tobytes()
    try:
        on_arr = t.apply(arr, **kw)
    except Exception as e:
        on_arr = None
        chk(ctx, False, site, "array-raises", "apply(array) raised %s" % type(e).__name__, rp)
    chk(ctx, arr_close(res.points, on_arr), site, "array-disagrees",
        "apply(shape).points differs from apply(shape.points) (max abs diff %s)" % _maxdiff(res.points, on_arr), rp)
    chk(ctx, arr.tobytes() == arr_bytes, site, "array-argument-written", "apply(array) wrote into its argument", rp)
    chk(ctx, not np.shares_memory(on_arr, arr), site, "array-aliased", "apply(array) returned memory of its argument", rp)
    # homogeneous family: the numbers against exact rational arithmetic
    if kind in HOMOG:
        hm = np.array(t_fresh.h_matrix)
        want = [[float(x) for x in row] for row in hom_exact(hm.tolist(), ssp["points"])]
        chk(ctx, arr_close(res.points, want), site, "points-wrong",
            "points differ from the exact image under h_matrix (max abs diff %s)" % _maxdiff(res.points, want), rp)
    # (d) nothing mutated
    chk(ctx, digest(shape) == d_shape, site, "input-mutated",
        "the input shape (or its landmarks) changed during apply: %s" % _first_diff(build_shape(ssp), shape), rp)
    chk(ctx, digest(t, skip=CACHE_ATTRS) == d_t, site, "transform-mutated", "the transform changed during apply", rp)
    # aliasing between result and input: no object, dict or points buffer in common; writes through the result invisible
    mine = {id(x) for x in objects_of(shape)}
    shared = [type(x).__name__ for x in objects_of(res) if id(x) in mine]
    chk(ctx, not shared, site, "shares-objects", "result shares %r with the input" % shared[:4], rp)
    in_arrays = all_arrays(shape)
    out_arrays = all_arrays(res)
    chk(ctx, not any(np.shares_memory(x, y) for x in in_arrays for y in out_arrays), site, "shares-points",
        "a points array of the result shares memory with the input", rp)
    for x in out_arrays:
        if x.flags.writeable:
            x += 1.0
    for x in objects_of(res):
        if isinstance(x, dict):
            x["__verif__"] = None
    chk(ctx, digest(shape) == d_shape, site, "write-through", "writing into the result changed the input", rp)
    return on_arr


def queue_model(ssp, tsp, kw, kind, t_fresh, lines, pending, rp):
    import numpy as np
    # the transform as the table of what the real code does to each bare array
    it = Interner()
    fresh_in = build_shape(ssp)
    res2 = build_transform(tsp).apply(build_shape(ssp), **kw)
    tab, seen = [], set()
    for a in all_arrays(fresh_in):
        key = a.tobytes() + bytes(a.shape)
        if key in seen:
            continue
        seen.add(key)
        tab.append((a.tolist(), build_transform(tsp).apply(a.copy(), **kw).tolist()))
    ftoks = ["tab", str(len(tab))]
    for a, b in tab:
        ftoks += enc_arr(a) + enc_arr(b)
    stoks = enc_shape(fresh_in, it)
    cid = "m%d" % len(lines)
    lines.append("%s apply %d %s %s" % (cid, FUEL, " ".join(ftoks), " ".join(stoks)))
    pending[cid] = ("apply-tab", enc_shape(res2, it), rp)
    if kind in HOMOG:
        hm = np.array(t_fresh.h_matrix).tolist()
        cid = "h%d" % len(lines)
        lines.append("%s apply %d hom %s %s" % (cid, FUEL, " ".join(enc_arr(hm)), " ".join(stoks)))
        pending[cid] = ("apply-hom", enc_shape(res2, it), rp)


def _first_diff(a, b, path="root"):
    """where two shapes (fresh build vs the object after the call) differ"""
    if digest({k: v for k, v in a.__dict__.items() if k != "_landmarks"}) != \
            digest({k: v for k, v in b.__dict__.items() if k != "_landmarks"}):
        for k in a.__dict__:
            if k != "_landmarks" and digest(a.__dict__[k]) != digest(b.__dict__.get(k)):
                return "%s.%s" % (path, k)
        return path
    ga, gb = groups_of(a), groups_of(b)
    if [n for n, _ in ga] != [n for n, _ in gb]:
        return path + ".landmarks (groups)"
    for (n, x), (_, y) in zip(ga, gb):
        dd = _first_diff(x, y, path + "/" + n)
        if dd:
            return dd
    return ""


def tokens_agree(model_toks, impl_toks):
    """structure and extras token by token; numbers with tolerance"""
    if len(model_toks) != len(impl_toks):
        return False, "token count %d vs %d" % (len(model_toks), len(impl_toks))
    for i, (a, b) in enumerate(zip(model_toks, impl_toks)):
        if a == b:
            continue
        try:
            fa, fb = common.pq(a), common.pq(b)
        except (ValueError, ZeroDivisionError):
            return False, "token %d: %r vs %r" % (i, a, b)
        if not common.close(fa, fb, max(1.0, abs(float(fb))), TOL):
            return False, "token %d: %r vs %r" % (i, float(fa), float(fb))
    return True, ""


def check_model(ctx, lines, pending):
    if not lines:
        return
    model = common.run_driver(PROP, lines)
    for cid, (op, impl_toks, rp) in pending.items():
        reply = model[cid].split()
        ctx.count("model:" + op)
        if len(reply) < 6 or reply[0] != "ok":
            ctx.mismatch(op, "model answered %r" % " ".join(reply[:8]), rp)
            continue
        flags = dict(x.split("=") for x in reply[1:6])
        if flags != {"rep": "1", "changed": "0", "intact": "1", "fresh": "1", "agree": "1"}:
            # the case lies outside the theorems' hypothesis or the heap model disagrees with the value model
            ctx.mismatch(op, "model flags %r (rep: hypothesis of the heap theorems; changed: cells written below the "
                             "old heap top; agree: heap result = value result)" % flags, rp)
            continue
        ok, why = tokens_agree(reply[6:], impl_toks)
        if not ok:
            ctx.mismatch(op, "result of the model differs from the implementation: " + why, rp)


# ------------------------------------------------------------------------------- exploration

def draw_case(rng, cls, kind, d):
    """(shape spec, transform spec, batch size)"""
    if kind in KINDS_2D:
        d = 2
    tsp = gen_transform_spec(rng, kind, d)
    inside = None
    if tsp["kind"] == "PiecewiseAffine":
        inside = pwa_inside(tsp["mesh"], tsp["trilist"])
    ssp = gen_shape_spec(rng, cls, d, 2, inside)
    n = len(ssp["points"])
    batch = rng.choice([None, None, None, 1, 2, 3, n, n + 2])
    return ssp, tsp, batch


def explore(ctx, rounds, lines, pending, model_share=1.0):
    rng = ctx.rng
    for _ in range(rounds):
        for cls in SHAPES:
            for d in (2, 3):
                for kind in KINDS_ND + (KINDS_2D if d == 2 else []):
                    ssp, tsp, batch = draw_case(rng, cls, kind, d)
                    use_model = lines is not None and rng.random() < model_share
                    run_case(ctx, ssp, tsp, batch, lines if use_model else None, pending)


def directed(ctx, lines, pending):
    """corner cases every run: no landmarks, empty manager, every group class once, deep nesting, identity-like
    transforms, a bare LandmarkManager-free texture"""
    rng = ctx.rng
    for cls in SHAPES:
        for d in (2, 3):
            # every group class under this shape class, nested groups inside
            ssp = gen_shape_spec(rng, cls, d, 0)
            ssp["groups"] = [["g%d" % i, gen_shape_spec(rng, g, d, 1, n_groups=1)] for i, g in enumerate(SHAPES)]
            run_case(ctx, ssp, gen_transform_spec(rng, "Affine", d), None, lines, pending)
            # no groups at all, identity-like transforms
            ssp = gen_shape_spec(rng, cls, d, 0)
            run_case(ctx, ssp, {"kind": "Translation", "t": [0.0] * d}, None, lines, pending)
            run_case(ctx, ssp, {"kind": "UniformScale", "s": 1.0, "d": d}, 2, lines, pending)
    # a shape whose landmark manager exists but is empty
    import numpy as np
    from menpo.shape import PointCloud
    pc = PointCloud(np.array([[0.0, 1.0], [2.0, 3.0]]))
    pc.landmarks  # noqa: creates the empty manager
    t = build_transform({"kind": "Translation", "t": [1.0, 2.0]})
    before = digest(pc)
    site = "C02/apply/PointCloud"
    rp = {"how": "pc = PointCloud([[0,1],[2,3]]); pc.landmarks; Translation([1,2]).apply(pc)"}
    try:
        r = t.apply(pc)
        ctx.check(arr_close(r.points, [[1.0, 3.0], [3.0, 5.0]]) and groups_of(r) == [], site, "points-not-transformed",
                  "empty landmark manager: wrong result", rp)
        ctx.check(digest(pc) == before, site, "input-mutated", "empty landmark manager: input changed", rp)
    except Exception as e:
        ctx.fail(site, "raises", "empty landmark manager: apply raised %s" % type(e).__name__, rp)
    ctx.case(("empty-manager",), nontrivial=True)
    # boundary size: a host with ZERO points that still carries landmark groups (legal: an annotated but empty
    # template); the groups must move with the map exactly as on any other host
    import menpo.shape as ms
    for d in (2, 3):
        makers = {
            "PointCloud": lambda d=d: ms.PointCloud(np.zeros((0, d))),
            "TriMesh": lambda d=d: ms.TriMesh(np.zeros((0, d)), trilist=np.zeros((0, 3), dtype=int)),
            "ColouredTriMesh": lambda d=d: ms.ColouredTriMesh(np.zeros((0, d)), trilist=np.zeros((0, 3), dtype=int),
                                                              colours=np.zeros((0, 3))),
        }
        for cls, mk in makers.items():
            for kind in ("Translation", "Affine", "UniformScale"):
                tsp = gen_transform_spec(rng, kind, d)
                site = "C02/apply/" + cls
                gpts = np.array(gen_points(rng, 4, d), dtype=float)
                rp = {"how": "host = %s with 0 points in %dD; host.landmarks['g'] = PointCloud(%r); "
                             "build_transform(%r).apply(host)" % (cls, d, gpts.tolist(), tsp)}
                ctx.case(("zero-point-host", cls, d, kind, gpts.tobytes()), nontrivial=True)
                ctx.count("zero-point-host:" + cls)
                try:
                    host = mk()
                    host.landmarks["g"] = ms.PointCloud(gpts.copy())
                    t = build_transform(tsp)
                    before = digest(host)
                    r = t.apply(host)
                    want = build_transform(tsp).apply(gpts.copy())
                    ctx.check(type(r) is type(host) and r.points.shape == (0, d), site, "class-or-points",
                              "zero-point host: result is %s with points %r" % (type(r).__name__, r.points.shape), rp)
                    ctx.check(r.has_landmarks and arr_close(r.landmarks["g"].points, want), site, "landmarks-not-moved",
                              "zero-point host: its landmark group was not moved by the same map as the bare array", rp)
                    ctx.check(digest(host) == before, site, "input-mutated", "zero-point host: input changed", rp)
                except Exception as e:
                    ctx.fail(site, "raises", "zero-point host: apply raised %s: %s" % (type(e).__name__, e), rp)


def generated(ctx):
    common.build_generated(ctx, extract_c02.lean_files(), extract_c02.TARGETS, extract_c02.N_OBLIGATIONS)
    rows = extract_c02.dispatch_rows()
    ctx.notes["dispatch_table"] = {n: [None if s is None else s.__name__ for s in sups] for n, sups in rows}


def search(ctx):
    """directed search on the real code (oracle only) after a broken tie: every class of the table, many more draws"""
    before = ctx.evaluations
    directed(ctx, None, None)
    explore(ctx, 4, None, None)
    ctx.searched += ctx.evaluations - before
    return bool(ctx.failures)


def run(ctx):
    common.prepare_lean(ctx, PROP, IMPORTS, THEOREMS, generated=generated)
    lines, pending = [], {}
    directed(ctx, lines, pending)
    explore(ctx, ctx.n(4, 24), lines, pending, model_share=ctx.n(1.0, 0.5))
    check_model(ctx, lines, pending)
    return ctx.finish(search)


def replay(ctx, path):
    data = json.load(open(path))
    rp = data.get("replay") or (data.get("broken_correspondence") or [{}])[0].get("case") or {}
    print(json.dumps({k: data[k] for k in data if k not in ("replay", "broken_correspondence")}, indent=1)[:1500])
    if "shape" not in rp:
        print("no single recorded case (broken obligation or directed case): re-running the quick check with seed %r"
              % data.get("seed"))
        return run(common.Ctx(PROP, "quick", int(data.get("seed", 0))))
    common.prepare_lean(ctx, PROP, IMPORTS, THEOREMS, generated=generated)
    lines, pending = [], {}
    ok = run_case(ctx, rp["shape"], rp["transform"], rp.get("batch_size"), lines, pending)
    print("recorded case: shape %s, transform %s, batch_size %r -> oracle %s" % (
        rp["shape"]["cls"], rp["transform"]["kind"], rp.get("batch_size"), "holds" if ok else "FAILS"))
    check_model(ctx, lines, pending)
    for op, text, _ in ctx.mismatches:
        print("model/implementation: %s: %s" % (op, text))
    return ctx.finish(search)
