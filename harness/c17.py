"""C17 — mesh masking keeps whole triangles and attributes; mesh geometry is sound (DESIGN.md section 6, C17).

Three parties per case: the real menpo mesh classes (TriMesh / ColouredTriMesh / TexturedTriMesh, 2-D and
3-D), a property oracle written directly from the property text with exact `fractions.Fraction`
arithmetic (independent of the Lean model), and the Lean model `Core/C17Mesh.lean` through its driver.

Families of cases
  mask     from_mask / from_tri_mask on grids, Delaunay meshes, arbitrary triangle lists (isolated triangles,
           non-manifold edges, duplicated triangles), all-true / partial / orphan-leaving masks
  geom     tri_areas, edge_lengths, tri_normals, vertex_normals before and after rational rotations,
           translations, uniform scales applied with menpo's own transforms
  bound    boundary_tri_index and unique_edge_indices on open, closed and non-manifold meshes
"""
import json
import math
from collections import Counter
from fractions import Fraction

from . import common

PROP = "C17"
INFO = dict(
    technique="Lean 4 proof (index lemmas for masking/renumbering by induction over lists; polynomial identities over Q for "
              "areas, edge lengths and normals; characterisation of the boundary toggle dictionary by induction) "
              "+ model/implementation correspondence and an exact-rational property oracle on the real mesh classes",
    level_text="Theorems over an executable model of mask_adjacency_array, reindex_adjacency_array, _isolated_mask, "
               "from_mask (plain/coloured/textured), from_tri_mask, tri_areas, edge_vectors/lengths, compute_face_normals, "
               "compute_vertex_normals, boundary_tri_index (original toggle loop and repaired count) and "
               "unique_edge_indices: for every well-formed mesh and every mask keeping a triangle the result holds exactly "
               "the whole triangles, renumbered so that each joins the same rows of points/colours/tcoords, with no orphan "
               "vertex; areas/edge lengths are >= 0, invariant under A^T A = 1 plus translation and scale by s^2 / |s|; "
               "face normals are perpendicular, follow rotations and are unit under the sqrt contract; the repaired "
               "boundary index equals 'owns an edge of multiplicity 1' on every mesh, the original code only on "
               "manifold meshes with a boundary (refuted by witnesses otherwise); unique edges are duplicate-free.  "
               "The model is tied to /repo by running the real classes on generated meshes/masks/motions and diffing "
               "triangle lists, per-vertex arrays, areas, edge lengths, normals, boundary index and edge sets against "
               "the Lean driver; the oracle decides the property on the real objects.",
    level_note="Trusted: Lean kernel; axioms propext/Classical.choice/Quot.sound; the Python harness and the driver's "
               "parser; numpy fancy indexing / np.isin / np.unique / np.add.at semantics (modelled, exercised by the "
               "correspondence); sqrt and division (contract: r >= 0, r*r = v.v — checked numerically on every case); "
               "float rounding (model is exact; inputs are small dyadic rationals so masking is bit exact and geometry "
               "agrees to 1e-9 relative).",
    rule="one case = one (mesh, mask) / (mesh, motion) / (triangle list); distinct = distinct (class, points, trilist, "
         "mask or motion); non-trivial = mask removes at least one triangle or vertex / motion is not the identity / "
         "mesh has >= 2 triangles",
    partial=["sqrt, division and float rounding are contracts: 3-D areas, edge lengths and unit normals are proved for the "
             "squared / un-normalised model quantities and lifted to the non-negative roots by root_unique / "
             "normalize_unit; vertex normals: unit length proved under the same contract, the scatter-add itself is "
             "tied by correspondence only",
             "boundary_tri_index: the theorem for all meshes (boundary_fixed_eq_spec) is about the repaired counting "
             "code of notes/fixes/C17-boundary-count.diff; for the original toggle loop only the manifold-with-boundary "
             "case is a theorem, closed / odd-multiplicity meshes are refuted (boundary_coded_raises_iff, witnesses)"],
    assumptions=["triangle lists index valid vertices and each triangle has three distinct vertex indices",
                 "an all-true mask returns the mesh unchanged (vertices that had no triangle before masking are not "
                 "'left' without one by it); a mask keeping no whole triangle is outside the property's quantifier "
                 "(the code raises ValueError; checked as error-kind correspondence only)",
                 "normals: triangles of non-zero area; vertex normals: vertices whose incident unit normals do not cancel",
                 "rigid motions are menpo Rotation (rational matrices, det +1) and Translation; scales are positive"],
    design_ref="DESIGN.md section 6, C17; section 7 items 17-19")
IMPORTS = ["MenpoModel.Props.C17"]
THEOREMS = [
    "MenpoModel.C17.mask_keeps_whole_triangles",
    "MenpoModel.C17.renumber_consistent",
    "MenpoModel.C17.mask_drops_orphans",
    "MenpoModel.C17.mask_result_wellformed",
    "MenpoModel.C17.mask_all_true_identity",
    "MenpoModel.C17.mask_no_triangle_raises",
    "MenpoModel.C17.tri_mask_eq_vertex_mask",
    "MenpoModel.C17.tri_mask_keeps_selected",
    "MenpoModel.C17.area2_nonneg",
    "MenpoModel.C17.area2_rigid_invariant",
    "MenpoModel.C17.area2_scales",
    "MenpoModel.C17.areaSq3_nonneg",
    "MenpoModel.C17.areaSq3_rigid_invariant",
    "MenpoModel.C17.areaSq3_scales",
    "MenpoModel.C17.area3_rigid_invariant_root",
    "MenpoModel.C17.area3_scales_root",
    "MenpoModel.C17.edgeSq2_nonneg",
    "MenpoModel.C17.edgeSq3_nonneg",
    "MenpoModel.C17.edgeSq2_rigid_invariant",
    "MenpoModel.C17.edgeSq3_rigid_invariant",
    "MenpoModel.C17.edgeSq2_scales",
    "MenpoModel.C17.edgeSq3_scales",
    "MenpoModel.C17.edge_length_scales_root",
    "MenpoModel.C17.normal_perpendicular",
    "MenpoModel.C17.normal_follows_rotation",
    "MenpoModel.C17.unit_normal_follows_rotation",
    "MenpoModel.C17.normal_unit",
    "MenpoModel.C17.vertex_normal_unit",
    "MenpoModel.C17.boundary_flags_exactly",
    "MenpoModel.C17.boundary_fixed_eq_spec",
    "MenpoModel.C17.boundary_spec_manifold",
    "MenpoModel.C17.boundary_coded_raises_iff",
    "MenpoModel.C17.boundary_coded_refuted_closed",
    "MenpoModel.C17.boundary_coded_refuted_nonmanifold",
    "MenpoModel.C17.unique_edges_once",
]

TOL = 1e-9


# ================================================================================ generators

GEOM_QUERIES = ("boundary_tri_index", "unique_edge_indices", "edge_indices", "tri_areas", "edge_lengths",
                "unique_edge_lengths", "mean_edge_length", "mean_tri_area", "tri_normals", "vertex_normals")


def dy(rng, kmax=64, den=8):
    return rng.randint(-kmax, kmax) / float(den)


def distinct_points(rng, n, d, kmax=64, den=8):
    seen, pts = set(), []
    while len(pts) < n:
        p = tuple(dy(rng, kmax, den) for _ in range(d))
        if p not in seen:
            seen.add(p)
            pts.append(list(p))
    return pts


def grid_tris(r, c):
    """the triangulation of TriMesh.init_2d_grid (used only to build 3-D height fields)"""
    idx = [[i * c + j for j in range(c)] for i in range(r)]
    down = [[idx[i][j], idx[i + 1][j], idx[i + 1][j + 1]] for i in range(r - 1) for j in range(c - 1)]
    up = [[idx[i][j], idx[i + 1][j + 1], idx[i][j + 1]] for i in range(r - 1) for j in range(c - 1)]
    return down + up


CLOSED = {
    "tetra": (4, [[0, 2, 1], [0, 1, 3], [0, 3, 2], [1, 2, 3]]),
    "octa": (6, [[0, 2, 4], [2, 1, 4], [1, 3, 4], [3, 0, 4], [2, 0, 5], [1, 2, 5], [3, 1, 5], [0, 3, 5]]),
    "two-apex": (5, [[0, 2, 1], [0, 1, 3], [0, 3, 2], [1, 2, 3], [0, 1, 4], [1, 2, 4], [2, 0, 4]]),
    "book3": (5, [[0, 1, 2], [0, 1, 3], [1, 0, 4]]),
    "double": (3, [[0, 1, 2], [2, 1, 0]]),
}


def gen_mesh(rng, d, allow_orphans=True):
    """-> dict(shape, d, points (list of float rows, pairwise distinct), tris)"""
    k = rng.random()
    if k < 0.2:
        r, c = rng.randint(2, 4), rng.randint(2, 4)
        if d == 2:
            return dict(shape="grid", d=2, grid=[r, c], points=None, tris=None)
        pts = [[float(i), float(j), dy(rng, 16, 4)] for i in range(r) for j in range(c)]
        return dict(shape="grid-height", d=3, points=pts, tris=grid_tris(r, c))
    if k < 0.4:
        n = rng.randint(4, 9)
        p2 = distinct_points(rng, n, 2, 40, 4)
        if d == 2:
            return dict(shape="delaunay", d=2, points=p2, tris=None)
        return dict(shape="delaunay-height", d=3, points=[p + [dy(rng, 16, 4)] for p in p2], tris=None, base2d=p2)
    if k < 0.52:
        name = rng.choice(sorted(CLOSED))
        n, tris = CLOSED[name]
        perm = list(range(n))
        rng.shuffle(perm)
        tris = [[perm[v] for v in t] for t in tris]
        return dict(shape="closed:" + name, d=d, points=distinct_points(rng, n, d), tris=tris)
    n = rng.randint(3, 12)
    nt = rng.randint(1, 12)
    tris = []
    for _ in range(nt):
        if tris and rng.random() < 0.3:           # share an edge with an earlier triangle (non-manifold fans)
            t = rng.choice(tris)
            a, b = rng.sample(t, 2)
            c = rng.choice([v for v in range(n) if v not in (a, b)])
            tris.append([a, b, c] if rng.random() < 0.5 else [b, a, c])
        elif tris and rng.random() < 0.06:
            tris.append(list(rng.choice(tris)))   # duplicated triangle
        else:
            tris.append(rng.sample(range(n), 3))
    used = sorted({v for t in tris for v in t})
    if not (allow_orphans and rng.random() < 0.15) and len(used) < n:   # usually: every vertex has a triangle
        remap = {v: i for i, v in enumerate(used)}
        tris = [[remap[v] for v in t] for t in tris]
        n = len(used)
    return dict(shape="arbitrary", d=d, points=distinct_points(rng, n, d), tris=tris)


def gen_attrs(rng, cls, n):
    a = {}
    if cls == "coloured":
        c = rng.choice([1, 3, 4])
        a["colours"] = [[rng.randint(0, 16) / 16.0 for _ in range(c)] for _ in range(n)]
    if cls == "textured":
        a["tcoords"] = [[rng.randint(0, 32) / 32.0 for _ in range(2)] for _ in range(n)]
        a["texture_seed"] = rng.randint(0, 10 ** 6)
    return a


def build(case):
    """the real menpo object for a case dict (fills in points/tris for grid and Delaunay shapes)"""
    import numpy as np
    from menpo.shape import TriMesh, ColouredTriMesh, TexturedTriMesh
    cls = case.get("cls", "plain")
    if case["shape"] == "grid" and case.get("points") is None:
        base = TriMesh.init_2d_grid(tuple(case["grid"]))
        case["points"] = base.points.tolist()
        case["tris"] = [[int(v) for v in t] for t in base.trilist]
        case["trilist_dtype"] = str(base.trilist.dtype)
    pts = np.array(case["points"], dtype=float)
    if case.get("tris") is None:
        from scipy.spatial import Delaunay
        tl = Delaunay(np.array(case.get("base2d", case["points"]), dtype=float)).simplices
        case["tris"] = [[int(v) for v in t] for t in tl]
    tl = np.array(case["tris"], dtype=np.dtype(case.get("trilist_dtype", "int64")))
    if "attrs" not in case:
        raise common.Infra("case without attrs")
    a = case["attrs"]
    if cls == "plain":
        return TriMesh(pts, trilist=tl)
    if cls == "coloured":
        return ColouredTriMesh(pts, trilist=tl, colours=np.array(a["colours"], dtype=float))
    from menpo.image import Image
    r = np.random.RandomState(a["texture_seed"])
    tex = Image(r.randint(0, 17, size=(3, 4, 5)) / 16.0)
    return TexturedTriMesh(pts, np.array(a["tcoords"], dtype=float), tex, trilist=tl)


def gen_mask_case(rng):
    d = rng.choice([2, 3])
    case = gen_mesh(rng, d)
    case["cls"] = rng.choice(["plain", "plain", "coloured", "textured"])
    case["attrs"] = {}
    build_probe = dict(case, attrs={}, cls="plain")
    build(build_probe)                      # resolves points / tris for grid and Delaunay
    case["points"], case["tris"] = build_probe["points"], build_probe["tris"]
    if "trilist_dtype" in build_probe:
        case["trilist_dtype"] = build_probe["trilist_dtype"]
    n, nt = len(case["points"]), len(case["tris"])
    case["attrs"] = gen_attrs(rng, case["cls"], n)
    by_tri = rng.random() < 0.3
    case["by"] = "tri" if by_tri else "vertex"
    k = rng.random()
    if by_tri:
        if k < 0.1:
            m = [True] * nt
        elif k < 0.9:
            p = rng.choice([0.15, 0.3, 0.5, 0.7])
            m = [rng.random() < p for _ in range(nt)]
        else:
            m = [False] * nt
            m[rng.randrange(nt)] = True
        if not any(m) and rng.random() < 0.9:
            m[rng.randrange(nt)] = True
    else:
        if k < 0.06:
            m = [True] * n
        elif k < 0.7:
            p = rng.choice([0.4, 0.6, 0.8, 0.9])
            m = [rng.random() < p for _ in range(n)]
            if all(m) and rng.random() < 0.7:
                m[rng.randrange(n)] = False
        else:                                  # orphan-leaving: drop one corner of one triangle, keep the rest
            m = [True] * n
            m[rng.choice(rng.choice(case["tris"]))] = False
            if rng.random() < 0.5:
                m[rng.randrange(n)] = False
        if not any(all(m[v] for v in t) for t in case["tris"]) and rng.random() < 0.9:
            for v in rng.choice(case["tris"]):
                m[v] = True
    case["mask"] = m
    return case


def quat_rot(w, x, y, z):
    n = Fraction(w * w + x * x + y * y + z * z)
    return [[Fraction(w * w + x * x - y * y - z * z) / n, Fraction(2 * (x * y - w * z)) / n, Fraction(2 * (x * z + w * y)) / n],
            [Fraction(2 * (x * y + w * z)) / n, Fraction(w * w - x * x + y * y - z * z) / n, Fraction(2 * (y * z - w * x)) / n],
            [Fraction(2 * (x * z - w * y)) / n, Fraction(2 * (y * z + w * x)) / n, Fraction(w * w - x * x - y * y + z * z) / n]]


def gen_motion(rng, d):
    """exact description of p -> A p + t; kind in identity/rotation/rigid/scale/scale+translate"""
    kind = rng.choice(["identity", "rotation", "rigid", "rigid", "scale", "scale+translate"])
    ident = [[Fraction(int(i == j)) for j in range(d)] for i in range(d)]
    A, t, s = ident, [Fraction(0)] * d, Fraction(1)
    if kind in ("rotation", "rigid"):
        if d == 2:
            c, sn = common.rat_circle(rng, 9)
            A = [[c, -sn], [sn, c]]
        else:
            while True:
                q = [rng.randint(-4, 4) for _ in range(4)]
                if any(q):
                    break
            A = quat_rot(*q)
    if kind in ("rigid", "scale+translate"):
        t = [Fraction(rng.randint(-80, 80), 8) for _ in range(d)]
    if kind in ("scale", "scale+translate"):
        s = Fraction(rng.randint(1, 32), 8)
        A = [[s * ident[i][j] for j in range(d)] for i in range(d)]
    return dict(kind=kind, A=[[str(x) for x in r] for r in A], t=[str(x) for x in t], s=str(s))


def gen_geom_case(rng):
    d = rng.choice([2, 3, 3])
    case = gen_mesh(rng, d, allow_orphans=True)
    case["cls"] = rng.choice(["plain", "plain", "plain", "coloured"])
    probe = dict(case, attrs={}, cls="plain")
    build(probe)
    case["points"], case["tris"] = probe["points"], probe["tris"]
    if "trilist_dtype" in probe:
        case["trilist_dtype"] = probe["trilist_dtype"]
    case["attrs"] = gen_attrs(rng, case["cls"], len(case["points"]))
    case["motion"] = gen_motion(rng, d)
    return case


def gen_bound_case(rng):
    case = gen_mesh(rng, rng.choice([2, 3]), allow_orphans=True)
    case["cls"] = "plain"
    case["attrs"] = {}
    probe = dict(case)
    build(probe)
    case["points"], case["tris"] = probe["points"], probe["tris"]
    if "trilist_dtype" in probe:
        case["trilist_dtype"] = probe["trilist_dtype"]
    return case


# ================================================================================ helpers

def F(x):
    return Fraction(x)


def rows_equal(a, b):
    return len(a) == len(b) and all(tuple(x) == tuple(y) for x, y in zip(a, b))


def slim(case):
    """JSON-able replay payload"""
    keep = {k: case[k] for k in ("shape", "d", "cls", "points", "tris", "attrs", "mask", "by", "motion",
                                 "trilist_dtype", "family") if k in case}
    return keep


def replay_code(case):
    cls = {"plain": "TriMesh", "coloured": "ColouredTriMesh", "textured": "TexturedTriMesh"}[case.get("cls", "plain")]
    lines = ["import numpy as np", "from menpo.shape import TriMesh, ColouredTriMesh, TexturedTriMesh",
             "points = np.array(%r, dtype=float)" % (case["points"],),
             "trilist = np.array(%r)" % (case["tris"],)]
    if cls == "TriMesh":
        lines.append("mesh = TriMesh(points, trilist=trilist)")
    elif cls == "ColouredTriMesh":
        lines.append("mesh = ColouredTriMesh(points, trilist=trilist, colours=np.array(%r))" % (case["attrs"]["colours"],))
    else:
        lines += ["from menpo.image import Image",
                  "mesh = TexturedTriMesh(points, np.array(%r), Image(np.random.RandomState(%d).randint(0, 17, size=(3, 4, 5)) / 16.0), trilist=trilist)"
                  % (case["attrs"]["tcoords"], case["attrs"]["texture_seed"])]
    fam = case.get("family")
    if fam == "mask":
        lines.append("result = mesh.%s(np.array(%r, dtype=bool))" % ("from_tri_mask" if case["by"] == "tri" else "from_mask", case["mask"]))
        lines.append("print(result.points, result.trilist)")
    elif fam == "bound":
        lines.append("print(mesh.unique_edge_indices()); print(mesh.boundary_tri_index())")
    elif fam == "geom":
        lines.append("# motion p -> A p + t with A=%r t=%r (exact rationals)" % (case["motion"]["A"], case["motion"]["t"]))
        lines.append("print(mesh.tri_areas(), mesh.edge_lengths())")
    return lines


# ================================================================================ family: mask

def mask_case(ctx, case, lines=None, pending=None, cid=None):
    """run one masking case on the real code, judge it with the oracle; optionally queue the model request"""
    import numpy as np
    site = "C17/from_tri_mask" if case["by"] == "tri" else "C17/from_mask"
    case["family"] = "mask"
    rp = dict(slim(case), call=replay_code(case))
    mesh = build(case)
    P = [tuple(r) for r in case["points"]]
    T = [tuple(t) for t in case["tris"]]
    n = len(P)
    cols = [tuple(r) for r in case["attrs"].get("colours", [])]
    tcs = [tuple(r) for r in case["attrs"].get("tcoords", [])]
    m = list(case["mask"])
    # --- the specification, from the property text ------------------------------------------------
    if case["by"] == "tri":
        sel = {v for t, b in zip(T, m) if b for v in t}
        vmask = [v in sel for v in range(n)]
    else:
        vmask = m
    kept = [t for t in T if all(vmask[v] for v in t)]
    all_true = all(vmask)
    in_quantifier = len(kept) >= 1
    # history: half of the cases query the geometry of the mesh *before* masking it, so that anything a
    # query leaves behind on the instance (memoised edges, areas, normals) is carried into the masking
    warmed = (hash((len(P), len(T), tuple(m))) % 2) == 0
    if warmed:
        for q in GEOM_QUERIES:
            try:
                getattr(mesh, q)()
            except Exception:   # noqa: BLE001 - judged by the geometry family, not here
                pass
    ctx.count("mask-history:" + ("queried-before" if warmed else "fresh"))
    before = (mesh.points.copy(), mesh.trilist.copy())
    try:
        arr = np.array(m, dtype=bool)
        res = mesh.from_tri_mask(arr) if case["by"] == "tri" else mesh.from_mask(arr)
        err = None
    except Exception as e:   # noqa: BLE001 - the exception *is* the observation
        res, err = None, type(e).__name__
    obs = None
    if not in_quantifier:
        ctx.count("mask:no-triangle-kept(correspondence only)")
        obs = "err empty" if err == "ValueError" else ("err other:%s" % err if err else "ok-unexpected")
    elif err is not None:
        ctx.fail(site, "raises:" + err, "masking a mesh with a mask that keeps %d whole triangle(s) raised %s"
                 % (len(kept), err), rp)
    else:
        rt = [tuple(int(v) for v in t) for t in res.trilist]
        rpnts = [tuple(r) for r in res.points.tolist()]
        ok = True
        ok &= ctx.check(type(res) is type(mesh), site, "class-changed", "result is a %s" % type(res).__name__, rp)
        ok &= ctx.check(len(rt) == len(kept), site, "triangle-count",
                        "%d triangles kept, %d triangles have all their vertices kept by the mask" % (len(rt), len(kept)), rp)
        valid = all(0 <= v < len(rpnts) for t in rt for v in t)
        ok &= ctx.check(valid, site, "index-out-of-range", "the renumbered triangle list indexes past the vertex array", rp)
        if valid:
            want = Counter(tuple(P[v] for v in t) for t in kept)
            got = Counter(tuple(rpnts[v] for v in t) for t in rt)
            ok &= ctx.check(want == got, site, "triangle-coordinates",
                            "kept triangles do not join the same three coordinates as before", rp)
            if all_true:
                exp_vertices = list(range(n))
            else:
                exp_vertices = sorted({v for t in kept for v in t})
            ok &= ctx.check(len(rpnts) == len(exp_vertices), site, "vertex-count",
                            "%d vertices in the result, %d vertices belong to a kept triangle" % (len(rpnts), len(exp_vertices)), rp)
            if not all_true:
                usedv = {v for t in rt for v in t}
                ok &= ctx.check(usedv == set(range(len(rpnts))), site, "orphan-kept",
                                "the result contains a vertex that belongs to no triangle", rp)
            ok &= ctx.check(sorted(rpnts) == sorted(P[v] for v in exp_vertices), site, "vertex-set",
                            "the vertices of the result are not the vertices of the kept triangles", rp)
            # attributes travel with their vertices (points are pairwise distinct: the coordinate identifies the vertex)
            where = {p: i for i, p in enumerate(P)}
            if cols:
                rc = [tuple(r) for r in res.colours.tolist()]
                good = len(rc) == len(rpnts) and all(p in where and rc[j] == cols[where[p]] for j, p in enumerate(rpnts))
                ok &= ctx.check(good, site, "colours-detached", "a vertex does not carry its own colour after masking", rp)
            if tcs:
                rx = [tuple(r) for r in res.tcoords.points.tolist()]
                good = len(rx) == len(rpnts) and all(p in where and rx[j] == tcs[where[p]] for j, p in enumerate(rpnts))
                ok &= ctx.check(good, site, "tcoords-detached", "a vertex does not carry its own texture coordinate after masking", rp)
                ok &= ctx.check(np.array_equal(res.texture.pixels, mesh.texture.pixels), site, "texture-changed",
                                "the texture image changed", rp)
        ok &= ctx.check(np.array_equal(mesh.points, before[0]) and np.array_equal(mesh.trilist, before[1]), site,
                        "receiver-mutated", "masking changed the mesh it was called on", rp)
        if valid and rt:
            # the masked mesh answers geometry queries as a mesh freshly built from its own points and triangles
            from menpo.shape import TriMesh
            fresh = TriMesh(res.points.copy(), trilist=res.trilist.copy())
            for q in GEOM_QUERIES:
                try:
                    a = np.asarray(getattr(res, q)())
                    ea = None
                except Exception as e:   # noqa: BLE001
                    a, ea = None, type(e).__name__
                try:
                    b = np.asarray(getattr(fresh, q)())
                    eb = None
                except Exception as e:   # noqa: BLE001
                    b, eb = None, type(e).__name__
                same = (ea == eb) if (a is None or b is None) else (
                    a.shape == b.shape and bool(np.allclose(a, b, rtol=1e-9, atol=1e-12, equal_nan=True)))
                ok &= ctx.check(same, site, "stale-geometry:" + q,
                                "%s() of the masked mesh differs from the same query on a mesh freshly built from its "
                                "points and triangles%s" % (q, " (the mesh had been queried before masking)" if warmed else ""),
                                dict(rp, queried_before_masking=warmed))
        if ok:
            obs = ("ok", rt, [list(r) for r in rpnts],
                   [list(r) for r in res.colours.tolist()] if cols else [],
                   [list(r) for r in res.tcoords.points.tolist()] if tcs else [])
    removed_t = len(T) - len(kept)
    ctx.count("mask:%s:%s" % (case["by"], case["cls"]))
    ctx.count("mask-shape:" + case["shape"].split(":")[0])
    ctx.count("mask-kind:" + ("all-true" if all_true else "no-triangle" if not kept else
                              "orphan-leaving" if any(vmask[v] and not any(v in t for t in kept) for v in range(n))
                              else "partial"))
    if lines is not None:
        def mat(rows):
            return common.fmat(rows) if rows else "0 0"
        lines.append("%s %s %s %s %s %d %s %d %s" % (
            cid, "trimask" if case["by"] == "tri" else "mask", mat(case["points"]), mat(case["attrs"].get("colours", [])),
            mat(case["attrs"].get("tcoords", [])), len(T), " ".join(str(v) for t in T for v in t), len(m),
            " ".join("1" if b else "0" for b in m)))
        pending[cid] = (case, obs)
    return removed_t > 0 or (not all_true)


def parse_mesh_reply(rep):
    tk = rep.split()
    if tk[0] == "err":
        return rep
    assert tk[0] == "ok" and tk[1] == "T"
    i = 2
    k = int(tk[i]); i += 1
    tris = [tuple(int(x) for x in tk[i + 3 * j:i + 3 * j + 3]) for j in range(k)]
    i += 3 * k
    arrs = []
    for tag in ("P", "C", "X"):
        assert tk[i] == tag
        r, c = int(tk[i + 1]), int(tk[i + 2])
        i += 3
        arrs.append([[Fraction(x) for x in tk[i + c * j:i + c * j + c]] for j in range(r)])
        i += r * c
    return ("ok", tris, arrs[0], arrs[1], arrs[2])


def compare_mask(ctx, case, obs, rep):
    if obs is None:
        return     # the oracle already failed on this case
    mod = parse_mesh_reply(rep)
    rp = dict(slim(case), call=replay_code(case))
    if isinstance(obs, str) or isinstance(mod, str):
        if obs != mod:
            ctx.mismatch("mask", "model %r vs implementation %r" % (str(mod)[:120], str(obs)[:120]), rp)
        return
    same = (mod[1] == obs[1] and all(rows_equal(a, [[F(x) for x in r] for r in b]) for a, b in zip(mod[2:], obs[2:])))
    if not same:
        ctx.mismatch("mask", "model triangles/arrays %r vs implementation %r" % (str(mod[1:3])[:160], str(obs[1:3])[:160]), rp)


# ================================================================================ family: geom

def ex_cross_sq(a, b, c):
    """exact squared area by the Gram determinant (not the cross product the code and the model use)"""
    u = [F(y) - F(x) for x, y in zip(a, b)]
    v = [F(y) - F(x) for x, y in zip(a, c)]
    uu, vv, uv = sum(x * x for x in u), sum(x * x for x in v), sum(x * y for x, y in zip(u, v))
    return (uu * vv - uv * uv) / 4


def fsqrt(q):
    return math.sqrt(float(q)) if q > 0 else 0.0


def geom_case(ctx, case, lines=None, pending=None, cid=None):
    import numpy as np
    from menpo.transform import Rotation, Translation, UniformScale
    site = "C17/geometry"
    case["family"] = "geom"
    rp = dict(slim(case), call=replay_code(case))
    mesh = build(case)
    d = case["d"]
    mo = case["motion"]
    A = [[Fraction(x) for x in r] for r in mo["A"]]
    t = [Fraction(x) for x in mo["t"]]
    s = Fraction(mo["s"])
    kind = mo["kind"]
    P = case["points"]
    T = case["tris"]
    scale_in = max([1.0] + [abs(x) for r in P for x in r])
    # ---- move the mesh with menpo's own transforms
    try:
        moved = mesh
        if kind in ("rotation", "rigid"):
            moved = Rotation(np.array([[float(x) for x in r] for r in A])).apply(moved)
        if kind in ("scale", "scale+translate"):
            moved = UniformScale(float(s), d).apply(moved)
        if any(t):
            moved = Translation(np.array([float(x) for x in t])).apply(moved)
        a0, a1 = mesh.tri_areas(), moved.tri_areas()
        e0, e1 = mesh.edge_lengths(), moved.edge_lengths()
        ue0 = mesh.unique_edge_lengths()
        n0 = n1 = v0 = None
        if d == 3:
            n0, n1, v0 = mesh.tri_normals(), moved.tri_normals(), mesh.vertex_normals()
    except Exception as e:   # noqa: BLE001
        ctx.fail(site, "raises:" + type(e).__name__, "a geometry query raised %s: %s" % (type(e).__name__, str(e)[:100]), rp)
        ctx.count("geom:raised")
        return True
    moved_pts = moved.points.tolist()
    exact_moved = [[sum(A[i][j] * F(p[j]) for j in range(d)) + t[i] for i in range(d)] for p in P]
    sc_mv = max([1.0] + [abs(float(x)) for r in exact_moved for x in r])
    ok = ctx.check(all(common.close(x, y, sc_mv, TOL) for r, q in zip(moved_pts, exact_moved) for x, y in zip(r, q)),
                   site, "harness-motion", "menpo's transform did not move the points as p -> A p + t (harness premise)", rp)
    if not ok:
        return True
    fac = float(s)
    k = len(T)
    ok = True
    ok &= ctx.check(len(a0) == k and len(a1) == k and len(e0) == 3 * k and len(e1) == 3 * k, site, "shape",
                    "tri_areas / edge_lengths have the wrong length", rp)
    if not ok:
        return True
    asc = max([1.0] + [float(x) for x in a0]) * max(1.0, fac * fac)
    lsc = max([1.0] + [float(x) for x in e0]) * max(1.0, fac)
    ok &= ctx.check(all(x >= 0 for x in a0) and all(x >= 0 for x in a1), site, "negative-area", "a triangle area is negative", rp)
    ok &= ctx.check(all(x >= 0 for x in e0) and all(x >= 0 for x in e1), site, "negative-length", "an edge length is negative", rp)
    ex_a = [fsqrt(ex_cross_sq(P[t_[0]], P[t_[1]], P[t_[2]])) for t_ in T]
    ok &= ctx.check(all(common.close(x, y, asc, TOL) for x, y in zip(a0, ex_a)), site, "area-value",
                    "tri_areas differs from the exact area of the triangle", rp)
    ok &= ctx.check(all(common.close(y, fac * fac * x, asc, TOL) for x, y in zip(a0, a1)), site,
                    "area-not-invariant" if s == 1 else "area-scaling",
                    "areas after the motion are not %s the areas before" % ("equal to" if s == 1 else "s^2 times"), rp)
    ex_e = []
    for t_ in T:
        for (i, j) in ((0, 1), (1, 2), (2, 0)):
            ex_e.append(fsqrt(sum((F(x) - F(y)) ** 2 for x, y in zip(P[t_[i]], P[t_[j]]))))
    ok &= ctx.check(all(common.close(x, y, lsc, TOL) for x, y in zip(e0, ex_e)), site, "edge-length-value",
                    "edge_lengths differs from the exact length of the edges AB, BC, CA", rp)
    ok &= ctx.check(all(common.close(y, fac * x, lsc, TOL) for x, y in zip(e0, e1)), site,
                    "length-not-invariant" if s == 1 else "length-scaling",
                    "edge lengths after the motion are not %s the lengths before" % ("equal to" if s == 1 else "s times"), rp)
    und = {frozenset((t_[i], t_[j])) for t_ in T for (i, j) in ((0, 1), (1, 2), (2, 0))}
    ok &= ctx.check(len(ue0) == len(und), site, "unique-edge-count",
                    "%d unique edge lengths for %d undirected edges" % (len(ue0), len(und)), rp)
    nondeg = [ex_cross_sq(P[t_[0]], P[t_[1]], P[t_[2]]) > 0 for t_ in T]
    if d == 3:
        for arr, pts, tag in ((n0, P, "before"), (n1, moved_pts, "after")):
            for j, t_ in enumerate(T):
                if not nondeg[j]:
                    ctx.count("geom:degenerate-triangle-skipped")
                    continue
                nv = [float(x) for x in arr[j]]
                ok &= ctx.check(abs(math.sqrt(sum(x * x for x in nv)) - 1.0) <= 1e-9, site, "normal-not-unit",
                                "a triangle normal (%s the motion) is not a unit vector" % tag, rp)
                for (i, jj) in ((0, 1), (0, 2), (1, 2)):
                    e = [pts[t_[jj]][c] - pts[t_[i]][c] for c in range(3)]
                    el = math.sqrt(sum(x * x for x in e))
                    ok &= ctx.check(abs(sum(x * y for x, y in zip(nv, e))) <= 1e-9 * (1 + el) * max(1.0, sc_mv), site,
                                    "normal-not-perpendicular", "a triangle normal (%s the motion) is not perpendicular to its triangle" % tag, rp)
        Af = [[float(x) for x in r] for r in A]
        for j in range(k):
            if not nondeg[j]:
                continue
            if kind in ("rotation", "rigid"):
                want = [sum(Af[i][c] * float(n0[j][c]) for c in range(3)) for i in range(3)]
            else:
                want = [float(x) for x in n0[j]]
            ok &= ctx.check(all(abs(x - float(y)) <= 1e-9 for x, y in zip(want, n1[j])), site, "normal-does-not-follow",
                            "the normal of the moved triangle is not the moved normal", rp)
        # vertex normals: unit wherever the incident unit normals do not cancel
        for v in range(len(P)):
            acc = [0.0, 0.0, 0.0]
            for j, t_ in enumerate(T):
                for c in t_:
                    if c == v:
                        for q in range(3):
                            acc[q] += float(n0[j][q])
            nrm = math.sqrt(sum(x * x for x in acc))
            if nrm < 1e-6:
                ctx.count("geom:vertex-normal-cancels-or-orphan-skipped")
                continue
            ok &= ctx.check(abs(math.sqrt(sum(float(x) ** 2 for x in v0[v])) - 1.0) <= 1e-9, site, "vertex-normal-not-unit",
                            "a vertex normal is not a unit vector", rp)
    ctx.count("geom:%dd:%s" % (d, kind))
    ctx.count("geom-shape:" + case["shape"].split(":")[0])
    if lines is not None and ok:
        tl = "%d %s" % (k, " ".join(str(v) for t_ in T for v in t_))
        ident = [[Fraction(int(i == j)) for j in range(d)] for i in range(d)]
        flatA = " ".join(common.fq(x) for r in A for x in r)
        flatI = " ".join(common.fq(x) for r in ident for x in r)
        op = "geom%d" % d
        lines.append("%s.0 %s %s %s %s %s" % (cid, op, common.fmat(P), tl, flatI, " ".join(["0"] * d)))
        lines.append("%s.1 %s %s %s %s %s" % (cid, op, common.fmat(P), tl, flatA, " ".join(common.fq(x) for x in t)))
        if d == 3:
            lines.append("%s.2 vnorm %d %s %s" % (cid, len(P), tl, common.fmat(n0.tolist())))
        pending[cid] = (case, dict(a0=[float(x) for x in a0], a1=[float(x) for x in a1], e0=[float(x) for x in e0],
                                   e1=[float(x) for x in e1],
                                   n0=None if n0 is None else n0.tolist(), n1=None if n1 is None else n1.tolist(),
                                   v0=None if v0 is None else v0.tolist(), nondeg=nondeg, asc=asc, lsc=lsc))
    return kind != "identity"


def parse_geom(rep, d):
    tk = rep.split()
    if tk[0] != "ok":
        return None
    out = {"O": tk[2] == "1", "D": Fraction(tk[4])}
    i = 5
    assert tk[i] == "A"
    k = int(tk[i + 1]); i += 2
    out["A"] = [Fraction(x) for x in tk[i:i + k]]; i += k
    assert tk[i] == "E"
    m = int(tk[i + 1]); i += 2
    out["E"] = [Fraction(x) for x in tk[i:i + m]]; i += m
    if d == 3:
        assert tk[i] == "N"
        k = int(tk[i + 1]); i += 2
        out["N"] = [[Fraction(x) for x in tk[i + 3 * j:i + 3 * j + 3]] for j in range(k)]
    return out


def compare_geom(ctx, case, obs, model, cid):
    d = case["d"]
    rp = dict(slim(case), call=replay_code(case))
    kind = case["motion"]["kind"]
    for tag, akey, ekey, nkey in ((".0", "a0", "e0", "n0"), (".1", "a1", "e1", "n1")):
        g = parse_geom(model[cid + tag], d)
        if g is None:
            ctx.mismatch("geom", "model answered %r" % model[cid + tag][:80], rp)
            return
        if tag == ".1" and kind in ("identity", "rotation", "rigid") and not (g["O"] and g["D"] == 1):
            raise common.Infra("harness generated a non-orthogonal 'rotation' %r" % (case["motion"],))
        ma = g["A"] if d == 2 else [fsqrt(x) for x in g["A"]]
        if not all(common.close(x, float(y), obs["asc"], TOL) for x, y in zip(obs[akey], ma)):
            ctx.mismatch("tri_areas", "model %r vs implementation %r" % ([float(x) for x in ma][:6], obs[akey][:6]), rp)
        me = [fsqrt(x) for x in g["E"]]
        if not all(common.close(x, y, obs["lsc"], TOL) for x, y in zip(obs[ekey], me)):
            ctx.mismatch("edge_lengths", "model %r vs implementation %r" % (me[:6], obs[ekey][:6]), rp)
        if d == 3:
            for j, raw in enumerate(g["N"]):
                if not obs["nondeg"][j]:
                    continue
                r = fsqrt(sum(x * x for x in raw))
                if not all(abs(float(x) / r - y) <= 1e-9 for x, y in zip(raw, obs[nkey][j])):
                    ctx.mismatch("tri_normals", "model %r/%.6g vs implementation %r" % ([float(x) for x in raw], r, obs[nkey][j]), rp)
                    break
    if d == 3:
        tk = model[cid + ".2"].split()
        nv = int(tk[1])
        sums = [[Fraction(x) for x in tk[2 + 3 * j:5 + 3 * j]] for j in range(nv)]
        for v, sm in enumerate(sums):
            r = fsqrt(sum(x * x for x in sm))
            if r < 1e-6:
                continue
            if not all(abs(float(x) / r - y) <= 1e-9 for x, y in zip(sm, obs["v0"][v])):
                ctx.mismatch("vertex_normals", "vertex %d: model %r normalised vs implementation %r"
                             % (v, [float(x) / r for x in sm], obs["v0"][v]), rp)
                break


# ================================================================================ family: bound

def bound_spec(T):
    cnt = Counter(frozenset((t[i], t[j])) for t in T for (i, j) in ((0, 1), (1, 2), (2, 0)))
    flags = [any(cnt[frozenset((t[i], t[j]))] == 1 for (i, j) in ((0, 1), (1, 2), (2, 0))) for t in T]
    return cnt, flags


def bound_case(ctx, case, lines=None, pending=None, cid=None):
    case["family"] = "bound"
    rp = dict(slim(case), call=replay_code(case))
    mesh = build(case)
    T = case["tris"]
    cnt, flags = bound_spec(T)
    odd = [e for e, c in cnt.items() if c % 2 == 1]
    site = "C17/boundary_tri_index"
    try:
        got = [bool(x) for x in mesh.boundary_tri_index()]
        err = None
    except Exception as e:   # noqa: BLE001
        got, err = None, type(e).__name__
    if err is not None:
        pattern = "raises-when-no-edge-has-odd-multiplicity" if (err == "IndexError" and not odd) else "raises:" + err
        ctx.fail(site, pattern, "boundary_tri_index raised %s on a mesh with %d triangles (%s); every edge is shared, "
                 "so the answer is the all-false index" % (err, len(T), case["shape"]), rp)
    elif got != flags:
        wrong = [k for k in range(len(T)) if got[k] != flags[k]]
        owns3 = all(any(cnt[frozenset((T[k][i], T[k][j]))] % 2 == 1 and cnt[frozenset((T[k][i], T[k][j]))] >= 3
                        for (i, j) in ((0, 1), (1, 2), (2, 0))) for k in wrong)
        pattern = "edge-parity-instead-of-multiplicity-one" if (owns3 and all(got[k] for k in wrong)) else "wrong-index"
        ctx.fail(site, pattern, "boundary_tri_index flags %r, the triangles owning an unshared edge are %r"
                 % ([int(x) for x in got], [int(x) for x in flags]), rp)
    # unique edges
    site2 = "C17/unique_edge_indices"
    ue = None
    try:
        ue = [tuple(int(x) for x in r) for r in mesh.unique_edge_indices()]
    except Exception as e:   # noqa: BLE001
        ctx.fail(site2, "raises:" + type(e).__name__, "unique_edge_indices raised", rp)
    if ue is not None:
        ctx.check(len(set(frozenset(e) for e in ue)) == len(ue), site2, "edge-listed-twice", "an undirected edge is listed twice", rp)
        ctx.check(set(frozenset(e) for e in ue) == set(cnt), site2, "edge-set",
                  "unique_edge_indices is not the set of undirected triangle sides", rp)
    ctx.count("bound:" + ("closed/no-odd-edge" if not odd else "max-mult-%d" % min(max(cnt.values()), 4)))
    ctx.count("bound-shape:" + case["shape"].split(":")[0])
    if lines is not None:
        tl = "%d %s" % (len(T), " ".join(str(v) for t in T for v in t))
        lines.append("%s.0 bound %d %s" % (cid, len(case["points"]), tl))
        lines.append("%s.1 uedges %s" % (cid, tl))
        pending[cid] = (case, dict(got=got, err=err, ue=ue))
    return len(T) >= 2


def compare_bound(ctx, case, obs, model, cid):
    rp = dict(slim(case), call=replay_code(case))
    rep = model[cid + ".0"]
    coded, count, spec = [x.strip() for x in rep.split(";")]
    count_bits = [x == "1" for x in count.split()[1:]]
    if obs["got"] is None:
        impl = "err"
    else:
        impl = obs["got"]
    if impl != count_bits:
        orig = coded.split()[1:]
        same_as_original = (orig[:2] == ["err", "index"] and impl == "err" and obs["err"] == "IndexError") or \
                           (orig[0] == "ok" and impl != "err" and [x == "1" for x in orig[1:]] == impl)
        ctx.mismatch("boundary_tri_index", "implementation %r vs model of the repaired code %r (%s the model of the original "
                     "toggle loop)" % (impl, count_bits, "matches" if same_as_original else "does not match either"), rp)
    if obs["ue"] is not None:
        tk = model[cid + ".1"].split()
        k = int(tk[1])
        me = {(int(tk[2 + 2 * j]), int(tk[3 + 2 * j])) for j in range(k)}
        if me != {tuple(sorted(e)) for e in obs["ue"]} or k != len(obs["ue"]):
            ctx.mismatch("unique_edge_indices", "model %r vs implementation %r" % (sorted(me)[:8], sorted(obs["ue"])[:8]), rp)


# ================================================================================ shrinking

def shrink_tris(case, still_fails):
    """greedy: drop triangles while the failure persists (vertices are left alone)"""
    cur = dict(case)
    changed = True
    while changed and len(cur["tris"]) > 1:
        changed = False
        for i in range(len(cur["tris"])):
            cand = dict(cur, tris=cur["tris"][:i] + cur["tris"][i + 1:])
            if "mask" in cand and cand.get("by") == "tri":
                cand["mask"] = cur["mask"][:i] + cur["mask"][i + 1:]
            try:
                if still_fails(cand):
                    cur, changed = cand, True
                    break
            except Exception:   # noqa: BLE001
                pass
    return cur


def run_family(ctx, fam, case, lines=None, pending=None, cid=None):
    f = {"mask": mask_case, "geom": geom_case, "bound": bound_case}[fam]
    n_before = len(ctx.failures)
    known_before = dict(ctx.known_seen)
    nt = f(ctx, case, lines, pending, cid)
    if len(ctx.failures) > n_before and fam in ("mask", "bound") and len(case["tris"]) > 1:
        site, pattern = ctx.failures[n_before][0], ctx.failures[n_before][1]

        def still(c):
            probe = common.Ctx(PROP, ctx.tier, ctx.seed)
            probe.known = []
            f(probe, dict(c))
            return any(x[0] == site and x[1] == pattern for x in probe.failures)
        small = shrink_tris(case, still)
        if len(small["tris"]) < len(case["tris"]):
            s_, p_, text, rp = ctx.failures[n_before]
            small["family"] = fam
            rp = dict(rp, minimised=dict(slim(small), call=replay_code(small)))
            ctx.failures[n_before] = (s_, p_, text, rp)
    del known_before
    return nt


# ================================================================================ entry points

def _retry(gen):
    def g(rng):
        for _ in range(50):
            try:
                return gen(rng)
            except common.Infra:
                raise
            except Exception:   # noqa: BLE001 - e.g. Qhull refusing a degenerate point set: draw again
                continue
        raise common.Infra("generator %s failed 50 times in a row" % gen.__name__)
    return g


GEN = {"mask": _retry(gen_mask_case), "geom": _retry(gen_geom_case), "bound": _retry(gen_bound_case)}


def search(ctx):
    """directed search after a broken tie: many more cases of every family through the oracle only,
    starting with the neighbours (same mesh, other masks) of the mismatching cases"""
    rng = ctx.rng
    for op, text, rp in list(ctx.mismatches)[:5]:
        fam = rp.get("family")
        if fam == "mask":
            n = len(rp["points"]) if rp["by"] == "vertex" else len(rp["tris"])
            for _ in range(200):
                c = {k: v for k, v in rp.items() if k != "call"}
                c["mask"] = [rng.random() < 0.7 for _ in range(n)]
                run_family(ctx, "mask", c)
                ctx.searched += 1
                if ctx.failures:
                    return True
    for k in range(ctx.n(4000, 12000)):
        fam = ("mask", "geom", "bound")[k % 3]
        run_family(ctx, fam, GEN[fam](rng))
        ctx.searched += 1
        if ctx.failures:
            return True
    return False


def corpus(ctx, lines, pending):
    """fixed regression cases: menpo's own test meshes, closed meshes, the minimal non-manifold witnesses"""
    k = 0
    pts3 = lambda n: [[float(i), float((i * i) % 5), float((3 * i) % 4) / 2] for i in range(n)]   # noqa: E731
    for name, (n, tris) in sorted(CLOSED.items()):
        c = dict(shape="closed:" + name, d=3, cls="plain", attrs={}, points=pts3(n), tris=[list(t) for t in tris])
        run_family(ctx, "bound", c, lines, pending, "cb%d" % k)
        ctx.case(("corpus-bound", name), nontrivial=True)
        k += 1
    test_mesh = [[0, 2, 3], [2, 0, 1], [4, 0, 3], [0, 5, 1], [4, 5, 0], [5, 4, 6]]
    c = dict(shape="arbitrary", d=3, cls="plain", attrs={}, points=pts3(7), tris=test_mesh)
    run_family(ctx, "bound", c, lines, pending, "cb%d" % k)
    ctx.case(("corpus-bound", "menpo-test"), nontrivial=True)
    c = dict(shape="arbitrary", d=3, cls="coloured", attrs={"colours": [[i / 8.0, 0.5, 1.0] for i in range(7)]},
             points=pts3(7), tris=[[0, 1, 2], [1, 3, 2], [4, 5, 6]], by="vertex",
             mask=[True, False, True, True, True, True, True])
    run_family(ctx, "mask", c, lines, pending, "cm0")
    ctx.case(("corpus-mask", 0), nontrivial=True)
    # minimised past failures (replays/corpus/C17-*.json) are re-run first on every check
    import glob
    import os
    for j, path in enumerate(sorted(glob.glob(os.path.join(common.ROOT, "replays", "corpus", "C17-*.json")))):
        try:
            rp = json.load(open(path)).get("replay") or {}
        except (OSError, ValueError):
            continue
        for tag, cs in (("f", rp), ("m", rp.get("minimised") or {})):
            if cs.get("family") in GEN:
                cs = {k_: v for k_, v in cs.items() if k_ not in ("call", "minimised")}
                run_family(ctx, cs["family"], cs, lines, pending, "cr%d%s" % (j, tag))
                ctx.case(("corpus-file", os.path.basename(path), tag), nontrivial=True)


def run(ctx):
    common.prepare_lean(ctx, PROP, IMPORTS, THEOREMS)
    ctx.trusted += ["contract: sqrt returns r >= 0 with r*r = x (areas, edge lengths, _normalize) — every generated case "
                    "checks the implementation's roots against exact rational squares",
                    "numpy indexing / isin / unique / add.at semantics (modelled in Core/C17Mesh.lean, exercised by the correspondence)"]
    rng = ctx.rng
    lines, pending = [], {}
    corpus(ctx, lines, pending)
    plan = [("mask", ctx.n(3000, 30000)), ("geom", ctx.n(1000, 10000)), ("bound", ctx.n(1500, 15000))]
    for fam, cnt in plan:
        for k in range(cnt):
            case = GEN[fam](rng)
            cid = "%s%d" % (fam[0], k)
            nt = run_family(ctx, fam, case, lines, pending, cid)
            sig = (fam, case.get("cls"), repr(case["points"]), repr(case["tris"]), repr(case.get("mask")), repr(case.get("motion")))
            ctx.case(sig, nontrivial=bool(nt),
                     sample={"family": fam, "class": case.get("cls"), "shape": case["shape"], "n_points": len(case["points"]),
                             "trilist": case["tris"][:6], "mask": case.get("mask"), "motion": (case.get("motion") or {}).get("kind")})
    model = common.run_driver(PROP, lines)
    for cid, (case, obs) in pending.items():
        fam = case["family"]
        if fam == "mask":
            compare_mask(ctx, case, obs, model[cid])
        elif fam == "geom":
            compare_geom(ctx, case, obs, model, cid)
        else:
            compare_bound(ctx, case, obs, model, cid)
    return ctx.finish(search)


def replay(ctx, path):
    data = json.load(open(path))
    rp = data.get("replay") or (data.get("broken_correspondence") or [{}])[0].get("case", {})
    fam = rp.get("family")
    if fam not in GEN:
        print("replay file carries no C17 case")
        return 2
    common.prepare_lean(ctx, PROP, IMPORTS, THEOREMS)
    case = {k: v for k, v in rp.items() if k not in ("call", "minimised")}
    lines, pending = [], {}
    run_family(ctx, fam, case, lines, pending, "r0")
    ctx.case(("replay", fam, repr(case.get("tris")), repr(case.get("mask"))))
    ctx.case(("replay2", fam, repr(case.get("points"))))
    print("replayed %s case: class=%s shape=%s n_points=%d trilist=%r mask=%r" % (
        fam, case.get("cls"), case.get("shape"), len(case["points"]), case["tris"], case.get("mask")))
    if lines:
        model = common.run_driver(PROP, lines)
        for cid, (c, obs) in pending.items():
            for k_ in sorted(model):
                if k_ == cid or k_.startswith(cid + "."):
                    print("model %s: %s" % (k_, model[k_][:300]))
            if fam == "mask":
                print("implementation:", str(obs)[:300])
                compare_mask(ctx, c, obs, model[cid])
            elif fam == "geom":
                compare_geom(ctx, c, obs, model, cid)
            else:
                print("implementation:", obs)
                compare_bound(ctx, c, obs, model, cid)
    return ctx.finish(None)
